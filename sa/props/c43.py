"""C43 MJX reproduces the MuJoCo C engine — the cross-language *structural* part (R-XLANG).

Python side: mjx/mujoco/mjx/_src/*.py parsed with `ast` (never imported).  C side: include/mujoco as type-checked by
clang (sa.cheaders); the sensor stage table is the compiler's `sensorNeedstage` switch in src/user/user_objects.cc,
cut out of the C++ file by a small lexer and type-checked by clang as C against the public headers.

Decided
  R-XLANG-ENUM    every `mujoco.mjtE` / `mujoco.mjtE.mjNAME` spelled anywhere in MJX names an enum typedef / an
                  enumerator of that very enum in the headers; every `mujoco.mj*_fn` / `mujoco.mjCONST` names a
                  public function / object-like macro.
  R-XLANG-MIRROR  every enum class of types.py whose members are bound to `mujoco.mjtE.mjP_NAME` mirrors ONE C enum,
                  and member NAME is bound to the enumerator spelled mjP_NAME (no crossed wires).
  R-XLANG-GATE    every IntEnum/IntFlag mirror that omits value enumerators of its C enum is gated on the JAX
                  put_model path: a `raise NotImplementedError` guarded by `x not in set(types.E)` or by a non-empty
                  `set(field) - set(types.E)` (the (field, types.E, mujoco.mjtE) table rows of _put_model_jax are
                  enumerated row by row, and each row must name the C enum that E mirrors and an mjModel field).
  R-XLANG-ATTR    every attribute read `p.a[.b]` on a parameter annotated mujoco.MjModel/MjData/MjOption/MjStatistic
                  in io.py is a member of the corresponding C struct (nested structs followed through the C field
                  types), and every `getattr(p, f.name)` copy loop over `types.K.fields()` (K = Model, Option,
                  OptionJAX, Statistic) only names C members — unless the getattr has a default / hasattr filter AND
                  the name is assigned in the same function (derived field).
  R-XLANG-STAGE   each SensorType member is handled by exactly the MJX stage function (sensor_pos/vel/acc select rows
                  with m.sensor_needstage == mjSTAGE_X) whose stage the C compiler assigns to that sensor type, and
                  no stage function handles a type the compiler assigns elsewhere.
  R-XLANG-FEED    who feeds whom inside one step.  Mirrored primitives (FEED_PRIMS, one line of reason each, role evidence
                  verified on both sides): dynamics evaluation forward <-> mj_forward / mj_forwardSkip(skipstage NONE),
                  activation update _next_activation <-> mj_nextActivation, position integration _integrate_pos <->
                  mj_integratePos[Ind].  Drivers: step <-> mj_step with opt.integrator fixed to each IntegratorType member
                  (the C enumerator is the one R-XLANG-MIRROR binds it to), and the integrator itself = the outermost
                  function each driver evaluates (directly or through a dispatch helper) for that member and for no other
                  (derived, not tabulated; no unique one is an ANALYSIS-ERROR).  Role evidence and the discovery of the
                  ball-row builder follow module-level helpers: a function reads F / handles X if it or a helper it uses
                  does.  The instance floor is derived from the pairing (3 pairs + 5 per accepted member).
                  MJX side (sa/pydep.py, explicit data flow over the ast: closures, scan carries, tree_map, dispatch
                  tables, .replace records): the result of primitive P reaches an input of primitive Q.  C side (clang
                  IR, same-TU callees inlined, other callees summarised by the primitives they can reach in the whole-
                  engine call graph, branches on opt.integrator decided): a call of P may precede a call of Q.  Every MJX
                  feed P -> Q needs the C order P before Q: data cannot flow against the call order, so a feed without it
                  has no counterpart in the C engine (an RK stage state built with the clamping activation update).
                  Also: for every field the C driver produces by a primitive (`d->act[j] = mj_nextActivation(..)`,
                  d->qpos handed to mj_integratePos[Ind]) the same field of the state MJX returns depends on the mirrored
                  primitive.  A side that no longer calls a primitive at all (inlined, renamed) is an ANALYSIS-ERROR.
  R-XLANG-COVER   the Jacobian axis of the ball-joint limit row (field J of the row built by the MJX function that handles
                  JointType.BALL limits; the `jac` argument of mj_addConstraint under jnt_type == mjJNT_BALL in C) depends
                  on the scalar part of the joint quaternion, other than through a 0/1 activity factor.  q and -q are one
                  rotation and the vector part alone changes sign between them, so an axis that ignores the scalar part is
                  wrong on half of the cover (C: mju_quat2Vel + mju_normalize3; MJX: renormalising axis*angle, a sign
                  factor, a where, canonicalising the quaternion first are all accepted).
Not decided: numerical agreement of the pipelines (needs execution), Warp/C++ back ends.  R-XLANG-FEED follows explicit
data flow only (no control dependence), compares MJX feeds against C call order (it does not demand that C feeds exist
in MJX, except for the produced state fields), ignores feeds that exist only if an unknown combinator feeds results back
(listed in the evidence), C callbacks / plugin hooks (indirect calls) are assumed not to call the primitives.
"""
from __future__ import annotations

import ast
import os

from .. import cheaders
from ..cfront import REPO, AnalysisError

LEVEL = "other"
MJX = "mjx/mujoco/mjx/_src"

# -- reasoned exceptions, one named symbol each --------------------------------------------------------------------
# Partial mirrors that are deliberately not gated by a `set(E)` membership test.
GATE_EXCEPTIONS = {
    "DisableBit": "IntFlag of feature switches: an omitted bit (midphase, autoreset, native CCD, island, multi-CCD) can "
                  "only switch OFF a C feature that MJX does not have; IntFlag construction keeps unknown bits, nothing "
                  "is computed from them. Verified below: the class is an enum.IntFlag.",
    "GeomType": "gated through the collision table instead: _put_model_jax raises NotImplementedError when "
                "collision_driver.has_collision_fn(t1, t2) is false for a colliding pair; geoms of other types that "
                "never collide (visual only) do not enter the dynamics. Verified below: that guarded raise exists.",
}
# Attribute names of the Python binding objects that are not C struct members are read from the binding source
# itself: python/mujoco/structs.cc, `<wrapper>.def_property_readonly("name", ...)` (see binding_attrs()).
BINDING_SRC = "python/mujoco/structs.cc"
BINDING_WRAPPERS = {"mjModel": "mjModel", "mjData": "mjData", "mjOption": "mjOption", "mjStatistic": "mjStatistic",
                    "mjContact": "mjContact", "mjContactList": "mjContact"}

C_OBJECT_TYPES = {"MjModel": "mjModel", "MjData": "mjData", "MjOption": "mjOption", "MjStatistic": "mjStatistic",
                  "_MjContactList": "mjContact"}


# --------------------------------------------------------------------------------------
# python helpers


def load_sources(repo):
    d = os.path.join(repo, MJX)
    if not os.path.isdir(d):
        raise AnalysisError(f"anchor vanished: {MJX}")
    out = {}
    for f in sorted(os.listdir(d)):
        if f.endswith(".py"):
            p = os.path.join(d, f)
            try:
                with open(p, encoding="utf-8") as fh:
                    out[f] = ast.parse(fh.read(), filename=p)
            except SyntaxError as e:
                raise AnalysisError(f"{MJX}/{f}: not parseable: {e}")
    for need in ("io.py", "types.py", "sensor.py", "collision_driver.py"):
        if need not in out:
            raise AnalysisError(f"anchor vanished: {MJX}/{need}")
    return out


def chain(node):
    """(root name, [attr, ...]) of an attribute chain a.b.c, or None."""
    parts = []
    x = node
    while isinstance(x, ast.Attribute):
        parts.append(x.attr)
        x = x.value
    if isinstance(x, ast.Name):
        return x.id, parts[::-1]
    return None


def maximal_chains(tree):
    """All maximal Name-rooted attribute chains: [(root, parts, node)]."""
    inner = set()
    out = []
    for n in ast.walk(tree):
        if isinstance(n, ast.Attribute) and isinstance(n.value, ast.Attribute):
            inner.add(id(n.value))
    for n in ast.walk(tree):
        if isinstance(n, ast.Attribute) and id(n) not in inner:
            c = chain(n)
            if c:
                out.append((c[0], c[1], n))
    return out


def imports_mujoco(tree):
    for n in tree.body:
        if isinstance(n, ast.Import):
            for a in n.names:
                if a.name == "mujoco" and (a.asname or "mujoco") == "mujoco":
                    return True
    return False


def functions(tree):
    return {n.name: n for n in tree.body if isinstance(n, ast.FunctionDef)}


def types_classes(tree):
    """types.py: {class: {"bases": [...], "fields": [names], "members": {NAME: (mjtE, mjNAME, line)}, "line"}}"""
    out = {}
    for n in tree.body:
        if not isinstance(n, ast.ClassDef):
            continue
        bases = []
        for b in n.bases:
            c = chain(b) if isinstance(b, ast.Attribute) else ((b.id, []) if isinstance(b, ast.Name) else None)
            bases.append(".".join([c[0]] + c[1]) if c else "?")
        fields, members = [], {}
        for st in n.body:
            if isinstance(st, ast.AnnAssign) and isinstance(st.target, ast.Name):
                fields.append(st.target.id)
            elif isinstance(st, ast.Assign) and len(st.targets) == 1 and isinstance(st.targets[0], ast.Name):
                c = chain(st.value) if isinstance(st.value, ast.Attribute) else None
                if c and c[0] == "mujoco" and len(c[1]) == 2 and c[1][0].startswith("mjt"):
                    members[st.targets[0].id] = (c[1][0], c[1][1], st.lineno)
        out[n.name] = {"bases": bases, "fields": fields, "members": members, "line": n.lineno}
    return out


def class_fields(classes, name, seen=()):
    """Dataclass fields of types.<name> including local bases; None if a base lives in another module."""
    c = classes.get(name)
    if c is None or name in seen:
        return None
    out = []
    for b in c["bases"]:
        if b in ("PyTreeNode", "object"):
            continue
        if b in classes:
            sub = class_fields(classes, b, seen + (name,))
            if sub is None:
                return None
            out += [f for f in sub if f not in out]
        else:
            return None
    out += [f for f in c["fields"] if f not in out]
    return out


# --------------------------------------------------------------------------------------
# (a) enumerator / symbol references


def check_symbols(res, H, sources):
    res.rule("R-XLANG-ENUM", "every mujoco.mjtE[.mjNAME], mujoco.mj_fn, mujoco.mjCONST spelled in MJX exists in the C "
             "headers (enumerator in that very enum)", floor=250)
    seen = set()
    for fname, tree in sources.items():
        if not imports_mujoco(tree):
            continue
        for root, parts, node in maximal_chains(tree):
            if root != "mujoco" or not parts:
                continue
            if parts[0] == "_enums":
                parts = parts[1:]
                if not parts:
                    continue
            p0 = parts[0]
            rel = f"{MJX}/{fname}"
            if p0.startswith("mjt") and p0[3:4].isupper():
                names = H.enumerators(p0)
                key = (fname, p0)
                if names is None or p0 not in H.typedefs:
                    if key not in seen:
                        seen.add(key)
                        res.bad("R-XLANG-ENUM", f"{fname}:{p0}", rel, node.lineno,
                                f"mujoco.{p0} is not an enum of the public headers")
                    continue
                if len(parts) >= 2 and parts[1].startswith("mj"):
                    key = (fname, p0, parts[1])
                    if key in seen:
                        continue
                    seen.add(key)
                    if parts[1] in names:
                        res.ok("R-XLANG-ENUM", f"{fname}:{p0}.{parts[1]}",
                               {"value": names[parts[1]], "where": f"{rel}:{node.lineno}"})
                    else:
                        owner = [e["name"] for e in H.enums.values() if parts[1] in dict(e["values"])]
                        res.bad("R-XLANG-ENUM", f"{fname}:{p0}.{parts[1]}", rel, node.lineno,
                                f"mujoco.{p0}.{parts[1]}: enum {p0} has no enumerator {parts[1]}"
                                + (f" (it belongs to {owner[0]})" if owner else ""))
                else:
                    if key not in seen:
                        seen.add(key)
                        res.ok("R-XLANG-ENUM", f"{fname}:{p0}", None)
            elif p0.startswith(("mj_", "mju_", "mjv_", "mjr_", "mjs_", "mjd_", "mjp_", "mjui_")):
                key = (fname, p0)
                if key in seen:
                    continue
                seen.add(key)
                if p0 in H.functions:
                    res.ok("R-XLANG-ENUM", f"{fname}:{p0}", None)
                else:
                    res.bad("R-XLANG-ENUM", f"{fname}:{p0}", rel, node.lineno,
                            f"mujoco.{p0} is not a function of the public headers")
            elif p0.startswith("mj") and p0[2:3].isupper() and p0.upper() == p0.replace("mj", "MJ", 1):
                key = (fname, p0)
                if key in seen:
                    continue
                seen.add(key)
                if p0 in H.macro_names or p0 in H.consts:
                    res.ok("R-XLANG-ENUM", f"{fname}:{p0}", {"kind": "macro" if p0 in H.macro_names else "enumerator"})
                else:
                    res.bad("R-XLANG-ENUM", f"{fname}:{p0}", rel, node.lineno,
                            f"mujoco.{p0} is neither a macro nor an enumerator of the public headers")


# --------------------------------------------------------------------------------------
# (a2) mirrors


def mirrors(res, H, classes):
    """Returns {class: {"cenum": mjtE, "partial": [omitted C value enumerators], "kind": base}}."""
    res.rule("R-XLANG-MIRROR", "every types.py enum member NAME bound to mujoco.mjtE.mjP_NAME mirrors one C enum and the "
             "enumerator of the same name", floor=110)
    rel = f"{MJX}/types.py"
    out = {}
    for cname, c in classes.items():
        if not c["members"]:
            continue
        count = {}
        for e, _, _ in c["members"].values():
            count[e] = count.get(e, 0) + 1
        enums = sorted(count, key=lambda e: (-count[e], e))
        main = enums[0]
        cen = H.enumerators(main)
        if cen is None:
            for mname, (e, cn, line) in c["members"].items():
                res.bad("R-XLANG-MIRROR", f"{cname}.{mname}", rel, line, f"{cname} mirrors {main}, which the headers do "
                        f"not declare")
            continue
        used = {}
        for mname, (e, cn, line) in c["members"].items():
            key = f"{cname}.{mname}"
            if e != main:
                res.bad("R-XLANG-MIRROR", key, rel, line, f"{key} = mujoco.{e}.{cn}, but {cname} mirrors {main}: members of "
                        f"several C enums are mixed")
                continue
            if cn not in cen:
                res.bad("R-XLANG-MIRROR", key, rel, line, f"{key} = mujoco.{e}.{cn}: no such enumerator in {e}")
                continue
            tail = cn.split("_", 1)[1] if "_" in cn else cn
            if tail != mname:
                res.bad("R-XLANG-MIRROR", key, rel, line, f"{key} is bound to mujoco.{e}.{cn} (expected the enumerator "
                        f"named ..._{mname}): crossed mirror")
                continue
            if cn in used:
                res.bad("R-XLANG-MIRROR", key, rel, line, f"{key} and {cname}.{used[cn]} are both bound to {cn}")
                continue
            used[cn] = mname
            res.ok("R-XLANG-MIRROR", key, {"c": f"{e}.{cn}", "value": cen[cn]})
        # value enumerators of the C enum: those sharing the prefix (mjJNT_) of the mirrored ones; count sentinels
        # (mjNDISABLE, mjNGEOMTYPES ...) do not
        prefixes = {cn.split("_", 1)[0] + "_" for _, cn, _ in c["members"].values() if "_" in cn}
        omitted = [n for n in cen if n not in used and any(n.startswith(p) for p in prefixes)]
        kind = next((b for b in c["bases"] if b.startswith("enum.")), c["bases"][0] if c["bases"] else "?")
        out[cname] = {"cenum": main, "partial": omitted, "kind": kind, "line": c["line"]}
    return out


# --------------------------------------------------------------------------------------
# (b) gates


def _is_nie(raise_node):
    e = raise_node.exc
    if isinstance(e, ast.Call):
        e = e.func
    return isinstance(e, ast.Name) and e.id == "NotImplementedError"


def _assigned(fn, name):
    """All values assigned to local `name` in function `fn` (flow-insensitive)."""
    out = []
    for n in ast.walk(fn):
        if isinstance(n, ast.Assign):
            for t in n.targets:
                if isinstance(t, ast.Name) and t.id == name:
                    out.append(n.value)
        elif isinstance(n, ast.AnnAssign) and isinstance(n.target, ast.Name) and n.target.id == name and n.value:
            out.append(n.value)
        elif isinstance(n, ast.NamedExpr) and n.target.id == name:
            out.append(n.value)
    return out


def _loop_rows(fn, name):
    """If `name` is an element of a tuple for-target iterating a literal tuple of tuples: list of
    (row tuple node, index)."""
    out = []
    for n in ast.walk(fn):
        if isinstance(n, ast.For) and isinstance(n.target, ast.Tuple) and isinstance(n.iter, (ast.Tuple, ast.List)):
            names = [t.id if isinstance(t, ast.Name) else None for t in n.target.elts]
            if name in names:
                i = names.index(name)
                for row in n.iter.elts:
                    if not isinstance(row, (ast.Tuple, ast.List)) or len(row.elts) != len(names):
                        raise AnalysisError(f"{MJX}/io.py:{n.lineno}: gate table row is not a {len(names)}-tuple")
                    out.append((row, i, names))
    return out


def _enum_of(expr, fn):
    """types.E classes an expression may denote: [(E, row or None)]."""
    if isinstance(expr, ast.Attribute):
        c = chain(expr)
        if c and c[0] == "types" and len(c[1]) == 1:
            return [(c[1][0], None)]
        return []
    if isinstance(expr, ast.Name):
        out = []
        for row, i, names in _loop_rows(fn, expr.id):
            for e, _ in _enum_of(row.elts[i], fn):
                out.append((e, (row, names)))
        return out
    return []


def _set_arg(expr):
    if isinstance(expr, ast.Call) and isinstance(expr.func, ast.Name) and expr.func.id == "set" and len(expr.args) == 1 \
            and not expr.keywords:
        return expr.args[0]
    return None


def _gated_in(test, fn, depth=0):
    """[(E, row, tested expression)] for membership shapes inside a guard expression."""
    out = []
    if depth > 4:
        return out
    for n in ast.walk(test):
        if isinstance(n, ast.Compare) and len(n.ops) == 1:
            arg = _set_arg(n.comparators[0])
            if arg is not None and isinstance(n.ops[0], ast.NotIn):
                out += [(e, row, n.left) for e, row in _enum_of(arg, fn)]
        elif isinstance(n, ast.UnaryOp) and isinstance(n.op, ast.Not) and isinstance(n.operand, ast.Compare) \
                and len(n.operand.ops) == 1 and isinstance(n.operand.ops[0], ast.In):
            arg = _set_arg(n.operand.comparators[0])
            if arg is not None:
                out += [(e, row, n.operand.left) for e, row in _enum_of(arg, fn)]
        elif isinstance(n, ast.BinOp) and isinstance(n.op, ast.Sub):
            arg, larg = _set_arg(n.right), _set_arg(n.left)
            if arg is not None and larg is not None:
                out += [(e, row, larg) for e, row in _enum_of(arg, fn)]
        elif isinstance(n, ast.Name) and isinstance(n.ctx, ast.Load):
            for v in _assigned(fn, n.id):
                out += _gated_in(v, fn, depth + 1)
    return out


def jax_put_root(io_funcs):
    """The function put_model dispatches to for types.Impl.JAX."""
    pm = io_funcs.get("put_model")
    if pm is None:
        raise AnalysisError(f"{MJX}/io.py: anchor vanished: put_model")
    for n in ast.walk(pm):
        if isinstance(n, ast.If):
            cs = [c for c in maximal_chains(n.test)]
            if any(r == "types" and p == ["Impl", "JAX"] for r, p, _ in cs):
                for st in n.body:
                    for call in ast.walk(st):
                        if isinstance(call, ast.Call) and isinstance(call.func, ast.Name) and call.func.id in io_funcs:
                            return call.func.id
    raise AnalysisError(f"{MJX}/io.py: put_model has no `if impl == types.Impl.JAX: return <local function>(...)` branch")


def reachable(io_funcs, root):
    seen, todo = set(), [root]
    while todo:
        f = todo.pop()
        if f in seen or f not in io_funcs:
            continue
        seen.add(f)
        for n in ast.walk(io_funcs[f]):
            if isinstance(n, ast.Call) and isinstance(n.func, ast.Name) and n.func.id in io_funcs:
                todo.append(n.func.id)
    return seen


def check_gates(res, H, sources, classes, mir):
    res.rule("R-XLANG-GATE", "every partial IntEnum/IntFlag mirror is gated by a NotImplementedError membership test on "
             "the JAX put_model path; gate table rows are coherent (field in mjModel, C enum = mirrored enum)", floor=22)
    io = sources["io.py"]
    io_funcs = functions(io)
    root = jax_put_root(io_funcs)
    reach = reachable(io_funcs, root)
    rel = f"{MJX}/io.py"
    gates = {}      # E -> list of dict(fn, line, field, row)
    other_guards = []
    for fname in sorted(reach):
        fn = io_funcs[fname]
        for n in ast.walk(fn):
            if not isinstance(n, ast.If):
                continue
            if not any(isinstance(s, ast.Raise) and _is_nie(s) for s in n.body):
                continue
            hits = _gated_in(n.test, fn)
            for e, row, tested in hits:
                gates.setdefault(e, []).append({"fn": fname, "line": n.lineno, "row": row, "tested": tested})
            if not hits:
                other_guards.append((fname, n))
    # coherence of table rows / tested fields
    model_fields = set(H.public_fields("mjModel"))
    option_fields = set(H.public_fields("mjOption"))
    for e, gl in sorted(gates.items()):
        for g in gl:
            m = mir.get(e)
            if m is None:
                res.bad("R-XLANG-GATE", f"gate:{e}", rel, g["line"], f"gate tests membership in types.{e}, which is not "
                        f"a mirror of a C enum in types.py")
                continue
            problems = []
            field = None
            exprs = []
            if g["row"] is not None:
                row, names = g["row"]
                exprs = list(row.elts)
            else:
                exprs = [g["tested"]]
            for x in exprs:
                c = chain(x) if isinstance(x, ast.Attribute) else None
                if not c:
                    continue
                if c[0] == "mujoco" and len(c[1]) == 1 and c[1][0].startswith("mjt"):
                    if c[1][0] != m["cenum"]:
                        problems.append(f"row names mujoco.{c[1][0]} but types.{e} mirrors {m['cenum']}")
                elif len(c[1]) == 1 and c[0] in ("m", "o") or (c[0] not in ("types", "mujoco") and len(c[1]) == 1):
                    field = c[1][0]
                    if field not in model_fields and field not in option_fields:
                        problems.append(f"tested field {c[0]}.{field} is not a member of mjModel/mjOption")
            key = f"gate:{e}" + (f":{field}" if field else "")
            if problems:
                res.bad("R-XLANG-GATE", key, rel, g["line"], "; ".join(problems))
            else:
                res.ok("R-XLANG-GATE", key, {"function": g["fn"], "where": f"{rel}:{g['line']}", "field": field,
                                             "c_enum": m["cenum"]})
    # every partial mirror needs a gate
    for cname, m in sorted(mir.items()):
        if not m["kind"].startswith(("enum.IntEnum", "enum.IntFlag")):
            continue
        if not m["partial"]:
            continue
        key = f"partial:{cname}"
        if cname in gates:
            res.ok("R-XLANG-GATE", key, {"omits": m["partial"][:6], "n_omitted": len(m["partial"]),
                                         "gated_in": sorted({g['fn'] for g in gates[cname]})})
            continue
        if cname in GATE_EXCEPTIONS:
            ok, why = _verify_exception(cname, m, other_guards, sources)
            if ok:
                res.ok("R-XLANG-GATE", key, {"exception": GATE_EXCEPTIONS[cname], "verified": why,
                                             "omits": m["partial"][:6]})
                continue
            res.bad("R-XLANG-GATE", key, f"{MJX}/types.py", m["line"], f"types.{cname} omits {m['partial']} of "
                    f"{m['cenum']}; its documented alternative gate no longer holds: {why}")
            continue
        res.bad("R-XLANG-GATE", key, f"{MJX}/types.py", m["line"],
                f"types.{cname} omits {m['partial']} of {m['cenum']} but no `raise NotImplementedError` guarded by a "
                f"membership test against set(types.{cname}) is reachable from {root}: a model using an omitted value "
                f"is accepted by put_model and silently mis-simulated")
    res.extra["gate_root"] = root
    res.extra["gate_functions"] = sorted(reach)
    return gates


def _verify_exception(cname, m, other_guards, sources):
    if cname == "DisableBit":
        return (m["kind"] == "enum.IntFlag", f"base class is {m['kind']}")
    if cname == "GeomType":
        for fname, n in other_guards:
            t = n.test
            if isinstance(t, ast.UnaryOp) and isinstance(t.op, ast.Not) and isinstance(t.operand, ast.Call):
                c = chain(t.operand.func) if isinstance(t.operand.func, ast.Attribute) else None
                if c and c[1] and c[1][-1] == "has_collision_fn":
                    cd = functions(sources["collision_driver.py"])
                    if "has_collision_fn" in cd:
                        return True, f"{fname}: `if not ...has_collision_fn(t1, t2): raise NotImplementedError` at line {n.lineno}"
        return False, "no `if not collision_driver.has_collision_fn(...): raise NotImplementedError` on the put path"
    return False, "no verifier"


# --------------------------------------------------------------------------------------
# (c) attribute reads on C objects


def binding_attrs(repo):
    """{C struct: {attribute names the pybind11 wrapper defines explicitly}} from python/mujoco/structs.cc.

    C members are exposed through X-macros; everything else the wrapper class offers is spelled as a string literal in
    a `.def*("name"` call on the wrapper variable.  Only non-dunder names are kept."""
    import re
    path = os.path.join(repo, BINDING_SRC)
    try:
        with open(path, encoding="utf-8", errors="replace") as f:
            src = f.read()
    except OSError:
        raise AnalysisError(f"anchor vanished: {BINDING_SRC}")
    out = {}
    for m in re.finditer(r"\b([A-Za-z_][A-Za-z0-9_]*)\s*\.\s*def(?:_[a-z_]+)?\(\s*\"([^\"]+)\"", src):
        st = BINDING_WRAPPERS.get(m.group(1))
        if st and not (m.group(2).startswith("__") and m.group(2).endswith("__")):
            out.setdefault(st, set()).add(m.group(2))
    if "_address" not in out.get("mjModel", ()):
        raise AnalysisError(f"{BINDING_SRC}: anchor vanished: mjModel.def_property_readonly(\"_address\", ...)")
    return out


class _ScopedChains(ast.NodeVisitor):
    """Maximal attribute chains rooted at the given names, skipping nested scopes that rebind the name
    (comprehension targets, lambda / nested function parameters)."""

    def __init__(self, names):
        self.names = set(names)
        self.out = []

    def _rebinding(self, node):
        bound = set()
        if isinstance(node, (ast.ListComp, ast.SetComp, ast.DictComp, ast.GeneratorExp)):
            for g in node.generators:
                for t in ast.walk(g.target):
                    if isinstance(t, ast.Name):
                        bound.add(t.id)
        elif isinstance(node, (ast.Lambda, ast.FunctionDef, ast.AsyncFunctionDef)):
            a = node.args
            for p in a.posonlyargs + a.args + a.kwonlyargs + ([a.vararg] if a.vararg else []) + ([a.kwarg] if a.kwarg else []):
                bound.add(p.arg)
        return bound

    def generic_visit(self, node):
        bound = self._rebinding(node) & self.names if not getattr(node, "_root", False) else set()
        if bound:
            saved = self.names
            self.names = self.names - bound
            super().generic_visit(node)
            self.names = saved
        else:
            super().generic_visit(node)

    def visit_Attribute(self, node):
        c = chain(node)
        if c and c[0] in self.names:
            self.out.append((c[0], c[1], node))
            return          # maximal: do not descend into the chain itself
        self.generic_visit(node)


def scoped_chains(fn, names):
    v = _ScopedChains(names)
    fn._root = True
    try:
        v.generic_visit(fn)
    finally:
        del fn._root
    return v.out


def c_params(fn):
    """{param name: C struct} for parameters annotated with exactly mujoco.<C object type>."""
    out = {}
    a = fn.args
    for p in a.posonlyargs + a.args + a.kwonlyargs:
        ann = p.annotation
        c = chain(ann) if isinstance(ann, ast.Attribute) else None
        if c and c[0] == "mujoco" and c[1] and c[1][-1] in C_OBJECT_TYPES and all(x.startswith("_") for x in c[1][:-1]):
            out[p.arg] = C_OBJECT_TYPES[c[1][-1]]
    # a parameter that is rebound in the function's own scope is no longer known to be the C object
    # (comprehension targets and nested function parameters live in their own scope: handled by scoped_chains)
    def own_scope(node):
        for ch in ast.iter_child_nodes(node):
            if isinstance(ch, (ast.ListComp, ast.SetComp, ast.DictComp, ast.GeneratorExp, ast.Lambda,
                               ast.FunctionDef, ast.AsyncFunctionDef)):
                continue
            yield ch
            yield from own_scope(ch)
    for n in own_scope(fn):
        if isinstance(n, ast.Name) and isinstance(n.ctx, ast.Store) and n.id in out:
            out.pop(n.id)
    return out


def struct_of_field(H, struct, field):
    """C struct typedef name that member `field` of `struct` denotes (by value or pointer), else None."""
    f = H.field(struct, field)
    if f is None or f["anon"] is not None:
        return None
    try:
        t = cheaders.parse_type(f["t"])
    except AnalysisError:
        return None
    while t[0] in ("ptr", "arr"):
        t = t[1]
    if t[0] != "val":
        return None
    n = t[1]
    if n in H.typedefs and H.struct(n) is not None:
        return n
    for td, v in H.typedefs.items():
        if v["t"] == n and H.struct(td) is not None:
            return td
    return None


def iter_functions(tree):
    for n in ast.walk(tree):
        if isinstance(n, (ast.FunctionDef, ast.AsyncFunctionDef)):
            yield n


def derived_names(fn):
    """Names stored into dicts by constant key in `fn`: X['k'] = ..., X.update(k=...), dict(k=...) literals."""
    out = set()
    for n in ast.walk(fn):
        if isinstance(n, (ast.Assign, ast.AugAssign)):
            tg = n.targets if isinstance(n, ast.Assign) else [n.target]
            for t in tg:
                if isinstance(t, ast.Subscript) and isinstance(t.slice, ast.Constant) and isinstance(t.slice.value, str):
                    out.add(t.slice.value)
        elif isinstance(n, ast.Call) and isinstance(n.func, ast.Attribute) and n.func.attr == "update":
            for kw in n.keywords:
                if kw.arg:
                    out.add(kw.arg)
    return out


def getattr_copies(fn, cobj, classes):
    """Copy loops `getattr(p, f.name[, default]) for f in types.K.fields() [if ...]` in function `fn`.

    Returns [dict(param, struct, klass, names, tolerant, excluded, line, foreign)].
    """
    out = []
    for comp in ast.walk(fn):
        if not isinstance(comp, (ast.DictComp, ast.SetComp, ast.ListComp, ast.GeneratorExp)):
            continue
        if len(comp.generators) != 1:
            continue
        gen = comp.generators[0]
        if not isinstance(gen.target, ast.Name):
            continue
        var = gen.target.id
        elts = [comp.key, comp.value] if isinstance(comp, ast.DictComp) else [comp.elt]
        calls = [c for e in elts for c in ast.walk(e)
                 if isinstance(c, ast.Call) and isinstance(c.func, ast.Name) and c.func.id == "getattr"
                 and len(c.args) >= 2 and isinstance(c.args[0], ast.Name) and c.args[0].id in cobj]
        if not calls:
            continue
        call = calls[0]
        key = call.args[1]
        by_attr = isinstance(key, ast.Attribute) and isinstance(key.value, ast.Name) and key.value.id == var \
            and key.attr == "name"
        by_name = isinstance(key, ast.Name) and key.id == var
        if not (by_attr or by_name):
            continue
        tolerant = len(call.args) >= 3
        excluded = set()
        conds = list(gen.ifs)
        it = gen.iter
        if by_name:
            # iterating a set of names built earlier: {f.name for f in types.K.fields() if ...}
            if not isinstance(it, ast.Name):
                raise AnalysisError(f"{MJX}/io.py:{comp.lineno}: cannot resolve the names iterated by the getattr copy loop")
            srcs = [v for v in _assigned(fn, it.id) if isinstance(v, (ast.SetComp, ast.ListComp))]
            if len(srcs) != 1 or len(srcs[0].generators) != 1:
                raise AnalysisError(f"{MJX}/io.py:{comp.lineno}: cannot resolve the names iterated by the getattr copy loop")
            g2 = srcs[0].generators[0]
            e2 = srcs[0].elt
            if not (isinstance(e2, ast.Attribute) and e2.attr == "name" and isinstance(e2.value, ast.Name)
                    and isinstance(g2.target, ast.Name) and e2.value.id == g2.target.id):
                raise AnalysisError(f"{MJX}/io.py:{srcs[0].lineno}: unsupported field-name set")
            var2 = g2.target.id
            it = g2.iter
            conds += list(g2.ifs)
        else:
            var2 = var
        for cnd in conds:
            if isinstance(cnd, ast.Compare) and len(cnd.ops) == 1 and isinstance(cnd.ops[0], ast.NotEq) \
                    and isinstance(cnd.comparators[0], ast.Constant) and isinstance(cnd.comparators[0].value, str):
                excluded.add(cnd.comparators[0].value)
            elif isinstance(cnd, ast.Call) and isinstance(cnd.func, ast.Name) and cnd.func.id == "hasattr":
                tolerant = True
            else:
                raise AnalysisError(f"{MJX}/io.py:{comp.lineno}: unsupported filter in a getattr copy loop")
        klasses = _fields_iter(it, fn)
        if klasses is None:
            raise AnalysisError(f"{MJX}/io.py:{comp.lineno}: getattr copy loop does not iterate <class>.fields()")
        for k, foreign in klasses:
            names = None if foreign else class_fields(classes, k)
            out.append({"param": call.args[0].id, "struct": cobj[call.args[0].id], "klass": k,
                        "names": None if names is None else [x for x in names if x not in excluded],
                        "tolerant": tolerant, "excluded": sorted(excluded), "line": comp.lineno,
                        "foreign": foreign or names is None})
    return out


def _fields_iter(it, fn, depth=0):
    """[(class name, foreign?)] for `types.K.fields()` / a local bound to a dict of such classes."""
    if isinstance(it, ast.Call) and isinstance(it.func, ast.Attribute) and it.func.attr == "fields" and not it.args:
        return _klass(it.func.value, fn, depth)
    return None


def _klass(x, fn, depth=0):
    if isinstance(x, ast.Attribute):
        c = chain(x)
        if c and c[0] == "types" and len(c[1]) == 1:
            return [(c[1][0], False)]
        if c:
            return [(".".join([c[0]] + c[1]), True)]
        return None
    if isinstance(x, ast.Name) and depth < 3:
        out = []
        for v in _assigned(fn, x.id):
            if isinstance(v, ast.Subscript) and isinstance(v.value, ast.Dict):
                for dv in v.value.values:
                    r = _klass(dv, fn, depth + 1)
                    if r is None:
                        return None
                    out += r
            else:
                r = _klass(v, fn, depth + 1)
                if r is None:
                    return None
                out += r
        return out or None
    return None


def check_attrs(res, H, sources, classes, structs=("mjModel", "mjOption", "mjStatistic", "mjData", "mjContact"),
                copy_structs=("mjModel", "mjOption", "mjStatistic"), rule="R-XLANG-ATTR", explicit=True):
    io = sources["io.py"]
    rel = f"{MJX}/io.py"
    fields = {s: set(H.public_fields(s)) for s in ("mjModel", "mjOption", "mjStatistic", "mjData", "mjContact")}
    battrs = binding_attrs(H.repo)
    seen = set()
    n_explicit = n_copy = 0
    skipped_foreign = []
    for fn in iter_functions(io):
        cobj = c_params(fn)
        if not cobj:
            continue
        if explicit:
            for root, parts, node in scoped_chains(fn, cobj):
                struct = cobj[root]
                path = root
                for i, a in enumerate(parts):
                    if struct not in structs:
                        break
                    key = (fn.name, struct, a)
                    path += "." + a
                    if a in fields[struct]:
                        if key not in seen:
                            seen.add(key)
                            n_explicit += 1
                            res.ok(rule, f"{fn.name}:{struct}.{a}", {"where": f"{rel}:{node.lineno}", "expr": path})
                    elif a in battrs.get(struct, ()):
                        if key not in seen:
                            seen.add(key)
                            res.ok(rule, f"{fn.name}:{struct}.{a}", {"binding_attribute": f"defined by {BINDING_SRC}"})
                        break
                    else:
                        if key not in seen:
                            seen.add(key)
                            res.bad(rule, f"{fn.name}:{struct}.{a}", rel, node.lineno,
                                    f"{path}: struct {struct} has no member {a} (AttributeError at run time, or a "
                                    f"stale name after a C-side rename)")
                        break
                    nxt = struct_of_field(H, struct, a)
                    if nxt is None or nxt not in fields:
                        break
                    struct = nxt
        for cp in getattr_copies(fn, cobj, classes):
            if cp["struct"] not in copy_structs:
                continue
            if cp["foreign"]:
                skipped_foreign.append(f"{fn.name}:{cp['klass']}")
                continue
            der = derived_names(fn)
            for name in cp["names"]:
                key = (fn.name, "copy", cp["klass"], name)
                if key in seen:
                    continue
                seen.add(key)
                n_copy += 1
                construct = f"{fn.name}:{cp['klass']}.{name}"
                if name in fields[cp["struct"]]:
                    res.ok(rule, construct, {"copied_from": f"{cp['struct']}.{name}", "where": f"{rel}:{cp['line']}"})
                elif name in battrs.get(cp["struct"], ()):
                    res.ok(rule, construct, {"binding_attribute": f"defined by {BINDING_SRC}"})
                elif cp["tolerant"] and name in der:
                    res.ok(rule, construct, {"derived_in": fn.name, "where": f"{rel}:{cp['line']}"})
                elif cp["tolerant"]:
                    res.bad(rule, construct, rel, cp["line"],
                            f"types.{cp['klass']}.{name} is copied by getattr({cp['param']}, name, default) but "
                            f"{cp['struct']} has no member {name} and {fn.name} never assigns it: the field is silently "
                            f"None / missing")
                else:
                    res.bad(rule, construct, rel, cp["line"],
                            f"types.{cp['klass']}.{name} is copied by getattr({cp['param']}, {name!r}) but {cp['struct']} "
                            f"has no member {name}: put fails with AttributeError")
    return n_explicit, n_copy, sorted(set(skipped_foreign))


# --------------------------------------------------------------------------------------
# (d) sensor stages


def c_sensor_stages(repo):
    rel = "src/user/user_objects.cc"
    path = os.path.join(repo, rel)
    if not os.path.isfile(path):
        raise AnalysisError(f"anchor vanished: {rel}")
    text, line = cheaders.extract_function_text(path, "sensorNeedstage")
    with open(path, encoding="utf-8", errors="replace") as f:
        src = f.read()
    # the compiler must actually use it to set needstage
    flat = "".join(src.split())
    if "needstage=sensorNeedstage(" not in flat:
        raise AnalysisError(f"{rel}: anchor vanished: `needstage = sensorNeedstage(type)` in mjCSensor::Compile")
    node = cheaders.parse_c_function(repo, text, "sensorNeedstage")
    return cheaders.switch_table(node), rel, line


def _sensor_members(expr, fn, loopvar_ok=True):
    """SensorType member names denoted by the right-hand side of a comparison with the loop variable."""
    def one(x):
        if isinstance(x, ast.Call) and isinstance(x.func, ast.Name) and x.func.id == "int" and len(x.args) == 1:
            x = x.args[0]
        c = chain(x) if isinstance(x, ast.Attribute) else None
        if c and c[1] and ((c[0] == "SensorType" and len(c[1]) == 1) or (c[0] == "types" and c[1][0] == "SensorType"
                                                                          and len(c[1]) == 2)):
            return c[1][-1]
        return None
    m = one(expr)
    if m:
        return [m]
    if isinstance(expr, (ast.Set, ast.Tuple, ast.List)):
        out = [one(e) for e in expr.elts]
        return out if all(out) else None
    if isinstance(expr, ast.Dict):
        out = [one(k) for k in expr.keys]
        return out if all(out) else None
    if isinstance(expr, ast.Name):
        vals = _assigned(fn, expr.id)
        if len(vals) == 1:
            return _sensor_members(vals[0], fn)
    return None


def mjx_sensor_stages(tree):
    """{stage enumerator: (function, line, [handled SensorType members])}"""
    rel = f"{MJX}/sensor.py"
    out = {}
    for fn in functions(tree).values():
        stages = set()
        for n in ast.walk(fn):
            if isinstance(n, ast.Compare) and len(n.ops) == 1 and isinstance(n.ops[0], ast.Eq):
                for a, b in ((n.left, n.comparators[0]), (n.comparators[0], n.left)):
                    ca = chain(a) if isinstance(a, ast.Attribute) else None
                    cb = chain(b) if isinstance(b, ast.Attribute) else None
                    if ca and cb and ca[1][-1:] == ["sensor_needstage"] and cb[0] == "mujoco" and cb[1][:1] == ["mjtStage"] \
                            and len(cb[1]) == 2:
                        stages.add(cb[1][1])
        if not stages:
            continue
        if len(stages) != 1:
            raise AnalysisError(f"{rel}:{fn.lineno}: {fn.name} selects several stages {sorted(stages)}")
        stage = stages.pop()
        # the dispatch loop: `for v in ...:` whose body has an if/elif chain comparing v with SensorType members
        handled = None
        for loop in ast.walk(fn):
            if not isinstance(loop, ast.For) or not isinstance(loop.target, ast.Name):
                continue
            v = loop.target.id
            for st in loop.body:
                if not isinstance(st, ast.If):
                    continue
                members = []
                cur = st
                ok = True
                while True:
                    t = cur.test
                    mm = None
                    if isinstance(t, ast.Compare) and len(t.ops) == 1 and isinstance(t.left, ast.Name) and t.left.id == v \
                            and isinstance(t.ops[0], (ast.Eq, ast.In)):
                        mm = _sensor_members(t.comparators[0], fn)
                    if mm is None:
                        ok = False
                        break
                    members += mm
                    if len(cur.orelse) == 1 and isinstance(cur.orelse[0], ast.If):
                        cur = cur.orelse[0]
                        continue
                    break
                if ok and members:
                    if handled is not None:
                        raise AnalysisError(f"{rel}:{st.lineno}: {fn.name} has two sensor dispatch chains")
                    handled = (members, st.lineno)
        if handled is None:
            raise AnalysisError(f"{rel}:{fn.lineno}: {fn.name} selects {stage} but has no recognisable "
                                f"`if sensor_type == SensorType.X ... elif ...` dispatch chain")
        if stage in out:
            raise AnalysisError(f"{rel}: two functions select {stage}")
        out[stage] = (fn.name, handled[1], handled[0])
    return out


def check_stages(res, H, sources, classes, repo):
    res.rule("R-XLANG-STAGE", "each SensorType member is handled by exactly the MJX stage function of the stage the C "
             "compiler (sensorNeedstage) assigns to it", floor=30)
    ctab, crel, cline = c_sensor_stages(repo)
    senum = H.enumerators("mjtSensor")
    stenum = H.enumerators("mjtStage")
    if senum is None or stenum is None:
        raise AnalysisError("anchor vanished: enum mjtSensor / mjtStage")
    missing = [s for s in senum if s.startswith("mjSENS_") and s not in ctab]
    if missing:
        raise AnalysisError(f"{crel}:{cline}: sensorNeedstage has no case for {missing}")
    st = mjx_sensor_stages(sources["sensor.py"])
    rel = f"{MJX}/sensor.py"
    unknown = [s_ for s_ in st if s_ not in stenum]
    for s_ in unknown:
        fname, line, _ = st.pop(s_)
        res.bad("R-XLANG-STAGE", f"{fname}:stage", rel, line, f"{fname} selects rows with m.sensor_needstage == "
                f"mujoco.mjtStage.{s_}, which is not an enumerator of mjtStage")
    want = {"mjSTAGE_POS", "mjSTAGE_VEL", "mjSTAGE_ACC"}
    if not want <= set(stenum):
        raise AnalysisError("anchor vanished: mjSTAGE_POS/VEL/ACC")
    if set(st) - want or (want - set(st) and not unknown):
        raise AnalysisError(f"{MJX}/sensor.py: expected stage functions for POS, VEL, ACC; found {sorted(st)}")
    sens = classes.get("SensorType")
    if not sens or not sens["members"]:
        raise AnalysisError(f"{MJX}/types.py: anchor vanished: SensorType")
    where = {}
    for stage, (fname, line, members) in st.items():
        for m in members:
            where.setdefault(m, []).append((stage, fname, line))
    for m, (e, cn, mline) in sorted(sens["members"].items()):
        key = f"SensorType.{m}"
        cstage = ctab.get(cn)
        if cstage is None:
            res.bad("R-XLANG-STAGE", key, crel, cline, f"{cn} has no case in sensorNeedstage")
            continue
        hs = where.get(m, [])
        if not hs:
            res.bad("R-XLANG-STAGE", key, rel, st[cstage][1] if cstage in st else 0,
                    f"{key} passes the put_model gate but no MJX stage function handles it (C computes it at {cstage}; "
                    f"{st[cstage][0] if cstage in st else '?'} falls into `continue`): sensordata stays 0")
            continue
        wrong = [h for h in hs if h[0] != cstage]
        if wrong or len(hs) != 1:
            h = (wrong or hs)[0]
            res.bad("R-XLANG-STAGE", key, rel, h[2], f"{key} is handled in {[x[1] for x in hs]} but the C compiler assigns "
                    f"{cn} to {cstage} ({crel}:{cline}): the branch never sees its rows")
            continue
        res.ok("R-XLANG-STAGE", key, {"c_stage": cstage, "mjx_function": hs[0][1], "c_table": f"{crel}:{cline}"})
    for m, hs in sorted(where.items()):
        if m not in sens["members"]:
            res.bad("R-XLANG-STAGE", f"SensorType.{m}", rel, hs[0][2], f"{hs[0][1]} dispatches on SensorType.{m}, which "
                    f"types.SensorType does not define")
    res.extra["c_sensor_stage_table"] = {"source": f"{crel}:{cline}", "cases": len(ctab)}
    res.extra["mjx_stage_functions"] = {s: {"function": f, "handled": len(m)} for s, (f, _, m) in st.items()}


# --------------------------------------------------------------------------------------
# (e) who feeds whom: state-advancing primitives and the dynamics evaluation inside one step


FWD_C = "src/engine/engine_forward.c"
SUP_C = "src/engine/engine_support.c"
FWD_PY = "forward"

# Mirrored primitives of one simulation step.  tag: (MJX function in forward.py, C functions, reason, role evidence that is
# verified on both sides).  Role evidence: ("fields", {...}) = model fields both bodies read; ("enum", Class, MEMBER) = the
# MJX body spells types.Class.MEMBER and the C body the enumerator that R-XLANG-MIRROR binds it to; ("callees", n) = at
# least n callee names agree after dropping `mj_` / `_` and case.
FEED_PRIMS = {
    "FORWARD": ("forward", ("mj_forward", "mj_forwardSkip"),
                "full dynamics evaluation of the current (qpos, qvel, act, time): position, velocity, actuation, acceleration "
                "and constraint stages (mj_forwardSkip counts only when called with skipstage mjSTAGE_NONE)",
                [("callees", 4)]),
    "ACTNEXT": ("_next_activation", ("mj_nextActivation",),
                "the activation update of the integration step: exact filter formula for FILTEREXACT, Euler otherwise, then "
                "the actrange clamp", [("fields", {"actuator_actrange", "actuator_actlimited"}), ("enum", "DynType", "FILTEREXACT")]),
    "INTPOS": ("_integrate_pos", ("mj_integratePos", "mj_integratePosInd"),
               "position integration on the configuration manifold: per joint type, quaternion joints through the quaternion "
               "integrator", [("enum", "JointType", "BALL"), ("enum", "JointType", "FREE"), ("enum", "JointType", "HINGE")]),
}
# The drivers that are compared: (MJX function in forward.py, C function, enum class of types.py they both dispatch on, the
# option field it is read from, reason).
FEED_DRIVER = ("step", "mj_step", "IntegratorType", ("opt", "integrator"),
               "one simulation step: the dynamics evaluation followed by the integrator selected by opt.integrator")


def _py_tokens(fn, helpers=None, depth=3):
    """(attribute names read, {(Class, MEMBER)} spelled, callee names) of a Python function, nested defs included.  With
    `helpers` ({name: FunctionDef} of the module) the module-level functions it names (called, or handed on as a value:
    functools.partial(helper, ...), scan.flat(m, helper, ...)) are followed: a function reads F / handles X if it or a
    helper it uses does."""
    attrs, enums, callees = set(), set(), set()
    seen, todo = set(), [(fn, 0)]
    while todo:
        f, dpt = todo.pop()
        if id(f) in seen:
            continue
        seen.add(id(f))
        for n in ast.walk(f):
            if isinstance(n, ast.Attribute):
                attrs.add(n.attr)
                c = chain(n)
                if c and len(c[1]) >= 1:
                    full = [c[0]] + c[1]
                    if len(full) >= 2 and full[-2][:1].isupper():
                        enums.add((full[-2], full[-1]))
            if isinstance(n, ast.Call):
                if isinstance(n.func, ast.Name):
                    callees.add(n.func.id)
                elif isinstance(n.func, ast.Attribute):
                    callees.add(n.func.attr)
            if helpers and dpt < depth and isinstance(n, ast.Name) and isinstance(n.ctx, ast.Load) and n.id in helpers \
                    and helpers[n.id] is not f:
                todo.append((helpers[n.id], dpt + 1))
    return attrs, enums, callees


def _c_tokens(unit, names, depth=3):
    """(member names read, enumerators spelled, callee names) of C functions `names` and the same-TU functions they call."""
    from .. import cir
    members, enums, callees = set(), set(), set()
    seen, todo = set(), [(n, 0) for n in names]
    while todo:
        name, d = todo.pop()
        if name in seen or name not in unit.funcs:
            continue
        seen.add(name)
        for x in cir.walk(unit.funcs[name]):
            k = x.get("k")
            if k == "MemberExpr":
                members.add(x.get("n"))
            elif k == "DeclRefExpr" and (x.get("ref") or {}).get("k") == "EnumConstantDecl":
                enums.add(x["ref"].get("n"))
            elif cir.is_call(x):
                c = cir.callee(x)
                if c:
                    callees.add(c)
                    if d < depth and c in unit.funcs and (unit.funcs[c].get("file") or unit.tu) == unit.tu:
                        todo.append((c, d + 1))
    return members, enums, callees


def _normname(s):
    s = s.lower()
    for p in ("mj_", "mju_", "_"):
        if s.startswith(p):
            s = s[len(p):]
    return s.replace("_", "")


class CFeed:
    """May-precede relation between anchor calls of one C driver, with every same-TU callee that is not an anchor inlined
    and every other callee summarised by the anchors it can reach (whole-engine call graph).  Conditions on
    `m->opt.integrator` are decided for the given enumerator; every other branch is taken both ways; loops run twice.
    Also collects the *facts* `d-><field>` is produced by anchor X: `d->f[..] = <expression calling X>` or X called with
    `d->f` as a non-const pointer argument."""

    def __init__(self, unit, graph, anchors, subject=("opt", "integrator")):
        from .. import cir
        self.cir = cir
        self.unit = unit
        self.graph = graph
        self.anchors = anchors          # C function name -> tag
        self.subject = subject
        self._frontier = {}
        self.indirect = 0

    def run(self, fname, enumerator):
        if fname not in self.unit.funcs:
            raise AnalysisError(f"{self.unit.tu}: anchor vanished: {fname}")
        self.spec = enumerator
        self.seen = set()
        self.pairs = set()
        self.events = {}
        self.facts = {}
        self.inlined = set()
        self.blobs = {}
        self.decided = 0
        self.direct = set()
        self.alias = set()
        self.stack = [fname]
        self.stmt(self.cir.body(self.unit.funcs[fname]))
        return self

    def reassigned(self, decl_id):
        cir = self.cir
        fn = self.unit.funcs[self.stack[-1]]
        for n in cir.walk(fn):
            k = n.get("k")
            if (k == "BinaryOperator" and n.get("op") == "=") or k == "CompoundAssignOperator" or \
                    (k == "UnaryOperator" and n.get("op") in ("++", "--", "&")):
                t = cir.strip(cir.kids(n)[0])
                if t is not None and t.get("k") == "DeclRefExpr" and (t.get("ref") or {}).get("id") == decl_id:
                    return True
        return False

    # -- events
    def event(self, tag, node, via):
        for s in self.seen:
            self.pairs.add((s, tag))
        self.seen.add(tag)
        self.events.setdefault(tag, set()).add((via, node.get("line")))

    # -- conditions on the dispatch subject
    def is_subject(self, n):
        cir = self.cir
        n = cir.strip(n)
        if n is not None and n.get("k") == "DeclRefExpr" and (n.get("ref") or {}).get("id") in self.alias:
            return True
        if n is None or n.get("k") != "MemberExpr" or n.get("n") != self.subject[-1]:
            return False
        b = cir.strip(cir.kids(n)[0]) if cir.kids(n) else None
        return b is not None and b.get("k") == "MemberExpr" and b.get("n") == self.subject[0]

    def ceval(self, n):
        cir = self.cir
        n = cir.strip(n)
        if n is None:
            return None
        k = n.get("k")
        if k == "UnaryOperator" and n.get("op") == "!":
            v = self.ceval(cir.kids(n)[0])
            return None if v is None else (not v)
        if k == "BinaryOperator":
            op = n.get("op")
            a, b = cir.kids(n)
            if op in ("&&", "||"):
                x, y = self.ceval(a), self.ceval(b)
                if op == "&&":
                    if x is False or y is False:
                        return False
                    return True if (x is True and y is True) else None
                if x is True or y is True:
                    return True
                return False if (x is False and y is False) else None
            if op in ("==", "!="):
                for p, q in ((a, b), (b, a)):
                    qs = cir.strip(q)
                    if self.is_subject(p) and qs is not None and qs.get("k") == "DeclRefExpr" and \
                            (qs.get("ref") or {}).get("k") == "EnumConstantDecl":
                        self.decided += 1
                        eq = qs["ref"].get("n") == self.spec
                        return eq if op == "==" else not eq
        return None

    # -- statements
    def stmt(self, st):
        cir = self.cir
        if st is None:
            return
        k = st.get("k")
        if k == "CompoundStmt":
            for c in cir.kids(st):
                self.stmt(c)
        elif k == "DeclStmt":
            for d in cir.kids(st):
                if d is not None and d.get("k") == "VarDecl":
                    for c in cir.kids(d):
                        self.expr(c)
                    init = [c for c in cir.kids(d) if c is not None]
                    if init and self.is_subject(init[-1]) and d.get("id") and not self.reassigned(d.get("id")):
                        self.alias.add(d.get("id"))     # `int integrator = m->opt.integrator;`
        elif k == "IfStmt":
            from .. import norm
            pre, cond, then, els = norm._if_parts(st)
            for x in pre:
                self.stmt(x)
            self.expr(cond)
            v = self.ceval(cond)
            if v is True:
                self.stmt(then)
            elif v is False:
                self.stmt(els)
            else:
                s0 = set(self.seen)
                self.stmt(then)
                s1 = self.seen
                self.seen = set(s0)
                self.stmt(els)
                self.seen |= s1
        elif k == "SwitchStmt":
            self.switch(st)
        elif k in ("ForStmt", "WhileStmt", "DoStmt"):
            kk = list(cir.kids(st))
            if k == "ForStmt":
                kk += [None] * 5
                self.stmt(kk[0])
                for _ in range(2):
                    self.expr(kk[2])
                    self.stmt(kk[4])
                    self.expr(kk[3])
            elif k == "WhileStmt":
                for _ in range(2):
                    self.expr(kk[0])
                    self.stmt(kk[-1])
            else:
                for _ in range(2):
                    self.stmt(kk[0])
                    self.expr(kk[1] if len(kk) > 1 else None)
        elif k in ("CaseStmt", "DefaultStmt", "LabelStmt", "AttributedStmt"):
            self.stmt(cir.kids(st)[-1] if cir.kids(st) else None)
        elif k in ("NullStmt", "BreakStmt", "ContinueStmt", "GotoStmt"):
            return
        elif k == "ReturnStmt":
            for c in cir.kids(st):
                self.expr(c)
        else:
            self.expr(st)

    def switch(self, st):
        cir = self.cir
        c = [x for x in cir.kids(st) if x is not None]
        cond, body = c[0], c[-1]
        self.expr(cond)
        groups, labels = [], []

        def add(s):
            if s is None:
                return
            if s.get("k") == "CaseStmt":
                labels.append(cir.text(cir.kids(s)[0]))
                add(cir.kids(s)[-1])
            elif s.get("k") == "DefaultStmt":
                labels.append("<default>")
                add(cir.kids(s)[-1])
            else:
                if labels or not groups:
                    groups.append((list(labels), []))
                    labels.clear()
                groups[-1][1].append(s)
        for s in (cir.kids(body) if body.get("k") == "CompoundStmt" else [body]):
            add(s)
        start = None
        if self.is_subject(cond) and self.spec is not None:
            self.decided += 1
            for i, (labs, _) in enumerate(groups):
                if self.spec in labs:
                    start = i
            if start is None:
                for i, (labs, _) in enumerate(groups):
                    if "<default>" in labs:
                        start = i
            if start is None:
                return
            for labs, stmts in groups[start:]:
                for s in stmts:
                    if s.get("k") == "BreakStmt":
                        return
                    self.stmt(s)
            return
        s0 = set(self.seen)
        result = set(s0)
        carry = None
        for labs, stmts in groups:
            self.seen = set(s0) | (carry or set())
            broke = False
            for s in stmts:
                if s.get("k") == "BreakStmt":
                    broke = True
                    break
                self.stmt(s)
            if broke:
                result |= self.seen
                carry = None
            else:
                carry = set(self.seen)
        self.seen = result | (carry or set())

    # -- expressions
    def data_field(self, n):
        """`f` if n is `<mjData pointer>->f` (decayed / offset / indexed forms included), else None."""
        cir = self.cir
        n = cir.strip(n)
        while n is not None and n.get("k") in ("ArraySubscriptExpr", "BinaryOperator", "UnaryOperator"):
            if n.get("k") == "BinaryOperator" and n.get("op") not in ("+", "-"):
                return None
            if n.get("k") == "UnaryOperator" and n.get("op") not in ("&", "*"):
                return None
            n = cir.strip(cir.kids(n)[0])
        if n is None or n.get("k") != "MemberExpr" or not n.get("arrow"):
            return None
        b = cir.strip(cir.kids(n)[0]) if cir.kids(n) else None
        if b is not None and "mjData" in (b.get("t") or ""):
            return n.get("n")
        return None

    def expr(self, n):
        cir = self.cir
        if n is None:
            return
        for c in cir.kids(n):
            self.expr(c)
        k = n.get("k")
        if cir.is_call(n):
            self.call(n)
        elif k == "BinaryOperator" and n.get("op") == "=":
            lhs, rhs = cir.kids(n)
            f = self.data_field(lhs)
            if f:
                for c in cir.calls(rhs):
                    tag = self.anchors.get(cir.callee(c))
                    if tag:
                        self.facts.setdefault((f, tag), n.get("line"))

    def variant(self, name, n):
        """mj_forwardSkip is the full evaluation only with skipstage mjSTAGE_NONE (an unknown skipstage may be)."""
        cir = self.cir
        fn = self.unit.funcs.get(name) or self.unit.protos.get(name)
        if fn is None:
            return True
        ps = [p.get("n") for p in cir.params(fn)]
        if "skipstage" not in ps:
            return True
        a = cir.args(n)
        i = ps.index("skipstage")
        if i >= len(a):
            return True
        x = cir.strip(a[i])
        if x is not None and x.get("k") == "DeclRefExpr" and (x.get("ref") or {}).get("k") == "EnumConstantDecl":
            return x["ref"].get("n") == "mjSTAGE_NONE"
        if x is not None and x.get("k") == "IntegerLiteral":
            return str(x.get("v")) == "0"
        return True

    def call(self, n):
        cir = self.cir
        name = cir.callee(n)
        if name is None:
            self.indirect += 1
            return
        tag = self.anchors.get(name)
        if tag:
            if not self.variant(name, n):
                self.events.setdefault(tag + "~partial", set()).add((self.stack[-1], n.get("line")))
                return
            # output arguments: d->f handed to a non-const pointer parameter
            ref = cir.strip(cir.kids(n)[0])
            sig = ((ref or {}).get("ref") or {}).get("t") or ""
            ptypes = [t.strip() for t in sig[sig.find("(") + 1: sig.rfind(")")].split(",")] if "(" in sig else []
            for a, t in zip(cir.args(n), ptypes):
                if t.endswith("*") and not t.startswith("const "):
                    f = self.data_field(a)
                    if f:
                        self.facts.setdefault((f, tag), n.get("line"))
            self.event(tag, n, self.stack[-1])
            return
        fn = self.unit.funcs.get(name)
        if fn is not None and (fn.get("file") or self.unit.tu) == self.unit.tu and not fn.get("variadic"):
            if name in self.stack or len(self.stack) > 12:
                return
            self.inlined.add(name)
            self.direct.add((self.stack[-1], name))
            self.stack.append(name)
            try:
                self.stmt(cir.body(fn))
            finally:
                self.stack.pop()
            return
        tags = self.frontier(name)
        if tags:
            self.blobs[name] = sorted(tags)
            for _ in range(2):
                for t in sorted(tags):
                    self.event(t, n, name)

    def frontier(self, name):
        """Anchor tags a callee outside the inlined TU can reach without passing through another anchor."""
        if name in self._frontier:
            return self._frontier[name]
        g = self.graph
        key = g.resolve(self.unit.tu, name)
        out = set()
        if key is not None:
            seen, todo = set(), [key]
            while todo:
                k = todo.pop()
                if k in seen:
                    continue
                seen.add(k)
                for c in g.callees(k):
                    if c[1] in self.anchors:
                        out.add(self.anchors[c[1]])
                    else:
                        todo.append(c)
        self._frontier[name] = out
        return out


def _feed_roles(res, sources, classes, units, rule):
    """Verifies the role evidence of FEED_PRIMS on both sides; returns ({(module, function): tag}, {C function: tag})."""
    fw = sources.get(FWD_PY + ".py")
    if fw is None:
        raise AnalysisError(f"anchor vanished: {MJX}/{FWD_PY}.py")
    pyf = functions(fw)
    rel = f"{MJX}/{FWD_PY}.py"
    py_anchors, c_anchors = {}, {}
    for tag, (pyname, cnames, why, evidence) in FEED_PRIMS.items():
        if pyname not in pyf:
            raise AnalysisError(f"{rel}: anchor vanished: {pyname} (mirror of {'/'.join(cnames)}: {why})")
        unit = next((u for u in units if all(c in u.funcs for c in cnames)), None)
        if unit is None:
            raise AnalysisError(f"anchor vanished: {'/'.join(cnames)} (mirror of {pyname}: {why})")
        pa, pe, pc = _py_tokens(pyf[pyname], helpers=pyf)
        cm, ce, cc = _c_tokens(unit, cnames)
        for ev in evidence:
            if ev[0] == "fields":
                miss = [f for f in sorted(ev[1]) if f not in pa or f not in cm]
                if miss:
                    raise AnalysisError(f"{rel}: {pyname} / {unit.tu}: {cnames[0]} no longer both read {miss}: the pair "
                                        f"({why}) cannot be confirmed")
            elif ev[0] == "enum":
                mem = (classes.get(ev[1]) or {}).get("members", {}).get(ev[2])
                if mem is None:
                    raise AnalysisError(f"{MJX}/types.py: anchor vanished: {ev[1]}.{ev[2]}")
                if (ev[1], ev[2]) not in pe or mem[1] not in ce:
                    raise AnalysisError(f"{rel}: {pyname} / {unit.tu}: {cnames[0]} no longer both handle {ev[1]}.{ev[2]} / "
                                        f"{mem[1]}: the pair ({why}) cannot be confirmed")
            elif ev[0] == "callees":
                common = {_normname(x) for x in pc} & {_normname(x) for x in cc}
                if len(common) < ev[1]:
                    raise AnalysisError(f"{rel}: {pyname} / {unit.tu}: {cnames[0]} share only the stages {sorted(common)}: "
                                        f"the pair ({why}) cannot be confirmed")
        res.ok(rule, f"pair:{pyname}<->{cnames[0]}", {"reason": why, "c_unit": unit.tu})
        py_anchors[(FWD_PY, pyname)] = tag
        for c in cnames:
            c_anchors[c] = tag
    return py_anchors, c_anchors


def _nonin(tags):
    return {t[0] for t in tags if t and t[0] != "in" and t[0] != "enum"}


def _mjx_feed(interp, pydep, fname, eclass, subject, member, rel):
    """Runs MJX function `fname`(m, d) with m.<subject> fixed to eclass.member; returns the direct feeds between anchors."""
    m = pydep.R(pydep.D(frozenset({("in", "m")})), ((subject[0], pydep.R(
        pydep.D(frozenset({("in", "m", subject[0])})), ((subject[1], pydep.K("enum", (eclass, member))),))),))
    d = pydep.D(frozenset({("in", "d")}))
    ret = interp.run(FWD_PY, fname, [m, d])
    if interp.undecided:
        raise AnalysisError(f"{rel}:{interp.undecided[0][1]}: the dispatch of {fname} on {eclass} is not decidable for "
                            f"{eclass}.{member} (a test or an opaque call receives the member)")
    flows, weak = {}, set()
    for ev in interp.events:
        vals = list(ev["args"]) + list(ev["kwargs"].values()) + ([ev["splat"]] if ev["splat"] is not None else [])
        srcs, fields = set(), {}
        for v in vals:
            srcs |= _nonin(pydep.flatten(v))
            if isinstance(v, pydep.R):
                for fname_, fv in v.fields:
                    for t in _nonin(pydep.flatten(fv)):
                        fields.setdefault(t, set()).add(fname_)
        for p in srcs:
            if ev["weak"]:
                weak.add((p, ev["tag"]))
                continue
            owner, line, _omod = interp.owner_of(ev)
            flows.setdefault((p, ev["tag"]), []).append((owner, line, sorted(fields.get(p, ()))))
    weak -= set(flows)
    direct = {(caller, name) for caller, mod, name, _n in interp.entered if mod == FWD_PY and name != fname}
    return {"ret": ret, "flows": flows, "weak": weak, "direct": direct, "events": len(interp.events),
            "tags": {ev["tag"] for ev in interp.events}}


def check_feed(res, H, sources, classes, mir, repo):
    rule = "R-XLANG-FEED"
    res.rule(rule, "inside one step and inside each integrator: a result of a mirrored primitive (activation update, position "
             "integration, dynamics evaluation) feeds another one in MJX only if the C engine can run them in that order; "
             "the act / qpos of the returned state come from the primitives that produce d->act / d->qpos in C",
             floor=len(FEED_PRIMS))
    from .. import callgraph, engine, pydep
    pyname, cname, eclass, subject, why = FEED_DRIVER
    uf, us = engine.unit(FWD_C, repo), engine.unit(SUP_C, repo)
    py_anchors, c_anchors = _feed_roles(res, sources, classes, (uf, us), rule)
    ec = classes.get(eclass)
    if not ec or not ec["members"]:
        raise AnalysisError(f"{MJX}/types.py: anchor vanished: {eclass}")
    if cname not in uf.funcs:
        raise AnalysisError(f"{FWD_C}: anchor vanished: {cname}")
    cenum = sorted({e for e, _, _ in ec["members"].values()})
    if len(cenum) != 1 or H.enumerators(cenum[0]) is None:
        raise AnalysisError(f"{MJX}/types.py: {eclass} does not mirror one C enum")
    graph = callgraph.build(structs=())
    mods = {k[:-3]: v for k, v in sources.items()}
    interp = pydep.Interp(mods, {FWD_PY}, py_anchors, watch_enum=eclass, label=f"{MJX}/")
    pyfun = {tag: FEED_PRIMS[tag][0] for tag in FEED_PRIMS}
    rel = f"{MJX}/{FWD_PY}.py"
    pyfuncs = functions(sources[FWD_PY + ".py"])
    bad, summary, cannot = {}, {}, []

    def c_feed(fn, enumerator):
        cf = CFeed(uf, graph, c_anchors, subject).run(fn, enumerator)
        need = {("act", "ACTNEXT"), ("qpos", "INTPOS")}
        if cf.events and not need <= set(cf.facts):
            raise AnalysisError(f"{FWD_C}: {fn} with {enumerator}: d->act is no longer stored from "
                                f"{FEED_PRIMS['ACTNEXT'][1][0]} / d->qpos no longer handed to {FEED_PRIMS['INTPOS'][1][0]} "
                                f"(found {sorted(cf.facts)}): the premise of {rule} is gone")
        return cf

    def compare(member, level, pfn, cfn, mj, cf):
        for (p, q), sites in sorted(mj["flows"].items()):
            key = f"{eclass}.{member}:{level}:{pyfun[p]}->{pyfun[q]}"
            if (p, q) in cf.pairs:
                res.ok(rule, key, {"mjx": f"{rel}:{sites[0][1]} ({sites[0][0]})", "c": f"{FWD_C}: {cfn}: "
                                   f"{sorted(cf.events.get(p, ()))[:2]} before {sorted(cf.events.get(q, ()))[:2]}"})
                continue
            gone = [t for t in (p, q) if t not in cf.events]
            if gone:
                cannot.append(f"{FWD_C}: {cfn} never calls {' / '.join('/'.join(FEED_PRIMS[t][1]) for t in gone)} "
                              f"(inlined or renamed?) while {pfn} feeds {pyfun[p]} into {pyfun[q]} ({rel}:{sites[0][1]}): "
                              f"the two sides cannot be compared")
                continue
            owner, line, flds = sites[0]
            ckey = f"{owner}:{pyfun[p]}->{pyfun[q]}"
            b = bad.setdefault(ckey, {"line": line, "members": [], "p": p, "q": q, "fields": flds, "owner": owner, "cfn": cfn})
            if member not in b["members"]:
                b["members"].append(member)
        for (field, tag), cline in sorted(cf.facts.items()):
            key = f"{eclass}.{member}:{level}:{field}<-{pyfun[tag]}"
            got = _nonin(pydep.flatten(pydep.project(mj["ret"], field)))
            if tag in got:
                res.ok(rule, key, {"c": f"{FWD_C}:{cline}", "mjx_field_depends_on": sorted(got)})
            elif tag not in mj["tags"]:
                cannot.append(f"{rel}: {pfn} with {eclass}.{member} never calls {pyfun[tag]} (inlined or renamed?) while "
                              f"{cfn} produces d->{field} with {FEED_PRIMS[tag][1][0]} ({FWD_C}:{cline}): the two sides "
                              f"cannot be compared")
            else:
                ckey = f"{pfn}:{field}<-{pyfun[tag]}"
                b = bad.setdefault(ckey, {"line": pyfuncs[pfn].lineno if pfn in pyfuncs else 0, "members": [], "field": field,
                                          "tag": tag, "cline": cline, "got": sorted(got), "pfn": pfn, "cfn": cfn})
                if member not in b["members"]:
                    b["members"].append(member)
        return {"mjx": pfn, "c": cfn, "c_may_precede": sorted(f"{a}<{b}" for a, b in cf.pairs),
                "c_inlined": sorted(cf.inlined), "c_summarised_callees": cf.blobs,
                "c_partial_evaluations": {k: sorted(v) for k, v in cf.events.items() if k.endswith("~partial")},
                "mjx_feeds": sorted(f"{a}->{b}" for a, b in mj["flows"]),
                "mjx_possible_feeds_through_opaque_combinators_not_decided": sorted(f"{a}->{b}" for a, b in mj["weak"]),
                "c_indirect_calls_ignored": cf.indirect}

    # level 1: the step driver, per enum member
    step_mj, step_cf = {}, {}
    for member, (_e, cenumerator, _line) in sorted(ec["members"].items()):
        step_mj[member] = _mjx_feed(interp, pydep, pyname, eclass, subject, member, rel)
        step_cf[member] = c_feed(cname, cenumerator)
        if not step_cf[member].decided:
            raise AnalysisError(f"{FWD_C}: {cname} no longer dispatches on m->{subject[0]}.{subject[1]}")
    def specific_roots(per_key):
        """per_key: {key: {(caller, callee)}}.  For each key the functions evaluated for that key only, reduced to those not
        called from another such function: what the driver (or a dispatch helper of it) calls because of the key."""
        names = {k: {c for _caller, c in v} for k, v in per_key.items()}
        common = set.intersection(*names.values()) if names else set()
        out = {}
        for k, v in per_key.items():
            spec = names[k] - common
            out[k] = sorted(c for c in spec if not any(caller in spec and caller != c for caller, c2 in v if c2 == c))
        return out
    c_direct = {}
    for en in H.enumerators(cenum[0]):
        mirrored = next((m_ for m_, (_e, c_, _l) in ec["members"].items() if c_ == en), None)
        cf = step_cf[mirrored] if mirrored else CFeed(uf, graph, c_anchors, subject).run(cname, en)
        c_direct[en] = set(cf.direct)
    c_roots = specific_roots(c_direct)
    live = [m_ for m_ in step_mj if step_mj[m_]["events"]]
    p_roots = specific_roots({m_: step_mj[m_]["direct"] for m_ in live})
    for member, (_e, cenumerator, _line) in sorted(ec["members"].items()):
        mj, cf = step_mj[member], step_cf[member]
        if not mj["events"]:
            summary[member] = {"step": "rejected by MJX or no primitive reached"}     # e.g. a member step() raises on
            continue
        summary[member] = {"step": compare(member, pyname, pyname, cname, mj, cf)}
        # level 2: the integrator = what the driver calls only for this member, on both sides
        pint, cint = p_roots[member], c_roots[cenumerator]
        if len(pint) != 1 or len(cint) != 1:
            raise AnalysisError(f"{rel} / {FWD_C}: no unique function that {pyname} / {cname} evaluate for {eclass}.{member} / "
                                f"{cenumerator} only (MJX {pint}, C {cint}): the integrator pair cannot be derived")
        imj = _mjx_feed(interp, pydep, pint[0], eclass, subject, member, rel)
        icf = c_feed(cint[0], cenumerator)
        res.ok(rule, f"pair:{eclass}.{member}:{pint[0]}<->{cint[0]}",
               {"derived": f"the outermost function {pyname} / {cname} evaluate (directly or through a dispatch helper) for "
                           f"this member and for no other"})
        summary[member]["integrator"] = compare(member, pint[0], pint[0], cint[0], imj, icf)
    for ckey, b in sorted(bad.items()):
        mem = ", ".join(f"{eclass}.{x}" for x in b["members"])
        if "p" in b:
            p, q = b["p"], b["q"]
            fl = f" (field{'s' if len(b['fields']) > 1 else ''} {', '.join(b['fields'])} of the state passed in)" if b["fields"] else ""
            res.bad(rule, ckey, rel, b["line"],
                    f"with {mem}: in {b['owner']} the result of {pyfun[p]} feeds {pyfun[q]}{fl}; in the C engine "
                    f"({b['cfn']}, {FWD_C}) no call of {'/'.join(FEED_PRIMS[p][1])} can precede a call of "
                    f"{'/'.join(FEED_PRIMS[q][1])} ({FEED_PRIMS[p][2]}), so the two engines evaluate {pyfun[q]} at "
                    f"different states")
        else:
            res.bad(rule, ckey, rel, b["line"],
                    f"with {mem}: the {b['field']} of the state returned by {b['pfn']} does not come from {pyfun[b['tag']]} "
                    f"(it depends on {b['got'] or 'inputs only'}); the C engine ({b['cfn']}) produces d->{b['field']} with "
                    f"{FEED_PRIMS[b['tag']][1][0]} ({FWD_C}:{b['cline']}): {FEED_PRIMS[b['tag']][2]}")
    # expected instances: 3 primitive pairs + per accepted member the integrator pair and 2 produced fields at 2 levels
    res.rule(rule, "", floor=len(FEED_PRIMS) + 5 * len(live))
    if cannot and not bad:
        # a definite mismatch is reported as such; without one, a side that lost a primitive cannot be judged
        raise AnalysisError(cannot[0] + (f" (+{len(cannot) - 1} more)" if len(cannot) > 1 else ""))
    for om in sorted(interp.opaque_modules):
        seen, todo = set(), [om]
        while todo:
            x = todo.pop()
            if x in seen or x not in mods:
                continue
            seen.add(x)
            for n in ast.walk(mods[x]):
                if isinstance(n, ast.ImportFrom) and n.module:
                    for a in n.names:
                        for cand in (f"{n.module}.{a.name}", n.module):
                            if cand.startswith("mujoco.mjx._src."):
                                todo.append(cand[len("mujoco.mjx._src."):].split(".")[0])
                elif isinstance(n, ast.Import):
                    for a in n.names:
                        if a.name.startswith("mujoco.mjx._src."):
                            todo.append(a.name[len("mujoco.mjx._src."):].split(".")[0])
        if FWD_PY in seen:
            raise AnalysisError(f"{MJX}/{om}.py is called from {FWD_PY}.py as an opaque module but imports {FWD_PY}.py: the "
                                f"primitives could be reached behind the analysis")
    res.extra["feed"] = {"driver": {"mjx": pyname, "c": cname, "reason": why}, "per_member": summary,
                         "pairs": {FEED_PRIMS[t][0]: {"c": list(FEED_PRIMS[t][1]), "reason": FEED_PRIMS[t][2]} for t in FEED_PRIMS},
                         "opaque_mjx_modules": sorted(interp.opaque_modules), "not_comparable": cannot}


# --------------------------------------------------------------------------------------
# (f) the ball-joint limit row and the double cover of rotations by quaternions


CC_C = "src/engine/engine_core_constraint.c"
CON_PY = "constraint"
# Why the scalar part: q and -q are the same rotation, and the vector part alone changes sign between them.  The limit row
# of C (mju_quat2Vel wraps the angle with the sign of the scalar part, mju_normalize3 then yields a non-negative angle and
# the axis that goes with it) is the same for q and -q.  A Jacobian axis computed from the vector part only flips with it,
# so it is wrong on one half of the cover, whatever function of the vector part it is.
COVER_WHY = ("q and -q are one rotation and only the scalar part tells which of the two the vector part belongs to: a row axis "
             "that does not depend on it changes sign between q and -q, the C row does not")


def c_ball_premise(repo, H):
    """C side: the function that instantiates joint-limit rows, its mj_addConstraint calls guarded by jnt_type == mjJNT_BALL,
    and what their Jacobian argument depends on (flow-insensitive closure over the statements that BALL can reach, static
    helpers inlined; a callee may write every non-const pointer argument from all its arguments)."""
    from .. import cir, engine, modref, norm
    u = engine.unit(CC_C, repo)
    joint = set(H.enumerators("mjtJoint") or ())
    if "mjJNT_BALL" not in joint:
        raise AnalysisError("anchor vanished: mjtJoint.mjJNT_BALL")
    add = u.funcs.get("mj_addConstraint") or u.protos.get("mj_addConstraint")
    if add is None:
        raise AnalysisError(f"{CC_C}: anchor vanished: mj_addConstraint")
    pnames = [p_.get("n") for p_ in cir.params(add)]
    if "jac" not in pnames:
        raise AnalysisError(f"{CC_C}: anchor vanished: parameter `jac` of mj_addConstraint")
    jidx = pnames.index("jac")
    cands = []
    for name, fn in sorted(u.funcs.items()):
        if (fn.get("file") or u.tu) != u.tu or name == "mj_addConstraint":
            continue
        if any(x.get("k") == "DeclRefExpr" and (x.get("ref") or {}).get("n") == "mjJNT_BALL" for x in cir.walk(fn)) and \
                any(True for _ in cir.calls(fn, "mj_addConstraint")):
            cands.append(name)
    found = []
    for name in cands:
        view = norm.canon(u, name, exclude=("mj_addConstraint",))
        body = cir.body(view)

        def eqset(c):
            """enumerators E of `jnt_type == E` or of an `||` tree of such tests; None for anything else"""
            c = cir.strip(c)
            if c is None or c.get("k") != "BinaryOperator":
                return None
            if c.get("op") == "||":
                parts = [eqset(x) for x in cir.kids(c)]
                return None if any(p_ is None for p_ in parts) else set().union(*parts)
            if c.get("op") == "==":
                a, b = (cir.text(x) for x in cir.kids(c))
                for lab, other in ((a, b), (b, a)):
                    if lab in joint and "jnt_type" in other:
                        return {lab}
            return None

        def cases(n, body=body):
            live, constrained = set(joint), False
            for g in norm.guards(body, n) or []:
                es = eqset(g[0])
                if es is None:
                    if g[0].get("k") == "SwitchLabels":
                        sub, con = norm.enum_cases([g], joint, subject=lambda t: "jnt_type" in t)
                        if con:
                            live &= sub
                            constrained = True
                    continue
                constrained = True
                live = (live & es) if g[1] else (live - es)
            return live, constrained
        calls = [c for c in cir.calls(body, "mj_addConstraint") if cases(c) == ({"mjJNT_BALL"}, True)]
        if calls:
            found.append((name, view, body, calls, cases))
    if len(found) != 1:
        raise AnalysisError(f"{CC_C}: expected one function adding constraint rows under jnt_type == mjJNT_BALL, found "
                            f"{[f[0] for f in found]}")
    name, view, body, calls, cases = found[0]

    def is_data(n, field=None):
        n = cir.strip(n)
        if n is None or n.get("k") != "MemberExpr" or not n.get("arrow"):
            return False
        b = cir.strip(cir.kids(n)[0]) if cir.kids(n) else None
        return b is not None and "mjData" in (b.get("t") or "") and (field is None or n.get("n") == field)

    def root(n):
        n = cir.strip(n)
        while n is not None:
            k = n.get("k")
            if k == "DeclRefExpr":
                r = n.get("ref") or {}
                return r.get("id") if r.get("k") in ("VarDecl", "ParmVarDecl") else None
            if k == "MemberExpr" and n.get("arrow"):
                return ("field", n.get("n"))
            if k in ("MemberExpr", "ArraySubscriptExpr") or (k == "UnaryOperator" and n.get("op") in ("*", "&")) or \
                    (k == "BinaryOperator" and n.get("op") in ("+", "-")):
                n = cir.strip(cir.kids(n)[0])
                continue
            return None
        return None

    deps = {}
    qalias = set()      # locals that point into d->qpos at the joint's address: `const mjtNum* q = d->qpos + adr;`

    def qpos_base(b):
        """True if pointer expression b is d->qpos, d->qpos + <address>, or a local alias of one"""
        b = cir.strip(b)
        if b is None:
            return False
        if b.get("k") == "DeclRefExpr":
            return (b.get("ref") or {}).get("id") in qalias
        if b.get("k") == "BinaryOperator" and b.get("op") == "+":
            return qpos_base(cir.kids(b)[0])
        if b.get("k") == "UnaryOperator" and b.get("op") == "&":
            x = cir.strip(cir.kids(b)[0])
            return x is not None and x.get("k") == "ArraySubscriptExpr" and qpos_base(cir.kids(x)[0])
        return is_data(b, "qpos")

    def offset(i, based):
        """offset of an index from the joint's address: with a based pointer the literal itself, else `adr + k`"""
        i = cir.strip(i)
        if i is None:
            return "?"
        if i.get("k") == "IntegerLiteral":
            return int(str(i.get("v")), 0) if based else "?"
        if i.get("k") == "BinaryOperator" and i.get("op") == "+":
            lit = [y for y in (cir.strip(z) for z in cir.kids(i)) if y is not None and y.get("k") == "IntegerLiteral"]
            return int(str(lit[0].get("v")), 0) if len(lit) == 1 else "?"
        if i.get("k") == "BinaryOperator":
            return "?"
        return "?" if based else 0

    def edeps(e):
        out = set()
        sub_bases = set()
        for x in cir.walk(e):
            k = x.get("k")
            if k == "ArraySubscriptExpr" and qpos_base(cir.kids(x)[0]):
                b = cir.strip(cir.kids(x)[0])
                out.add(("qpos", offset(cir.kids(x)[1], based=not is_data(b, "qpos"))))
                for y in cir.walk(b):
                    sub_bases.add(id(y))
        for x in cir.walk(e):
            k = x.get("k")
            if k == "DeclRefExpr" and (x.get("ref") or {}).get("k") in ("VarDecl", "ParmVarDecl"):
                out |= deps.get(x["ref"].get("id"), set())
                if x["ref"].get("id") in qalias and id(x) not in sub_bases:
                    out.add(("qpos", "?"))
            elif k == "MemberExpr" and x.get("arrow") and is_data(x):
                if x.get("n") != "qpos":
                    out |= deps.get(("field", x.get("n")), set())
                elif id(x) not in sub_bases:
                    out.add(("qpos", "?"))      # the pointer itself handed on: any entry
        return out

    region = []
    for n in cir.walk(body):
        k = n.get("k")
        if k == "VarDecl" and n.get("init") or (k == "BinaryOperator" and n.get("op") == "=") or \
                k == "CompoundAssignOperator" or cir.is_call(n):
            if "mjJNT_BALL" in cases(n)[0]:
                region.append(n)
    for n in region:
        if n.get("k") == "VarDecl":
            init = [c for c in cir.kids(n) if c is not None]
            if init and "*" in (n.get("t") or "") and qpos_base(init[-1]) and n.get("id"):
                qalias.add(n.get("id"))
    for _ in range(12):
        changed = False

        def add(key, tags):
            nonlocal changed
            if key is None or not tags:
                return
            cur = deps.setdefault(key, set())
            if not tags <= cur:
                cur |= tags
                changed = True
        for n in region:
            k = n.get("k")
            if k == "VarDecl":
                init = [c for c in cir.kids(n) if c is not None]
                add(n.get("id"), edeps(init[-1]))
            elif cir.is_call(n):
                ref = cir.strip(cir.kids(n)[0])
                sig = ((ref or {}).get("ref") or {}).get("t") or ""
                ptypes = modref._param_types(sig)
                args = cir.args(n)
                alld = set()
                for a in args:
                    alld |= edeps(a)
                for a, t in zip(args, ptypes):
                    if t.rstrip().endswith("*") and not t.lstrip().startswith("const "):
                        add(root(a), alld)
            else:
                lhs, rhs = cir.kids(n)[0], cir.kids(n)[1]
                add(root(lhs), edeps(rhs) | (edeps(lhs) if k == "CompoundAssignOperator" else set()))
        if not changed:
            break
    jac = []
    for c in calls:
        a = cir.args(c)
        jac.append((c.get("line"), edeps(a[jidx]) if jidx < len(a) else set()))
    return {"function": name, "line": view.get("line"), "calls": jac, "inlined": view.get("inlined", [])}


def _four_consecutive(sl):
    """The index expression selects 4 consecutive entries from a start address: `arange(4) + a`, `a + arange(4)`, `a:a+4`."""
    def is_arange4(x):
        return isinstance(x, ast.Call) and ((isinstance(x.func, ast.Attribute) and x.func.attr == "arange") or
                                            (isinstance(x.func, ast.Name) and x.func.id == "arange")) \
            and len(x.args) == 1 and not x.keywords and isinstance(x.args[0], ast.Constant) and x.args[0].value == 4
    if isinstance(sl, ast.BinOp) and isinstance(sl.op, ast.Add) and (is_arange4(sl.left) or is_arange4(sl.right)):
        return True
    if isinstance(sl, ast.Slice) and sl.lower is not None and sl.step is None and isinstance(sl.upper, ast.BinOp) and \
            isinstance(sl.upper.op, ast.Add):
        for a, b in ((sl.upper.left, sl.upper.right), (sl.upper.right, sl.upper.left)):
            if isinstance(b, ast.Constant) and b.value == 4 and ast.dump(a) == ast.dump(sl.lower):
                return True
    return False


def check_cover(res, H, sources, classes, repo):
    rule = "R-XLANG-COVER"
    res.rule(rule, "the Jacobian axis of the ball-joint limit row depends on the scalar part of the joint quaternion other "
             "than through a 0/1 activity factor, in the C engine and in MJX", floor=2)
    from .. import pydep
    prem = c_ball_premise(repo, H)
    for line, tags in prem["calls"]:
        offs = {o for f, o in tags if f == "qpos"}
        if not (0 in offs or "?" in offs):
            raise AnalysisError(f"{CC_C}:{line}: the Jacobian handed to mj_addConstraint under jnt_type == mjJNT_BALL in "
                                f"{prem['function']} does not depend on d->qpos[jnt_qposadr] (found offsets {sorted(map(str, offs))}): "
                                f"the premise of {rule} is gone")
    res.ok(rule, f"c:{prem['function']}:jac<-qpos.w", {"where": f"{CC_C}:{prem['calls'][0][0]}", "inlined": prem["inlined"],
                                                       "depends_on_qpos_offsets": sorted(map(str, {o for _l, t in prem["calls"]
                                                                                                  for f, o in t if f == "qpos"}))})
    con = sources.get(CON_PY + ".py")
    if con is None:
        raise AnalysisError(f"anchor vanished: {MJX}/{CON_PY}.py")
    rel = f"{MJX}/{CON_PY}.py"
    mem = (classes.get("JointType") or {}).get("members", {}).get("BALL")
    if mem is None or mem[1] != "mjJNT_BALL":
        raise AnalysisError(f"{MJX}/types.py: anchor vanished: JointType.BALL = mujoco.mjtJoint.mjJNT_BALL")
    confs = functions(con)
    cands = []
    for name, fn in confs.items():
        _a, own_enums, _c = _py_tokens(fn)
        attrs, _e, _c2 = _py_tokens(fn, helpers=confs)
        # the function itself selects JointType.BALL; jnt_range may be gathered by a helper it uses
        if ("JointType", "BALL") in own_enums and "jnt_range" in attrs:
            cands.append(name)
    # a caller of the row builder is not the row builder
    uses = {name: {n.id for n in ast.walk(confs[name]) if isinstance(n, ast.Name) and isinstance(n.ctx, ast.Load)} for name in cands}
    cands = [c for c in cands if not any(o != c and o in uses[c] for o in cands)]
    if len(cands) != 1:
        raise AnalysisError(f"{rel}: expected one function building limit rows for JointType.BALL (reads jnt_range, itself or "
                            f"through a helper), found {cands}")
    fname = cands[0]
    state = {"reads": 0, "other": []}

    def hook(interp, node, base, idx, fr):
        if not isinstance(base, pydep.D) or not any(t[:2] == ("in", "d") and t[-1] == "qpos" for t in base.tags):
            return None
        if _four_consecutive(node.slice):
            state["reads"] += 1
            extra = pydep.flatten(idx) | frozenset(t for t in base.tags if t[-1] != "qpos")
            return pydep.V(frozenset({("quat", "w")}) | extra, frozenset({("quat", "xyz")}) | extra)
        state["other"].append(node.lineno)
        return None

    def xhook(interp, name, args, kwargs, node, fr):
        # jax.lax.dynamic_slice(d.qpos, (adr,), (4,)) / dynamic_slice_in_dim(d.qpos, adr, 4)
        last = name.rsplit(".", 1)[-1]
        if last not in ("dynamic_slice", "dynamic_slice_in_dim") or len(args) != 3 or not isinstance(args[0], pydep.D) or \
                not any(t[:2] == ("in", "d") and t[-1] == "qpos" for t in args[0].tags):
            return None
        size = args[2]
        if last == "dynamic_slice":
            size = size.items[0] if isinstance(size, pydep.T) and len(size.items) == 1 else None
        if isinstance(size, pydep.K) and size.kind == "int" and size.v == 4:
            state["reads"] += 1
            extra = pydep.flatten(args[1]) | frozenset(t for t in args[0].tags if t[-1] != "qpos")
            return pydep.V(frozenset({("quat", "w")}) | extra, frozenset({("quat", "xyz")}) | extra)
        state["other"].append(node.lineno)
        return None
    mods = {k[:-3]: v for k, v in sources.items()}
    interp = pydep.Interp(mods, {CON_PY, "math"}, {}, drop_masks=True, subscript_hook=hook, external_hook=xhook,
                          label=f"{MJX}/")
    ret = interp.run(CON_PY, fname, [pydep.D(frozenset({("in", "m")})), pydep.D(frozenset({("in", "d")}))])
    line = confs[fname].lineno
    if not state["reads"]:
        raise AnalysisError(f"{rel}:{line}: {fname}: no read of the joint quaternion as four consecutive qpos entries "
                            f"(`d.qpos[arange(4) + adr]` / `d.qpos[adr:adr + 4]`) is recognised (other qpos reads at lines "
                            f"{state['other']})")
    if not isinstance(ret, pydep.R) or ret.get("J") is None:
        raise AnalysisError(f"{rel}:{line}: {fname} does not return a row record with a field J")
    J = ret.get("J")
    direct = pydep.ungated(J)
    allt = pydep.flatten(J)
    whole = any(t[:2] == ("in", "d") and t[-1] == "qpos" for t in direct)
    has_w = ("quat", "w") in direct or whole
    has_xyz = ("quat", "xyz") in direct or whole
    key = f"{fname}:J<-qpos.w"
    if has_w:
        res.ok(rule, key, {"where": f"{rel}:{line}", "c": f"{CC_C}: {prem['function']}"})
    elif not has_xyz:
        raise AnalysisError(f"{rel}:{line}: the J of the row {fname} returns does not depend on the joint quaternion at all: "
                            f"shape not recognised")
    else:
        only_gate = ("quat", "w") in allt
        res.bad(rule, key, rel, line,
                f"the Jacobian axis (field J of the row) {fname} builds depends on the vector part of the joint quaternion but "
                f"not on its scalar part" + (" (the scalar part only reaches the 0/1 activity factor)" if only_gate else "") +
                f"; the C engine ({prem['function']}, {CC_C}:{prem['calls'][0][0]}) derives the axis from all four components: "
                f"{COVER_WHY}")
    res.extra["cover"] = {"mjx_function": fname, "c_function": prem["function"], "why": COVER_WHY,
                          "mjx_J_direction_depends_on": sorted(str(t) for t in direct if t[0] == "quat"),
                          "mjx_J_also_gated_by": sorted(str(t) for t in allt - direct if t[0] == "quat")}


# --------------------------------------------------------------------------------------
# self-test (thorough tier): must-fire mutants and behaviour-preserving controls for R-XLANG-FEED / R-XLANG-COVER

_FW = f"{MJX}/forward.py"
_CO = f"{MJX}/constraint.py"
_RK_ADVANCE = "  d = _advance(m, d, act_dot, qacc, qvel)\n  return d\n"
_BALL_NORM = "    axis, angle = math.normalize_with_norm(axis * angle)\n"
_SEED_BALL = [(_CO, _BALL_NORM, ""),
              (_CO, "    pos = jp.amax(jnt_range) - angle - jnt_margin\n    active = pos < 0\n    j = jp.zeros(m.nv).at[jp.arange(3) + dofadr].set(-axis)",
               "    pos = jp.amax(jnt_range) - jp.abs(angle) - jnt_margin\n    active = pos < 0\n    j = jp.zeros(m.nv).at[jp.arange(3) + dofadr].set(-axis)")]
MUTANTS = [
    # R-XLANG-FEED: the activation update inside an RK stage (stored seed C43-rk4-stage-activation)
    {"id": "feed-rk-stage-clamp", "expect": ("R-XLANG-FEED", "rungekutta4:_next_activation->forward"),
     "edits": [(_FW, "    kact = d0.act + dact_dot * m.opt.timestep\n", "    kact = _next_activation(m, d0, dact_dot)\n")]},
    # the same through a helper and a partial application: the owner is still the integrator
    {"id": "feed-rk-stage-clamp-helper", "expect": ("R-XLANG-FEED", "_next_activation->forward"),
     "edits": [(_FW, "    kact = d0.act + dact_dot * m.opt.timestep\n",
                "    stage_act = functools.partial(_next_activation, m, d0)\n    kact = stage_act(dact_dot)\n")]},
    # the final state keeps the unclamped Euler activation although the clamped one is computed
    {"id": "feed-final-act-unclamped", "expect": ("R-XLANG-FEED", "act<-_next_activation"),
     "edits": [(_FW, "  act = _next_activation(m, d, act_dot)\n",
                "  act = _next_activation(m, d, act_dot)\n  act = d.act + act_dot * m.opt.timestep\n")]},
    # positions of the returned state advanced linearly (the manifold integrator is called, its result dropped)
    {"id": "feed-final-qpos-linear", "expect": ("R-XLANG-FEED", "qpos<-_integrate_pos"),
     "edits": [(_FW, "  return d.replace(act=act, qpos=qpos, time=time)\n",
                "  return d.replace(act=act, qpos=d.qpos, time=time)\n")]},
    # a second dynamics evaluation after the advance inside the Euler step: C never evaluates after mj_nextActivation
    {"id": "feed-euler-eval-after-advance", "expect": ("R-XLANG-FEED", "_next_activation->forward"),
     "edits": [(_FW, "    d = euler(m, d)\n", "    d = forward(m, euler(m, d))\n")]},
    # controls: behaviour-preserving reshapes of the same code
    {"id": "feed-ctl-inline-advance", "expect": None,
     "edits": [(_FW, _RK_ADVANCE,
                "  act = _next_activation(m, d, act_dot)\n  d = d.replace(qvel=d.qvel + qacc * m.opt.timestep)\n"
                "  qpos = scan.flat(m, integrate_fn, 'jqv', 'q', m.jnt_type, d.qpos, qvel)\n"
                "  d = d.replace(qacc_warmstart=d.qacc)\n"
                "  return d.replace(act=act, qpos=qpos, time=d.time + m.opt.timestep)\n")]},
    {"id": "feed-ctl-python-loop", "expect": None,
     "edits": [(_FW, "  out, _ = jax.lax.scan(f, (qvel, qacc, act_dot, kqvel, d), abt, unroll=3)\n",
                "  out = (qvel, qacc, act_dot, kqvel, d)\n  for i in range(3):\n    out, _ = f(out, abt[i])\n")]},
    {"id": "feed-ctl-stage-helper", "expect": None,
     "edits": [(_FW, "    kact = d0.act + dact_dot * m.opt.timestep\n    kqvel = d0.qvel + dqacc * m.opt.timestep\n",
                "    lin = lambda x0, dx: x0 + dx * m.opt.timestep\n    kact, kqvel = lin(d0.act, dact_dot), lin(d0.qvel, dqacc)\n")]},
    {"id": "feed-ctl-dispatch-table", "expect": None,
     "edits": [(_FW, "  if m.opt.integrator == IntegratorType.EULER:\n    d = euler(m, d)\n  elif m.opt.integrator == IntegratorType.RK4:\n"
                     "    d = rungekutta4(m, d)\n  elif m.opt.integrator == IntegratorType.IMPLICITFAST:\n    d = implicit(m, d)\n  else:\n",
                "  table = {IntegratorType.EULER: euler, IntegratorType.RK4: rungekutta4, IntegratorType.IMPLICITFAST: implicit}\n"
                "  if m.opt.integrator in table:\n    d = table[m.opt.integrator](m, d)\n  else:\n")]},
    {"id": "feed-ctl-c-local-integrator", "expect": None,
     "edits": [(FWD_C, "  switch ((mjtIntegrator) m->opt.integrator) {\n  case mjINT_EULER:\n    mj_Euler(m, d);",
                "  int integ = m->opt.integrator;\n  switch ((mjtIntegrator) integ) {\n  case mjINT_EULER:\n    mj_Euler(m, d);")]},
    {"id": "feed-ctl-c-stage-helper", "expect": None,
     "edits": [(FWD_C, "// Runge Kutta explicit order-N integrator\n",
                "static void rkEvaluate(const mjModel* m, mjData* d) {\n  mj_forwardSkip(m, d, mjSTAGE_NONE, 1);\n}\n\n"
                "// Runge Kutta explicit order-N integrator\n"),
               (FWD_C, "    mj_forwardSkip(m, d, mjSTAGE_NONE, 1);  // 1: do not recompute sensors and energy\n",
                "    rkEvaluate(m, d);\n")]},
    # stored refactor shapes H-p1 / H-p4 / H-p5: dispatch, role and row helpers at module level
    {"id": "feed-ctl-dispatch-helper", "expect": None,
     "edits": [(_FW, "  if m.opt.integrator == IntegratorType.EULER:\n    d = euler(m, d)\n  elif m.opt.integrator == IntegratorType.RK4:\n"
                     "    d = rungekutta4(m, d)\n  elif m.opt.integrator == IntegratorType.IMPLICITFAST:\n    d = implicit(m, d)\n  else:\n"
                     "    raise NotImplementedError(f'integrator {m.opt.integrator} not implemented.')\n\n  return d\n",
                "  return _integrate(m, d)\n"),
               (_FW, "@named_scope\ndef forward(m: Model, d: Data) -> Data:\n",
                "def _integrate(m: Model, d: Data) -> Data:\n  integrator = m.opt.integrator\n  if integrator == IntegratorType.EULER:\n"
                "    return euler(m, d)\n  if integrator == IntegratorType.RK4:\n    return rungekutta4(m, d)\n"
                "  if integrator == IntegratorType.IMPLICITFAST:\n    return implicit(m, d)\n"
                "  raise NotImplementedError(f'integrator {integrator} not implemented.')\n\n\n"
                "@named_scope\ndef forward(m: Model, d: Data) -> Data:\n")]},
    {"id": "feed-ctl-role-helper", "expect": None,
     "edits": [(_FW, "  def fn(dyntype, dynprm, act, act_dot, actrange):\n    if dyntype == DynType.FILTEREXACT:\n"
                     "      tau = jp.clip(dynprm[0], min=mujoco.mjMINVAL)\n      act = act + act_dot * tau * (1 - jp.exp(-m.opt.timestep / tau))\n"
                     "    else:\n      act = act + act_dot * m.opt.timestep\n    act = jp.clip(act, actrange[0], actrange[1])\n    return act\n\n",
                "  fn = functools.partial(_integrate_act, m.opt.timestep)\n\n"),
               (_FW, "def _next_activation(m: Model, d: Data, act_dot: jax.Array) -> jax.Array:\n",
                "def _integrate_act(timestep, dyntype, dynprm, act, act_dot, actrange):\n  if dyntype == DynType.FILTEREXACT:\n"
                "    tau = jp.clip(dynprm[0], min=mujoco.mjMINVAL)\n    act_delta = act_dot * tau * (1 - jp.exp(-timestep / tau))\n"
                "  else:\n    act_delta = act_dot * timestep\n  return jp.clip(act + act_delta, actrange[0], actrange[1])\n\n\n"
                "def _next_activation(m: Model, d: Data, act_dot: jax.Array) -> jax.Array:\n"),
               (_FW, "  qvel = d.qvel if qvel is None else qvel\n  integrate_fn = lambda *args: _integrate_pos(*args, dt=m.opt.timestep)\n"
                     "  qpos = scan.flat(m, integrate_fn, 'jqv', 'q', m.jnt_type, d.qpos, qvel)\n\n  # advance time\n",
                "  if qvel is None:\n    qvel = d.qvel\n  integrate_fn = functools.partial(_integrate_pos, dt=m.opt.timestep)\n"
                "  qpos = scan.flat(m, integrate_fn, 'jqv', 'q', m.jnt_type, d.qpos, qvel)\n\n  # advance time\n")]},
    {"id": "cover-ctl-row-helpers", "expect": None,
     "edits": [(_CO, "def _efc_limit_ball(m: Model, d: Data) -> Optional[_Efc]:\n",
                "def _jnt_limit_args(m, jnt_id):\n  args = (m.jnt_qposadr, m.jnt_dofadr, m.jnt_range, m.jnt_margin, m.jnt_solref, m.jnt_solimp)\n"
                "  return jax.tree_util.tree_map(lambda x: x[jnt_id], args)\n\n\n"
                "def _jnt_limit_row(m, j, pos, dofadr, margin, solref, solimp):\n  active = pos < 0\n  invweight = m.dof_invweight0[dofadr]\n"
                "  zero = jp.zeros_like(pos)\n  return _row(j * active, pos * active, pos, invweight, solref, solimp, margin, zero)\n\n\n"
                "def _efc_limit_ball(m: Model, d: Data) -> Optional[_Efc]:\n"),
               (_CO, "    pos = jp.amax(jnt_range) - angle - jnt_margin\n    active = pos < 0\n"
                     "    j = jp.zeros(m.nv).at[jp.arange(3) + dofadr].set(-axis)\n    invweight = m.dof_invweight0[dofadr]\n"
                     "    z = jp.zeros_like(pos)\n\n    return _row(\n        j * active, pos * active, pos, invweight, solref, solimp, jnt_margin, z\n    )\n\n"
                     "  args = (m.jnt_qposadr, m.jnt_dofadr, m.jnt_range, m.jnt_margin, m.jnt_solref)\n  args += (m.jnt_solimp,)\n"
                     "  args = jax.tree_util.tree_map(lambda x: x[jnt_id], args)\n\n  return rows(*args)\n",
                "    pos = jp.amax(jnt_range) - angle - jnt_margin\n    j = jp.zeros(m.nv).at[jp.arange(3) + dofadr].set(-axis)\n\n"
                "    return _jnt_limit_row(m, j, pos, dofadr, jnt_margin, solref, solimp)\n\n  return rows(*_jnt_limit_args(m, jnt_id))\n")]},
    # the stored ball seed on top of the row-helper layout still fires
    {"id": "cover-ball-no-renormalise-row-helper", "expect": ("R-XLANG-COVER", "_efc_limit_ball:J<-qpos.w"),
     "edits": [(_CO, "def _efc_limit_ball(m: Model, d: Data) -> Optional[_Efc]:\n",
                "def _jnt_limit_row(m, j, pos, dofadr, margin, solref, solimp):\n  active = pos < 0\n  invweight = m.dof_invweight0[dofadr]\n"
                "  zero = jp.zeros_like(pos)\n  return _row(j * active, pos * active, pos, invweight, solref, solimp, margin, zero)\n\n\n"
                "def _efc_limit_ball(m: Model, d: Data) -> Optional[_Efc]:\n"),
               (_CO, _BALL_NORM + "    pos = jp.amax(jnt_range) - angle - jnt_margin\n    active = pos < 0\n"
                     "    j = jp.zeros(m.nv).at[jp.arange(3) + dofadr].set(-axis)\n    invweight = m.dof_invweight0[dofadr]\n"
                     "    z = jp.zeros_like(pos)\n\n    return _row(\n        j * active, pos * active, pos, invweight, solref, solimp, jnt_margin, z\n    )\n",
                "    pos = jp.amax(jnt_range) - jp.abs(angle) - jnt_margin\n    j = jp.zeros(m.nv).at[jp.arange(3) + dofadr].set(-axis)\n\n"
                "    return _jnt_limit_row(m, j, pos, dofadr, jnt_margin, solref, solimp)\n")]},
    # the stored RK seed on top of the dispatch-helper layout still fires
    {"id": "feed-rk-stage-clamp-dispatch-helper", "expect": ("R-XLANG-FEED", "rungekutta4:_next_activation->forward"),
     "edits": [(_FW, "    kact = d0.act + dact_dot * m.opt.timestep\n", "    kact = _next_activation(m, d0, dact_dot)\n"),
               (_FW, "  elif m.opt.integrator == IntegratorType.RK4:\n    d = rungekutta4(m, d)\n",
                "  elif m.opt.integrator == IntegratorType.RK4:\n    d = _run_rk4(m, d)\n"),
               (_FW, "@named_scope\ndef forward(m: Model, d: Data) -> Data:\n",
                "def _run_rk4(m: Model, d: Data) -> Data:\n  return rungekutta4(m, d)\n\n\n@named_scope\ndef forward(m: Model, d: Data) -> Data:\n")]},
    # R-XLANG-COVER: the renormalisation of axis*angle dropped (stored seed C43-ball-limit-double-cover)
    {"id": "cover-ball-no-renormalise", "expect": ("R-XLANG-COVER", "_efc_limit_ball:J<-qpos.w"), "edits": _SEED_BALL},
    # the same with the activity factor applied through where(active, j, 0)
    {"id": "cover-ball-no-renormalise-where", "expect": ("R-XLANG-COVER", "_efc_limit_ball:J<-qpos.w"),
     "edits": _SEED_BALL + [(_CO, "        j * active, pos * active, pos, invweight, solref, solimp, jnt_margin, z\n    )\n\n"
                                  "  args = (m.jnt_qposadr, m.jnt_dofadr, m.jnt_range, m.jnt_margin, m.jnt_solref)\n  args += (m.jnt_solimp,)\n"
                                  "  args = jax.tree_util.tree_map(lambda x: x[jnt_id], args)\n\n  return rows(*args)\n\n\n"
                                  "def _efc_limit_slide_hinge",
                             "        jp.where(active, j, 0.0), pos * active, pos, invweight, solref, solimp, jnt_margin, z\n    )\n\n"
                             "  args = (m.jnt_qposadr, m.jnt_dofadr, m.jnt_range, m.jnt_margin, m.jnt_solref)\n  args += (m.jnt_solimp,)\n"
                             "  args = jax.tree_util.tree_map(lambda x: x[jnt_id], args)\n\n  return rows(*args)\n\n\n"
                             "def _efc_limit_slide_hinge")]},
    # controls: equivalent ways of putting the axis on the right half of the cover
    {"id": "cover-ctl-sign", "expect": None,
     "edits": [(_CO, _BALL_NORM, "    axis, angle = axis * jp.sign(angle), jp.abs(angle)\n")]},
    {"id": "cover-ctl-where", "expect": None,
     "edits": [(_CO, _BALL_NORM, "    axis = jp.where(angle < 0, -axis, axis)\n    angle = jp.abs(angle)\n")]},
    {"id": "cover-ctl-sign-from-mask", "expect": None,
     "edits": [(_CO, _BALL_NORM, "    axis, angle = axis * (1 - 2 * (angle < 0)), jp.abs(angle)\n")]},
    {"id": "cover-ctl-canonical-quat", "expect": None,
     "edits": [(_CO, "    axis, angle = math.quat_to_axis_angle(d.qpos[jp.arange(4) + qposadr])\n" + "    # ball rotation angle is always positive\n" + _BALL_NORM,
                "    quat = jax.lax.dynamic_slice(d.qpos, (qposadr,), (4,))\n    quat = jp.where(quat[0] < 0, -quat, quat)\n"
                "    axis, angle = math.quat_to_axis_angle(quat)\n")]},
    {"id": "cover-ctl-c-helper", "expect": None,
     "edits": [(CC_C, "// joint and tendon limits\n",
                "static mjtNum ballAngleAxis(mjtNum angleAxis[3], const mjtNum* qpos) {\n  mjtNum quat[4] = {qpos[0], qpos[1], qpos[2], qpos[3]};\n"
                "  mju_normalize4(quat);\n  mju_quat2Vel(angleAxis, quat, 1);\n  return mju_normalize3(angleAxis);\n}\n\n// joint and tendon limits\n"),
               (CC_C, "      mjtNum quat[4] = {d->qpos[adr], d->qpos[adr+1], d->qpos[adr+2], d->qpos[adr+3]};\n      mju_normalize4(quat);\n"
                      "      mju_quat2Vel(angleAxis, quat, 1);\n\n      // get rotation angle, normalize\n      value = mju_normalize3(angleAxis);\n",
                "      value = ballAngleAxis(angleAxis, d->qpos + adr);\n")]},
]
SELFTEST_PARTS = ("mjx/mujoco", "src", "include", "cmake", "CMakeLists.txt", "python/mujoco", "plugin")


def selftest(res):
    from .. import r_misc
    r_misc.run_mutants("C43", res, MUTANTS, parts=SELFTEST_PARTS, jobs=3)


# --------------------------------------------------------------------------------------


def run(res, tier):
    repo = os.path.abspath(REPO)
    H = cheaders.load(repo)
    sources = load_sources(repo)
    classes = types_classes(sources["types.py"])
    check_symbols(res, H, sources)
    mir = mirrors(res, H, classes)
    check_gates(res, H, sources, classes, mir)
    res.rule("R-XLANG-ATTR", "every attribute read / getattr copy on mujoco.MjModel/MjData/MjOption/MjStatistic objects in "
             "io.py names a member of the C struct (or a derived field assigned in the same function)", floor=900)
    n_explicit, n_copy, foreign = check_attrs(res, H, sources, classes)
    check_stages(res, H, sources, classes, repo)
    check_feed(res, H, sources, classes, mir, repo)
    check_cover(res, H, sources, classes, repo)
    res.count("mjx_files", len(sources))
    res.count("mirror_classes", len(mir))
    res.count("partial_mirrors", sum(1 for m in mir.values() if m["partial"]))
    res.count("explicit_attribute_reads", n_explicit)
    res.count("getattr_copied_fields", n_copy)
    res.extra["mirrors"] = {k: {"c_enum": v["cenum"], "kind": v["kind"], "omitted": v["partial"]} for k, v in mir.items()}
    res.extra["copy_loops_over_foreign_classes_not_decided"] = foreign
    res.extra["gate_exceptions"] = GATE_EXCEPTIONS
    res.trusted = ["clang 14 parser/type checker (JSON AST)", "CPython ast module (parsing only)",
                   "the Python bindings expose exactly the C enums/struct members under their C names (C49 ties the "
                   "introspect metadata, from which the bindings are generated, to the headers)"]
    res.explanation = (
        "Cross-language structural agreement between MJX (Python ast) and the C headers / C model compiler (clang): "
        "enumerator and API names spelled in MJX exist in C; types.py enum mirrors are bound name-for-name to one C enum; "
        "every mirror that omits C values is gated by a NotImplementedError membership test reachable from the JAX "
        "put_model path (gate rows checked for coherence); attribute reads and getattr copy loops on C objects in io.py "
        "name C struct members; the sensor types each MJX stage function handles are exactly those the C compiler assigns "
        "to that stage (sensorNeedstage, type-checked by clang); inside one step and inside each integrator a result of the "
        "activation update / position integration / dynamics evaluation feeds another of them in MJX only if the C engine "
        "can call them in that order, and the act / qpos of the returned state come from the primitives that produce "
        "d->act / d->qpos in C (R-XLANG-FEED); the ball-limit Jacobian axis depends on the quaternion's scalar part on "
        "both sides (R-XLANG-COVER).")
    res.not_decided = ("numerical agreement of forward dynamics/step with the C engine; semantics of each gate beyond "
                       "membership (e.g. feature combinations such as implicitfast+fluid, contact sensor modes); Warp and "
                       "C++ back ends (copy loops over classes defined outside types.py are listed, not decided); "
                       "GeomType and DisableBit are covered by the documented alternative arguments in gate_exceptions.  "
                       "R-XLANG-FEED: explicit data flow only; C feeds without an MJX counterpart (other than the produced "
                       "act / qpos) are not demanded; feeds through unknown combinators' feedback are listed, not judged; "
                       "what the primitives compute is not compared.  R-XLANG-COVER: one row kind (ball limit); masks it "
                       "does not recognise keep their dependences (a miss, never a false alarm).")
    res.assumptions = ["x.replace(f=v) / tree_replace on MJX dataclasses return a copy with the named fields replaced; "
                       "decorators named_scope / jax.vmap / jax.jit preserve data flow",
                       "user callbacks and plugin hooks of the C engine do not call mj_forward / mj_nextActivation / "
                       "mj_integratePos",
                       "parameters annotated mujoco.MjModel/MjData/MjOption/MjStatistic hold those binding objects",
                       "IntEnum(value)/set(Enum) membership semantics of CPython's enum module"]
