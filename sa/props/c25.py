"""C25 Analytic derivatives match finite differences (structure: FD routines restore their input, analytic derivative
covers the velocity-dependent actuator forces).

Decided:
  R-SAVE-RESTORE  in every mjd_* routine of engine_derivative_fd.c (anchors mjd_transitionFD, mjd_inverseFD; the workers
                  mjd_stepFD, mjd_passive_velFD, mjd_smooth_velFD are discovered from the file): on all paths, every
                  perturbation of an input component of mjData -- a direct write to a state field of the mjtState table or
                  to d->qacc, an in-place call on it (mj_integratePos(m, d->qpos, ..)), a call whose engine closure
                  advances state fields (mj_stepSkip ...) -- is undone before the function returns: by the saved scalar,
                  by a copy-back from the buffer it was saved to (same length), or by mj_setState(buf, spec) whose buffer
                  was filled by mj_getState with the same spec and whose spec covers the component; a relative
                  perturbation (+=, in-place integrate) is never applied to a component that is still dirty
  R-SIBLING-ENUM  the mjtGain / mjtBias enumerators whose branch of mj_fwdActuation reads d->actuator_velocity (directly,
                  through an alias local, or through a helper of the same TU) are all handled (a branch that contributes
                  a term) in mjd_actuator_vel; named couplings enforced by the model compiler are applied
  R-ZERO-SKIP     in engine_derivative.c an accumulation into qDeriv may be skipped on `X == 0` (X a local) only if X is the
                  accumulated value, or the value vanishes with X: the statements defining it (backward data slice of the
                  straight-line path) are re-evaluated by the finite interpreter with X forced to 0 at two generic inputs; a
                  non-zero result is a witness that a term of the derivative is dropped
  R-SIBLING-GUARD mjd_actuator_vel reproduces the control the force was computed from: if it reads d->ctrl it applies the
                  ctrlrange clamp under mjDSBL_CLAMPCTRL as mj_fwdActuation does
Not decided: numerical agreement; passive forces (no enumerator structure to compare: left out); mjtDyn (its velocity
dependence reaches the force through act_dot/actearly, a cross-family dependence); plugin state; autoreset inside FD.
"""
from __future__ import annotations

from .. import callgraph, cir, ctypeinfo, engine, modref, paths, r_misc
from ..cfront import AnalysisError
from . import c04

FD = "src/engine/engine_derivative_fd.c"
DER = "src/engine/engine_derivative.c"
FWD = "src/engine/engine_forward.c"

EXTRA_INPUTS = {"qacc": "input of inverse dynamics (mjd_inverseFD perturbs it directly)"}
# a spec bit that is only conditionally part of the restore spec is accepted when the condition tests this flag
CONDITIONAL_COMPONENTS = {
    "mjSTATE_WARMSTART": ("mjDSBL_WARMSTART", "qacc_warmstart is not an input when warm starting is disabled"),
}
# enumerator couplings enforced by the model compiler (user_objects.cc: mjCActuator::Compile throws otherwise)
COUPLED = {
    "mjGAIN_SO3": ("mjBIAS_SO3", "gaintype and biastype must both be 'so3'; the SO3 force law takes its kv from biasprm"),
}
STOP = ("mj_resetData",)


# ---------------------------------------------------------------------------------------------------------------
# R-SAVE-RESTORE


class Spec:
    """bit sets of a mjtState spec expression: must (always set) and may (set under a condition)"""

    def __init__(self, enum, defs):
        self.enum = enum
        self.defs = defs
        self.bit_name = {v: n for n, v in ctypeinfo.enum_values("mjtState") if v and v & (v - 1) == 0 and n != "mjNSTATE"}

    def const(self, e):
        return ctypeinfo.const_eval(e, self.enum)

    def eval(self, e, seen=frozenset()):
        """(must mask, [(mask, condition node)])"""
        s = cir.strip(e)
        if s is None:
            return None
        v = self.const(s)
        if v is not None:
            return v, []
        k = s.get("k")
        if k == "BinaryOperator" and s.get("op") == "|":
            a = self.eval(cir.kids(s)[0], seen)
            b = self.eval(cir.kids(s)[1], seen)
            if a is None or b is None:
                return None
            return a[0] | b[0], a[1] + b[1]
        if k == "ConditionalOperator":
            c, x, y = cir.kids(s)
            a, b = self.eval(x, seen), self.eval(y, seen)
            if a is None or b is None:
                return None
            must = a[0] & b[0]
            return must, a[1] + b[1] + [((a[0] | b[0]) & ~must, c)]
        if k == "DeclRefExpr" and (s.get("ref") or {}).get("k") in ("VarDecl",):
            did = s["ref"].get("id")
            if did in seen:
                return None
            ds = self.defs.of(s) or []
            must, may = 0, []
            first = True
            for kind, d in ds:
                if kind == "init":
                    r = self.eval(d, seen | {did})
                elif kind == "update" and d.get("k") == "CompoundAssignOperator" and d.get("op") == "|=":
                    r = self.eval(cir.kids(d)[1], seen | {did})
                else:
                    return None
                if r is None:
                    return None
                must |= r[0]
                may += r[1]
                first = False
            return (must, may) if not first else None
        return None

    def components(self, e):
        """state-bit names surely restored by spec expression e, given the accepted conditional components"""
        r = self.eval(e)
        if r is None:
            return None
        must, may = r
        names = {n for b, n in self.bit_name.items() if must & b}
        for mask, cond in may:
            for b, n in self.bit_name.items():
                if mask & b and n in CONDITIONAL_COMPONENTS and CONDITIONAL_COMPONENTS[n][0] in r_misc.enum_refs(cond):
                    names.add(n)
        return names


class SaveRestore(paths.Rule):
    """state: (dirty fields, saved records)"""

    def __init__(self, fn, fields, call_dirty, spec):
        self.fn = fn
        self.fields = fields              # tracked field -> mjSTATE name (or None for extra inputs)
        self.call_dirty = call_dirty      # function name -> set of fields
        self.spec = spec
        self.defs = spec.defs
        self.perturbed = set()

    def initial(self, fn):
        return (frozenset(), frozenset())

    # ---- helpers
    def _field(self, e):
        rf = modref.root_field(e) if e is not None else None
        if rf and rf[0] == "mjData" and rf[1] in self.fields:
            return rf[1]
        return None

    def _local(self, e):
        r = r_misc.root_ref(e)
        if r is None or modref.root_field(e) is not None:
            return None
        return (r.get("ref") or {}).get("id")

    def _dirty(self, st, flds, node, ctx, relative):
        dirty, saved = st
        for f in flds:
            self.perturbed.add(f)
            if relative and f in dirty:
                ctx.report(node, f"`{cir.text(node)[:90]}` perturbs d->{f} relative to its current value while d->{f} still "
                           f"holds an unrestored perturbation: the differences are taken around a drifting point", field=f,
                           kind="stacked")
        return (dirty | frozenset(flds), saved)

    # ---- transfer
    def assign(self, st, node, ctx):
        dirty, saved = st
        if node.get("k") == "VarDecl":
            i = r_misc.var_init(node)
            f = self._field(i)
            s = cir.strip(i) if i is not None else None
            if f and s is not None and s.get("k") in ("ArraySubscriptExpr", "MemberExpr", "UnaryOperator") and \
                    "*" not in (node.get("t") or ""):
                return (dirty, saved | {("scalar", node.get("id"), cir.text(s))})
            return st
        lhs = cir.kids(node)[0]
        f = self._field(lhs)
        if not f:
            # a saved scalar or an index variable of a saved lvalue changes: the save is gone
            t = cir.strip(lhs)
            if t is not None and t.get("k") == "DeclRefExpr":
                did = (t.get("ref") or {}).get("id")
                nm = (t.get("ref") or {}).get("n")
                keep = frozenset(r for r in saved if not (r[0] == "scalar" and (r[1] == did or _mentions(r[2], nm))))
                return (dirty, keep)
            return st
        ltxt = cir.text(cir.strip(lhs))
        if node.get("k") == "BinaryOperator":
            rhs = cir.strip(cir.kids(node)[1])
            mine = {r[1] for r in saved if r[0] == "scalar" and r[2] == ltxt}
            if rhs is not None and rhs.get("k") == "DeclRefExpr" and (rhs.get("ref") or {}).get("id") in mine:
                return (dirty - {f}, saved)                       # restore from the saved scalar
            used = {(x.get("ref") or {}).get("id") for x in cir.walk(rhs) if x.get("k") == "DeclRefExpr"}
            if used & mine and f not in r_misc.field_reads(rhs, "mjData"):
                return self._dirty(st, [f], node, ctx, relative=False)   # absolute perturbation around the saved value
        return self._dirty(st, [f], node, ctx, relative=True)

    def call(self, st, node, name, ctx):
        dirty, saved = st
        a = cir.args(node)
        if name == "mj_getState" and len(a) >= 4:
            b = self._local(a[2])
            if b is not None:
                return (dirty, saved | {("state", b, cir.text(a[3]))})
        if name == "mj_setState" and len(a) >= 4:
            b = self._local(a[2])
            comps = self.spec.components(a[3])
            if ("state", b, cir.text(a[3])) not in saved or comps is None:
                ctx.report(node, f"`{cir.text(node)[:90]}` restores from a buffer that was not filled by mj_getState with the same "
                           f"spec on this path", field="*", kind="unsaved")
                return st
            flds = {f for f, sn in self.fields.items() if sn in comps}
            return (dirty - flds, saved)
        if name in ("mju_copy", "memcpy", "mju_copyInt") and len(a) >= 3:
            fd, fs = self._field(a[0]), self._field(a[1])
            whole = lambda e: (cir.strip(e) or {}).get("k") == "MemberExpr"
            if fs and self._local(a[0]) is not None and whole(a[1]):
                return (dirty, saved | {("buf", self._local(a[0]), fs, cir.text(a[2]))})
            if fd and whole(a[0]) and self._local(a[1]) is not None:
                if ("buf", self._local(a[1]), fd, cir.text(a[2])) in saved:
                    return (dirty - {fd}, saved)
                ctx.report(node, f"`{cir.text(node)[:90]}` overwrites d->{fd} from a buffer that does not hold the saved d->{fd} "
                           f"(same length) on this path", field=fd, kind="unsaved")
                return self._dirty(st, [fd], node, ctx, relative=False)
        # in-place writes of tracked fields by this call
        flds = set()
        for e in modref.events(node, {"mjData"}):
            if e.get("callee") == name and e["kind"] in ("pass", "addr") and e["field"] in self.fields:
                flds.add(e["field"])
        if flds:
            st = self._dirty(st, sorted(flds), node, ctx, relative=True)
        # state advanced by the callee's closure
        passes_d = any("mjData" in ((cir.strip(x) or {}).get("t") or "") and
                       "const" not in ((cir.strip(x) or {}).get("t") or "").split("*")[0] for x in a if x is not None)
        if passes_d and name in self.call_dirty and self.call_dirty[name]:
            st = self._dirty(st, sorted(self.call_dirty[name]), node, ctx, relative=False)
        return st

    def _exit(self, st, node, ctx):
        for f in sorted(st[0]):
            ctx.report(node, f"the function can return with d->{f} perturbed and not restored", field=f, kind="exit")

    def ret(self, st, node, ctx):
        self._exit(st, node, ctx)

    def fallthrough(self, st, ctx):
        self._exit(st, ctx.fn, ctx)


def _mentions(text, name):
    import re
    return bool(name) and re.search(r"\b%s\b" % re.escape(name), text) is not None


def save_restore(res, g):
    u = engine.unit(FD)
    for f in ("mjd_transitionFD", "mjd_inverseFD"):
        if f not in u.funcs:
            raise AnalysisError(f"anchor {f} missing in {FD}")
    sf = c04.state_fields()
    if len(sf) < 13:
        raise AnalysisError(f"only {len(sf)} state fields derived from the state tables")
    fields = dict(sf)
    for x in EXTRA_INPUTS:
        fields[x] = None
    enum = ctypeinfo.load()["enumerators"]
    res.extra["tracked_components"] = sorted(fields)
    targets = sorted(n for n, fn in u.funcs.items() if n.startswith("mjd_") and (fn.get("file") or u.tu) == u.tu)
    if len(targets) < 5:
        raise AnalysisError(f"only {len(targets)} mjd_* routines found in {FD}: {targets}")
    cache = {}

    def closure_dirty(name, tu):
        k = g.resolve(tu, name)
        if k is None:
            return set()
        if k not in cache:
            out = set()
            for c in g.closure([k], stop=STOP):
                for e in g.funcs[c]["events"]:
                    if e["struct"] == "mjData" and e["field"] in sf and e["kind"] in ("assign", "elem", "pass", "addr"):
                        out.add(e["field"])
            cache[k] = out
        return cache[k]
    # callee-first order among the targets
    order, seen = [], set()

    def visit(n):
        if n in seen:
            return
        seen.add(n)
        for c in g.funcs[(FD, n)]["calls"]:
            if c in targets:
                visit(c)
        order.append(n)
    for n in targets:
        visit(n)
    clean = {}
    summary = {}
    resolved_structs = {}
    for name in order:
        # statement-level static helpers are expanded so that extracting a save / restore into a helper changes nothing
        fn, _ = r_misc.inline_helpers(u, u.funcs[name])
        # a saved buffer / spec carried in a local struct (`restore.fullstate`, `(&restore)->spec`) is the variable the
        # struct member was defined with
        fn, through = r_misc.resolve_local_structs(u, fn)
        if through:
            resolved_structs[name] = through
        defs = r_misc.local_defs(fn)
        call_dirty = {}
        for c in sorted({cir.callee(x) for x in cir.calls(fn) if cir.callee(x)}):
            if c in ("mj_setState", "mj_getState"):
                continue
            if c in clean and clean[c]:
                call_dirty[c] = set()        # verified to restore everything it perturbs
            else:
                call_dirty[c] = closure_dirty(c, FD)
        rule = SaveRestore(fn, fields, call_dirty, Spec(enum, defs))
        ctx = paths.explore(rule, u, fn)
        clean[name] = not ctx.reports
        summary[name] = {"perturbs": sorted(rule.perturbed),
                         "advancing_calls": {c: sorted(v) for c, v in call_dirty.items() if v}}
        if not rule.perturbed and not any(call_dirty.values()):
            res.ok("R-SAVE-RESTORE", f"{name}:no-perturbation", None)
            continue
        byf = {}
        for r in ctx.reports:
            byf.setdefault((r.get("field"), r.get("kind")), r)
        for f in sorted(rule.perturbed):
            hit = [r for (ff, kk), r in byf.items() if ff in (f, "*")]
            if hit:
                res.bad("R-SAVE-RESTORE", f"{name}:{f}", FD, hit[0]["line"], hit[0]["msg"])
            else:
                res.ok("R-SAVE-RESTORE", f"{name}:{f}", None)
    res.extra["fd_routines"] = summary
    if resolved_structs:
        res.extra["values_resolved_through_local_structs"] = resolved_structs
    res.count("fd_routines", len(order))


# ---------------------------------------------------------------------------------------------------------------
# R-SIBLING-ENUM


def enum_contexts(fn, family):
    """[(enumerator, [statement nodes executed only for that enumerator])] from switch cases, `x == E` branches and
    `if (x != E) continue/return;` prefixes."""
    out = []

    def eq_enum(cond, op):
        s = cir.strip(cond)
        if s is not None and s.get("k") == "BinaryOperator" and s.get("op") == op:
            for x in cir.kids(s):
                x = cir.strip(x)
                if x is not None and x.get("k") == "DeclRefExpr" and (x.get("ref") or {}).get("n") in family:
                    return x["ref"]["n"]
        return None

    def conj_eq(cond):
        s = cir.strip(cond)
        if s is not None and s.get("k") == "BinaryOperator" and s.get("op") == "&&":
            return conj_eq(cir.kids(s)[0]) + conj_eq(cir.kids(s)[1])
        e = eq_enum(cond, "==")
        return [e] if e else []

    def visit(st):
        if st is None:
            return
        k = st.get("k")
        if k == "SwitchStmt":
            c = [x for x in cir.kids(st) if x is not None]
            body = c[-1]
            labels, active = [], []

            def add(s):
                nonlocal active
                if s is None:
                    return
                if s.get("k") == "CaseStmt":
                    lab = cir.text(cir.kids(s)[0])
                    active.append(lab)
                    add(cir.kids(s)[-1])
                elif s.get("k") == "DefaultStmt":
                    active.append("<default>")
                    add(cir.kids(s)[-1])
                else:
                    for lab in active:
                        if lab in family:
                            out.append((lab, [s]))
                    visit(s)
                    if r_misc.ends_path(s) in ("BreakStmt", "ReturnStmt", "ContinueStmt"):
                        active = []
            for s in (cir.kids(body) if body.get("k") == "CompoundStmt" else [body]):
                add(s)
            return
        if k == "IfStmt":
            cond, then, els = r_misc.if_parts(st)
            for e in conj_eq(cond):
                out.append((e, [then]))
            ne = eq_enum(cond, "!=")
            if ne and els is not None:
                out.append((ne, [els]))
            visit(then)
            visit(els)
            return
        if k == "CompoundStmt":
            ks = [x for x in cir.kids(st) if x is not None]
            for i, s in enumerate(ks):
                if s.get("k") == "IfStmt":
                    cond, then, els = r_misc.if_parts(s)
                    ne = eq_enum(cond, "!=")
                    if ne and els is None and r_misc.ends_path(then) in ("ContinueStmt", "ReturnStmt", "BreakStmt"):
                        out.append((ne, ks[i + 1:]))
                visit(s)
            return
        for c in cir.kids(st):
            if c is not None and (c.get("k") or "").endswith("Stmt"):
                visit(c)
    visit(cir.body(fn))
    return out


def velocity_readers(unit, field):
    """functions of the TU whose body (transitively, inside the TU) reads d-><field>"""
    direct = {n for n, fn in unit.funcs.items() if any(True for _ in r_misc.member_nodes(fn, "mjData", field))}
    calls = {n: {cir.callee(c) for c in cir.calls(fn)} for n, fn in unit.funcs.items()}
    out = set(direct)
    changed = True
    while changed:
        changed = False
        for n, cs in calls.items():
            if n not in out and cs & out:
                out.add(n)
                changed = True
    return out


def velocity_dependent(unit, fn, family, field="actuator_velocity"):
    defs = r_misc.local_defs(fn)
    readers = velocity_readers(unit, field) - {fn.get("n")}

    def reads(n, tainted):
        if any(True for _ in r_misc.member_nodes(n, "mjData", field)):
            return True
        for x in cir.walk(n):
            if x.get("k") == "DeclRefExpr" and (x.get("ref") or {}).get("id") in tainted:
                return True
            if cir.is_call(x) and cir.callee(x) in readers:
                return True
        return False
    tainted = set()
    changed = True
    while changed:
        changed = False
        for did, ds in dict.items(defs):
            if did in tainted or not ds:
                continue
            if all(kind in ("init", "assign") and reads(e, tainted) for kind, e in ds):
                tainted.add(did)
                changed = True
    dep = {}
    for e, stmts in enum_contexts(fn, family):
        for s in stmts:
            if reads(s, tainted):
                dep.setdefault(e, s.get("line"))
    return dep


def handled(fn, family):
    out = {}
    for e, stmts in enum_contexts(fn, family):
        for s in stmts:
            if any(r_misc.is_assign(x) for x in cir.walk(s)):
                out.setdefault(e, s.get("line"))
    return out


def sibling_enum(res):
    uf = engine.unit(FWD)
    ud = engine.unit(DER)
    if "mj_fwdActuation" not in uf.funcs:
        raise AnalysisError("anchor mj_fwdActuation missing")
    if "mjd_actuator_vel" not in ud.funcs:
        raise AnalysisError("anchor mjd_actuator_vel missing")
    gains = {n for n, _ in ctypeinfo.enum_values("mjtGain")}
    biases = {n for n, _ in ctypeinfo.enum_values("mjtBias")}
    fwd, inl = r_misc.inline_helpers(uf, uf.funcs["mj_fwdActuation"])
    der, _ = r_misc.inline_helpers(ud, ud.funcs["mjd_actuator_vel"])
    fam = gains | biases
    V = velocity_dependent(uf, fwd, fam)
    H = handled(der, fam)
    ctxs = {e for e, _ in enum_contexts(fwd, fam)}
    if len(ctxs & gains) < 4 or len(ctxs & biases) < 3:
        raise AnalysisError(f"gain/bias dispatch of mj_fwdActuation not recognised (contexts {sorted(ctxs)})")
    res.extra["velocity_dependent_forward"] = sorted(V)
    res.extra["handled_by_mjd_actuator_vel"] = sorted(H)
    dyn = {n for n, _ in ctypeinfo.enum_values("mjtDyn")}
    res.extra["velocity_dependent_dyn_types_not_checked"] = sorted(velocity_dependent(uf, fwd, dyn))
    for e in sorted(V):
        c = f"mj_fwdActuation:{e}"
        if e in H:
            res.ok("R-SIBLING-ENUM", c, {"handled_at": H[e]})
        elif e in COUPLED and COUPLED[e][0] in H:
            res.ok("R-SIBLING-ENUM", c, {"through": COUPLED[e][0], "reason": COUPLED[e][1]})
        else:
            res.bad("R-SIBLING-ENUM", c, FWD, V[e],
                    f"the {e} branch of mj_fwdActuation reads d->actuator_velocity, so the actuator force depends on qvel, but "
                    f"mjd_actuator_vel (engine_derivative.c) has no branch for {e}: d(qfrc_actuator)/d(qvel) misses this term "
                    f"and the implicit integrators / mjd_smooth_vel disagree with finite differences")
    # ---- effective control
    res.rule("R-SIBLING-GUARD", "mjd_actuator_vel uses the control the forward pass used (ctrlrange clamp under mjDSBL_CLAMPCTRL)",
             floor=1)
    fwd_clamps = "actuator_ctrlrange" in r_misc.field_reads(fwd, "mjModel") and "mjDSBL_CLAMPCTRL" in r_misc.enum_refs(fwd)
    if not fwd_clamps:
        raise AnalysisError("mj_fwdActuation no longer references actuator_ctrlrange / mjDSBL_CLAMPCTRL")
    # closure of the derivative inside its TU
    names, work = set(), ["mjd_actuator_vel"]
    while work:
        n = work.pop()
        if n in names or n not in ud.funcs:
            continue
        names.add(n)
        work += [cir.callee(c) for c in cir.calls(ud.funcs[n]) if cir.callee(c)]
    reads_ctrl = [x for n in sorted(names) for x in r_misc.member_nodes(ud.funcs[n], "mjData", "ctrl")]
    if not reads_ctrl:
        res.ok("R-SIBLING-GUARD", "mjd_actuator_vel:ctrl-clamp", {"reads_ctrl": False})
    else:
        has = all(any(fld in r_misc.field_reads(ud.funcs[n], "mjModel") for n in names)
                  for fld in ("actuator_ctrlrange", "actuator_ctrllimited")) and \
            any("mjDSBL_CLAMPCTRL" in r_misc.enum_refs(ud.funcs[n]) for n in names)
        if has:
            res.ok("R-SIBLING-GUARD", "mjd_actuator_vel:ctrl-clamp", {"reads_ctrl": True})
        else:
            res.bad("R-SIBLING-GUARD", "mjd_actuator_vel:ctrl-clamp", DER, reads_ctrl[0].get("line"),
                    f"mjd_actuator_vel multiplies the gain derivative by the raw `{cir.text(reads_ctrl[0])}` and never "
                    f"applies the ctrlrange clamp (no reference to actuator_ctrlrange / mjDSBL_CLAMPCTRL), while "
                    f"mj_fwdActuation computes the force from the clamped copy: for a limited control outside its range "
                    f"the analytic d(qfrc_actuator)/d(qvel) is scaled by the wrong control")


def fd_order(res):
    """R-FD-ORDER: a differencing routine D(out, a, b, h) computes (b - a)/h, so each call D(.., p, q, ..) made with two of the
    caller's own input pointers states "p comes before q".  Within one dispatcher (forward / backward / centred branches on
    which of x+ and x- exist) these statements must be consistent with one order x- < x < x+: a cycle means that some branch
    differences in the opposite direction from its siblings, i.e. one of the schemes returns the derivative with the wrong
    sign.  No names are interpreted: only the acyclicity of the before-relation."""
    u = engine.unit(FD)
    res.rule("R-FD-ORDER", "operand orders of the forward / backward / centred differences of one dispatcher are consistent", floor=2)
    n = 0
    for name, fn in sorted(u.funcs.items()):
        if (fn.get("file") or u.tu) != u.tu:
            continue
        byt = {}
        for p in cir.params(fn):
            if (p.get("t") or "").startswith("const ") and "*" in (p.get("t") or ""):
                byt.setdefault(p.get("t"), {})[p.get("id")] = p.get("n")
        # the sample points: three or more input pointers of one type
        ins = {}
        for t_, d_ in byt.items():
            if len(d_) >= 3:
                ins.update(d_)
        if len(ins) < 3:
            continue
        edges = {}
        for c in cir.calls(fn):
            callee = cir.callee(c)
            if callee is None or callee == name:
                continue
            pos = []
            for i, a in enumerate(cir.args(c)):
                x = cir.strip(a)
                if x is not None and x.get("k") == "DeclRefExpr" and (x.get("ref") or {}).get("id") in ins:
                    pos.append((i, x["ref"]["id"]))
            if len(pos) == 2 and pos[0][1] != pos[1][1]:
                edges.setdefault(callee, []).append((pos[0][1], pos[1][1], c))
        for callee, es in edges.items():
            if len(es) < 3:
                continue
            n += 1
            succ = {}
            for a, b, _c in es:
                succ.setdefault(a, set()).add(b)
            # cycle detection on a tiny graph
            cyc = None
            for a, b, c in es:
                seen, work = set(), [b]
                while work:
                    x = work.pop()
                    if x == a:
                        cyc = c
                        break
                    if x in seen:
                        continue
                    seen.add(x)
                    work.extend(succ.get(x, ()))
                if cyc is not None:
                    break
            key = f"{name}:{callee}"
            if cyc is None:
                res.ok("R-FD-ORDER", key, {"order": [f"{ins[a]} < {ins[b]}" for a, b, _c in es]})
            else:
                order = "; ".join(f"{callee}(.., {ins[a]}, {ins[b]}, ..)" for a, b, _c in es)
                res.bad("R-FD-ORDER", key, FD, cyc.get("line"),
                        f"{name} differences its inputs in contradictory directions ({order}): the branches do not agree on one order "
                        f"of the sample points, so one scheme returns the derivative with the opposite sign of the others")
    if n == 0:
        raise AnalysisError(f"{FD}: no differencing dispatcher (three or more calls of one routine with pairs of input pointers) found")


def skipfactor(res):
    """R-SKIPFACTOR: mj_stepSkip lets an integrator reuse its factorisation (`skipfactor`) when `skipstage >= S`.  The finite-
    difference passes perturb qvel with skipstage = mjSTAGE_POS and ctrl/forces with mjSTAGE_VEL, so a factor that is built
    from velocity-dependent quantities may only be reused from mjSTAGE_VEL on.  Which integrators build such a factor is read
    off the code: the statements an integrator executes only when skipfactor is false (canonical view), with the read sets of
    the functions they call; if they read d->qvel, S must be at least mjSTAGE_VEL."""
    from .. import norm
    ufd = engine.unit(FD)
    uf = engine.unit("src/engine/engine_forward.c")
    st = norm.canon(ufd, "mj_stepSkip", nested=False)
    if st is None:
        raise AnalysisError("mj_stepSkip not found")
    stage_val = dict(ctypeinfo.enum_values("mjtStage"))
    g = callgraph.build(reads=True)
    res.rule("R-SKIPFACTOR", "an integrator's factorisation is reused by the FD stepper only from the stage on after which its "
             "inputs are unchanged", floor=2)
    pstage = [p.get("n") for p in cir.params(st) if (p.get("t") or "") == "int"]
    n = 0
    for c in cir.calls(st):
        name = cir.callee(c)
        fn = uf.funcs.get(name)
        if fn is None or len(cir.args(c)) != 3:
            continue
        a = cir.strip(cir.args(c)[2])
        if a is None or a.get("k") != "BinaryOperator" or a.get("op") not in (">=", ">") or cir.text(cir.kids(a)[0]) not in pstage:
            continue
        thr = stage_val.get(cir.text(cir.kids(a)[1]))
        if thr is None:
            raise AnalysisError(f"mj_stepSkip: threshold `{cir.text(a)}` of {name} is not a stage enumerator")
        if a.get("op") == ">":
            thr += 1
        n += 1
        view = norm.canon(uf, name, exclude=("mj_advance",))
        body = cir.body(view)
        sp = [p.get("n") for p in cir.params(view) if (p.get("t") or "") == "int"]
        if len(sp) != 1:
            raise AnalysisError(f"{name}: skipfactor parameter not identified")
        reads = set()
        nreg = 0
        for x in cir.walk(body):
            gs = [(cir.text(c_), p_) for c_, p_ in (norm.guards(body, x) or [])]
            if (sp[0], False) not in gs:
                continue
            nreg += 1
            if x.get("k") == "MemberExpr" and x.get("arrow") and "mjData" in ((cir.strip(cir.kids(x)[0]) or {}).get("t") or ""):
                reads.add(x.get("n"))
            if cir.is_call(x):
                k_ = g.resolve(uf.tu, cir.callee(x)) if cir.callee(x) else None
                if k_ is not None:
                    from .. import r_fresh
                    reads |= set(r_fresh.summary(g, k_)[0])
        if nreg == 0:
            raise AnalysisError(f"{name}: no statement guarded by !{sp[0]} found")
        need = stage_val["mjSTAGE_VEL"] if "qvel" in reads else stage_val["mjSTAGE_POS"]
        key = f"mj_stepSkip:{name}"
        if thr >= need:
            res.ok("R-SKIPFACTOR", key, {"threshold": cir.text(cir.kids(a)[1]), "factor_reads_qvel": "qvel" in reads})
        else:
            res.bad("R-SKIPFACTOR", key, FD, c.get("line"),
                    f"mj_stepSkip lets {name} reuse its factorisation for `{cir.text(a)}`, but what {name} builds when it does not "
                    f"reuse it reads d->qvel: in the velocity-perturbation pass of the FD routines (skipstage = mjSTAGE_POS) the "
                    f"nudged steps use the factor of the unperturbed velocity, so the velocity columns of A differ from direct "
                    f"perturbation of mj_step")
    if n < 2:
        raise AnalysisError(f"mj_stepSkip: only {n} integrator calls with a `skipstage >= S` argument found")



# ---------------------------------------------------------------------------------------------------------------
# R-ZERO-SKIP

def _float_local(e):
    e = cir.strip(e)
    if e is not None and e.get("k") == "DeclRefExpr" and (e.get("ref") or {}).get("k") == "VarDecl" and \
            any(t in ((e.get("ref") or {}).get("t") or e.get("t") or "") for t in ("mjtNum", "double", "float")) and \
            "*" not in ((e.get("ref") or {}).get("t") or "") and "[" not in ((e.get("ref") or {}).get("t") or ""):
        return e["ref"].get("id"), e["ref"].get("n")
    return None


def _slice_to(root, site):
    """the straight-line slice of `root` that reaches `site`: statements preceding it in every enclosing block, descending
    only into the branch / loop body that contains it (conditions on the way are not evaluated)."""
    par = {}
    for x in cir.walk(root):
        for c in cir.kids(x):
            if c is not None:
                par[id(c)] = x
    chain = [site]
    while id(chain[-1]) in par:
        chain.append(par[id(chain[-1])])
    chain.reverse()
    out = []
    for parent, child in zip(chain, chain[1:]):
        k = parent.get("k")
        if k == "CompoundStmt":
            for st in cir.kids(parent):
                if st is child:
                    break
                if st is not None:
                    out.append(st)
        elif k == "ForStmt":
            init = cir.kids(parent)[0] if cir.kids(parent) else None
            if init is not None and init is not child:
                out.append(init)
    return out


def _var_ids(n, kinds=("VarDecl",)):
    return {(x.get("ref") or {}).get("id") for x in cir.walk(n) if x.get("k") == "DeclRefExpr" and (x.get("ref") or {}).get("k") in kinds}


def _defs_of(st):
    """local variables a statement may define: declared, assigned, incremented, or handed to a call by address / as an array"""
    out = set()
    for x in cir.walk(st):
        k = x.get("k")
        if k == "VarDecl":
            out.add(x.get("id"))
        elif (k == "BinaryOperator" and x.get("op") == "=") or k == "CompoundAssignOperator" or \
                (k == "UnaryOperator" and x.get("op") in ("++", "--")):
            t = cir.strip(cir.kids(x)[0])
            while t is not None and t.get("k") in ("ArraySubscriptExpr", "MemberExpr"):
                t = cir.strip(cir.kids(t)[0])
            if t is not None and t.get("k") == "DeclRefExpr":
                out.add((t.get("ref") or {}).get("id"))
        elif cir.is_call(x):
            for a in cir.args(x):
                a2 = cir.strip(a)
                if a2 is not None and a2.get("k") == "UnaryOperator" and a2.get("op") == "&":
                    a2 = cir.strip(cir.kids(a2)[0])
                if a2 is not None and a2.get("k") == "DeclRefExpr" and (a2.get("ref") or {}).get("k") == "VarDecl" and \
                        ("[" in ((a2.get("ref") or {}).get("t") or "") or "*" in ((a2.get("ref") or {}).get("t") or "") or
                         cir.strip(a) is not a2):
                    out.add(a2["ref"].get("id"))
    return out


def _relevant(stmts, vals, xid):
    """backward data slice of a straight-line statement list for the variables of `vals` and the tested variable"""
    need = {xid}
    for v in vals:
        need |= _var_ids(v)
    keep = []
    for st in reversed(stmts):
        d = _defs_of(st)
        if d & need:
            keep.append(st)
            need |= _var_ids(st)
    keep.reverse()
    return keep


def _zinterp(ns, env):
    """finite.Interp + local arrays and stores to memory cells (a private store), and the copy / zero primitives"""
    from .. import finite

    class Z(finite.Interp):
        def __init__(self):
            super().__init__(ns, env=env, inline=None, max_steps=200000, call_abs=self._abs)
            self.mem = {}

        def _local_array(self, n):
            x = cir.strip(n, casts=False)
            if x is not None and x.get("k") == "DeclRefExpr" and (x.get("ref") or {}).get("k") in ("VarDecl",) and \
                    "[" in ((x.get("ref") or {}).get("t") or ""):
                return finite.Ptr(f"{x['ref'].get('n')}${x['ref'].get('id')}", 0)
            return None

        def rvalue(self, n):
            if n is not None and n.get("k") == "DeclRefExpr":
                p = self._local_array(n)
                if p is not None:
                    return p
            return super().rvalue(n)

        def _cast(self, n):
            if n.get("ck") == "ArrayToPointerDecay":
                p = self._local_array(cir.kids(n)[0])
                if p is not None:
                    return p
            return super()._cast(n)

        def stmt(self, n):
            if n is not None and n.get("k") == "DeclStmt":
                for d in cir.kids(n):
                    if d is not None and d.get("k") == "VarDecl" and "[" in (d.get("t") or ""):
                        init = [c for c in cir.kids(d) if c is not None and c.get("k") == "InitListExpr"]
                        if init:
                            for i, c in enumerate(cir.kids(init[0])):
                                if c is not None:
                                    self.mem[f"{d.get('n')}${d.get('id')}[{i}]"] = self.rvalue(c)
                            if d.get("t", "").rstrip("]").split("[")[-1].isdigit():
                                for i in range(len(cir.kids(init[0])), int(d.get("t").rstrip("]").split("[")[-1])):
                                    self.mem[f"{d.get('n')}${d.get('id')}[{i}]"] = 0.0
                        self.frames[-1][d.get("id")] = finite._UNINIT
                        return
            return super().stmt(n)

        def load(self, loc):
            if loc[0] == "mem" and loc[1] in self.mem:
                return self.mem[loc[1]]
            return super().load(loc)

        def store(self, loc, v):
            if loc[0] == "mem":
                self.mem[loc[1]] = v
                return
            super().store(loc, v)

        def _abs(self, name, node, it):
            if name in ("mju_copy", "mju_copy3", "mju_copyInt", "memcpy"):
                a = cir.args(node)
                d, s_ = self.rvalue(a[0]), self.rvalue(a[1])
                nn = 3 if name == "mju_copy3" else self.rvalue(a[2])
                nn = nn.count if isinstance(nn, finite._Bytes) else nn
                if isinstance(d, finite.Ptr) and isinstance(s_, finite.Ptr) and isinstance(nn, int) and nn < 64:
                    for i in range(nn):
                        key = s_.cell(i)
                        self.mem[d.cell(i)] = self.mem[key] if key in self.mem else self.input(key, "mjtNum")
                    return d
                raise finite.Unsupported(f"{name} with symbolic length at line {node.get('line')}")
            if name in ("mju_zero", "mju_zero3"):
                a = cir.args(node)
                d = self.rvalue(a[0])
                nn = 3 if name == "mju_zero3" else self.rvalue(a[1])
                if isinstance(d, finite.Ptr) and isinstance(nn, int) and nn < 64:
                    for i in range(nn):
                        self.mem[d.cell(i)] = 0.0
                    return None
                raise finite.Unsupported(f"{name} with symbolic length at line {node.get('line')}")
            if name in ("fabs", "fabsf", "__builtin_fabs", "mju_abs"):
                v = self.rvalue(cir.args(node)[0])
                return abs(v)
            if name in ("sqrt", "mju_sqrt", "exp", "mju_exp", "log", "mju_log", "sin", "cos", "mju_sin", "mju_cos", "pow", "mju_pow",
                        "mju_max", "mju_min", "fmax", "fmin"):
                import math
                vs = [self.rvalue(a_) for a_ in cir.args(node)]
                f_ = {"sqrt": math.sqrt, "mju_sqrt": math.sqrt, "exp": math.exp, "mju_exp": math.exp, "log": math.log,
                      "mju_log": math.log, "sin": math.sin, "cos": math.cos, "mju_sin": math.sin, "mju_cos": math.cos,
                      "pow": math.pow, "mju_pow": math.pow, "mju_max": max, "mju_min": min, "fmax": max, "fmin": min}[name]
                try:
                    return f_(*vs)
                except (ValueError, OverflowError):
                    raise finite.Unsupported(f"{name} outside its domain at generic inputs")
            if name in paths.NORETURN or (name or "").startswith("mju_error") or (name or "").startswith("mju_warning"):
                raise finite.Unsupported(f"error path reached ({name})")
            return NotImplemented
    return Z()


def zero_skip(res):
    """R-ZERO-SKIP: in the analytic-derivative routines, an accumulation into qDeriv may be skipped on `X == 0` only if the
    accumulated value vanishes whenever X does.  Either X is the accumulated value itself, or the value — re-evaluated from the
    statements that define it, with X forced to 0 and every other input generic — is zero.  (Evaluation of the defining
    statements by the finite interpreter at generic inputs: a non-zero result is a witness that the skip drops a term.)"""
    from types import SimpleNamespace
    from .. import finite, norm
    res.rule("R-ZERO-SKIP", "a derivative accumulation skipped on `X == 0` vanishes whenever X does (X is the accumulated value, or "
             "the value re-evaluated with X = 0 at generic inputs is 0)", floor=2)
    g = callgraph.build()
    u = engine.unit(DER)
    merged = {}
    for tu in engine.engine_tus():
        merged.update(engine.unit(tu).funcs)
    ns = SimpleNamespace(funcs=merged, vars={}, tu=DER)

    def writes_qderiv(name):
        k = g.find(name) if name else None
        if k is None:
            return False
        for k2 in g.closure([k]):
            for e in g.funcs[k2]["events"]:
                if e["struct"] == "mjData" and e["field"] == "qDeriv" and e["kind"] in ("elem", "pass", "alias", "addr"):
                    return True
        return False

    nsite = 0
    for fname, fn in sorted(u.funcs.items()):
        if (fn.get("file") or u.tu) != u.tu or not any("mjData" in (p.get("t") or "") for p in cir.params(fn)):
            continue
        if not any("qDeriv" in cir.text(x) for x in cir.walk(fn) if x.get("k") == "MemberExpr") and \
                not any(writes_qderiv(cir.callee(c)) for c in cir.calls(fn) if cir.callee(c) in u.funcs):
            continue
        view = norm.nest(fn, fatal=True)
        sites = []
        for x in cir.walk(view):
            if x.get("k") == "CompoundAssignOperator" and "->qDeriv[" in cir.text(cir.kids(x)[0]):
                sites.append((x, [cir.kids(x)[1]]))
            elif cir.is_call(x) and cir.callee(x) in u.funcs and cir.callee(x) != fname and writes_qderiv(cir.callee(x)):
                vals = []
                for a in cir.args(x):
                    a2 = cir.strip(a)
                    if a2 is not None and a2.get("k") == "UnaryOperator" and a2.get("op") == "&" and _float_local(cir.kids(a2)[0]):
                        vals.append(cir.kids(a2)[0])
                    elif _float_local(a):
                        vals.append(a)
                if vals:
                    sites.append((x, vals))
        for site, vals in sites:
            atoms = []
            for cond, pol in norm.guards(view, site) or []:
                fl = _float_local(cond)
                if fl is not None and pol:
                    atoms.append((fl, cond))
            seen_atoms = set()
            for (xid, xname), cond in atoms:
                if xid in seen_atoms:
                    continue
                seen_atoms.add(xid)
                nsite += 1
                construct = f"{fname}:skip-on-{xname}"
                if any((_float_local(v) or (None,))[0] == xid for v in vals):
                    res.ok("R-ZERO-SKIP", construct, {"line": site.get("line"), "why": "the test is on the accumulated value itself"})
                    continue
                slice_ = _relevant(_slice_to(cir.body(view), site), vals, xid)
                witness = None
                undecided = None
                for generic in (1.0, 0.75):
                    env = {}
                    for _attempt in range(400):
                        it = _zinterp(ns, env)
                        frame = {}
                        for p in cir.params(fn):
                            frame[p.get("id")] = finite.Ptr(p.get("n"), 0) if "*" in (p.get("t") or "") else finite._LazyScalar(p.get("n"), p.get("t"))
                        it.frames.append(frame)
                        try:
                            for st in slice_:
                                try:
                                    it.stmt(st)
                                except (finite._Continue, finite._Break, finite._Return):
                                    pass
                                if xid in it.frames[-1]:
                                    it.frames[-1][xid] = 0.0
                            if xid not in it.frames[-1]:
                                undecided = f"`{xname}` is not defined before the accumulation on the straight-line path"
                                break
                            vs = [it.rvalue(v) for v in vals]
                            if any(isinstance(v, (int, float)) and v == v and v != 0 for v in vs):
                                witness = (generic, [cir.text(v) for v in vals], vs)
                            break
                        except finite.NeedKey as nk:
                            t = nk.ctype or ""
                            env[nk.key] = generic if finite.is_float_type(finite.base_type(t)) or "mjtNum" in t else \
                                (0 if ("flg" in nk.key or "sleep" in nk.key or "disable" in nk.key) else 1)
                        except finite.Unsupported as e:
                            undecided = str(e)
                            break
                    else:
                        undecided = "too many inputs"
                    if witness or undecided:
                        break
                if witness:
                    res.bad("R-ZERO-SKIP", construct, DER, site.get("line"),
                            f"{fname} skips the accumulation `{cir.text(site)[:60]}` when `{xname}` is zero, but with {xname} = 0 and every "
                            f"other input set to {witness[0]} the accumulated value {witness[1]} evaluates to {witness[2]}: a term of "
                            f"the derivative is dropped although the force it differentiates is not zero")
                elif undecided:
                    raise AnalysisError(f"{fname}: cannot evaluate what `{cir.text(site)[:50]}` accumulates when {xname} = 0 ({undecided})")
                else:
                    res.ok("R-ZERO-SKIP", construct, {"line": site.get("line"), "why": "value vanishes with the tested variable at generic inputs"})
    res.count("zero_skip_guards", nsite)
    if nsite < 2:
        raise AnalysisError(f"only {nsite} zero-test skip guards of qDeriv accumulations found in {DER}")


def run(res, tier):
    g = callgraph.build()
    res.rule("R-SAVE-RESTORE", "FD routines undo every perturbation of their input on all paths", floor=9)
    save_restore(res, g)
    res.rule("R-SIBLING-ENUM", "velocity-dependent gain/bias types of mj_fwdActuation are handled by mjd_actuator_vel", floor=6)
    sibling_enum(res)
    fd_order(res)
    skipfactor(res)
    zero_skip(res)
    res.explanation = (
        "All-paths typestate (dirty input components, saved scalars/buffers/state vectors) over the mjd_* routines of "
        "engine_derivative_fd.c with the state components taken from the mjtState tables and the effect of stepping "
        "calls from whole-engine mod sets; data-dependence of the gain/bias branches of mj_fwdActuation on "
        "actuator_velocity compared with the branches of mjd_actuator_vel; effective-control agreement.")
    res.not_decided = ("numerical agreement of analytic and finite-difference derivatives; passive forces (mj_passive has no "
                       "enumerator dispatch to compare exactly); mjtDyn dependence through act_dot; plugin state; "
                       "an autoreset (mj_resetData) triggered inside an FD step.")
    res.assumptions = ["error handlers do not return", "writes through local aliases inside callees are not followed",
                       "no autoreset fires during finite differencing",
                       "compiler couplings: " + "; ".join(f"{a} <=> {b[0]}" for a, b in COUPLED.items())]


# the step / record / restore sequence wrapped in a static helper that receives the saved buffer and its spec in a struct
_ANCHOR_ENTRY = "//------------------------- main entry points"
_HELPER = ("typedef struct {\n  const mjtNum* fullstate;\n  unsigned int spec;\n  int skipsensor;\n} FDRestore;\n\n"
           "static void stepNudged(const mjModel* m, mjData* d, const FDRestore* restore, mjtStage skipstage,\n"
           "                       mjtNum* next, mjtNum* sensor) {\n"
           "  mj_stepSkip(m, d, skipstage, restore->skipsensor);\n  getState(m, d, next, sensor);\n"
           "  mj_setState(m, d, restore->fullstate, restore->spec);\n}\n\n")
_SEQ_PLUS = ("        mj_stepSkip(m, d, mjSTAGE_VEL, skipsensor);\n        getState(m, d, next_plus, sensor_plus);\n\n"
             "        // reset\n        mj_setState(m, d, fullstate, restore_spec);\n")
_SEQ_MINUS = ("        mj_stepSkip(m, d, mjSTAGE_VEL, skipsensor);\n        getState(m, d, next_minus, sensor_minus);\n\n"
              "        // reset\n        mj_setState(m, d, fullstate, restore_spec);\n")
_SAVED = "  getState(m, d, state, NULL);\n"


def _struct_helper_edits(decl, by_value=False):
    helper = _HELPER if not by_value else _HELPER.replace("const FDRestore* restore", "FDRestore restore").replace("restore->", "restore.")
    arg = "restore" if by_value else "&restore"
    return [(FD, _ANCHOR_ENTRY, helper + _ANCHOR_ENTRY), (FD, _SAVED, _SAVED + decl),
            (FD, _SEQ_PLUS, f"        stepNudged(m, d, {arg}, mjSTAGE_VEL, next_plus, sensor_plus);\n"),
            (FD, _SEQ_MINUS, f"        stepNudged(m, d, {arg}, mjSTAGE_VEL, next_minus, sensor_minus);\n", 2)]


MUTANTS = [
    {"id": "zero-skip-on-linear-coefficient", "expect": ("R-ZERO-SKIP", "mjd_passive_vel:skip-on-damping"),
     "edits": [(DER, "    if (!B) {\n      continue;\n    }\n\n    // add sparse\n    addJTBJSparse(m, d, d->ten_J, &B",
                "    if (!damping) {\n      continue;\n    }\n\n    // add sparse\n    addJTBJSparse(m, d, d->ten_J, &B")]},
    {"id": "zero-skip-on-velocity", "expect": ("R-ZERO-SKIP", "mjd_passive_vel:skip-on-v"),
     "edits": [(DER, "    if (!B) {\n      continue;\n    }\n\n    // add sparse\n    addJTBJSparse(m, d, d->ten_J, &B",
                "    if (v == 0) {\n      continue;\n    }\n\n    // add sparse\n    addJTBJSparse(m, d, d->ten_J, &B")]},
    {"id": "ctl-zero-skip-multiplicative", "expect": None,
     "edits": [(DER, "    mjtNum B = -mjd_xPolyForce(damping, poly, v, mjNPOLY, 1);\n\n    if (!B) {\n      continue;\n    }",
                "    mjtNum scale = 1;\n    mjtNum B = -scale * mjd_xPolyForce(damping, poly, v, mjNPOLY, 1);\n\n    if (scale == 0) {\n      continue;\n    }\n    if (!B) {\n      continue;\n    }")]},
    {"id": "ctl-zero-skip-positive-form", "expect": None,
     "edits": [(DER, "    if (!B) {\n      continue;\n    }\n\n    // add sparse\n    addJTBJSparse(m, d, d->ten_J, &B, 1, i, m->ten_J_rownnz, m->ten_J_rowadr, m->ten_J_colind);",
                "    if (B != 0) {\n      addJTBJSparse(m, d, d->ten_J, &B, 1, i, m->ten_J_rownnz, m->ten_J_rowadr, m->ten_J_colind);\n    }")]},
    {"id": "struct-helper-other-spec", "expect": ("R-SAVE-RESTORE", "mjd_stepFD"),
     "edits": _struct_helper_edits("  const FDRestore restore = {fullstate, mjSTATE_FULLPHYSICS, skipsensor};\n")},
    {"id": "struct-helper-spec-widened-after", "expect": ("R-SAVE-RESTORE", "mjd_stepFD"),
     "edits": [(FD, "  mj_getState(m, d, fullstate, restore_spec);\n  mju_copy(ctrl, d->ctrl, nu);",
                "  const FDRestore restore = {fullstate, restore_spec, skipsensor};\n  restore_spec |= mjSTATE_USERDATA;\n"
                "  mj_getState(m, d, fullstate, restore_spec);\n  mju_copy(ctrl, d->ctrl, nu);")] +
     [e for e in _struct_helper_edits("") if e[1] != _SAVED]},
    {"id": "struct-helper-field-overwritten", "expect": ("R-SAVE-RESTORE", "mjd_stepFD"),
     "edits": _struct_helper_edits("  FDRestore restore;\n  restore.fullstate = fullstate;\n  restore.spec = restore_spec;\n"
                                   "  restore.skipsensor = skipsensor;\n  if (flg_centered) restore.spec = mjSTATE_QPOS;\n")},
    {"id": "ctl-struct-helper", "expect": None,
     "edits": _struct_helper_edits("  const FDRestore restore = {fullstate, restore_spec, skipsensor};\n")},
    {"id": "ctl-struct-helper-fieldwise-by-value", "expect": None,
     "edits": _struct_helper_edits("  FDRestore restore;\n  restore.fullstate = fullstate;\n  restore.spec = restore_spec;\n"
                                   "  restore.skipsensor = skipsensor;\n", by_value=True)},
    {"id": "drop-restore-ctrl", "expect": ("R-SAVE-RESTORE", "mjd_stepFD:"),
     "edits": [(FD, "        getState(m, d, next_minus, sensor_minus);\n\n        // reset\n        mj_setState(m, d, fullstate, restore_spec);\n      }\n\n      // difference states\n      if (DyDu) {",
                "        getState(m, d, next_minus, sensor_minus);\n      }\n\n      // difference states\n      if (DyDu) {")]},
    {"id": "spec-misses-ctrl", "expect": ("R-SAVE-RESTORE", "mjd_stepFD:ctrl"),
     "edits": [(FD, "  unsigned int restore_spec = mjSTATE_FULLPHYSICS | mjSTATE_CTRL;", "  unsigned int restore_spec = mjSTATE_FULLPHYSICS;")]},
    {"id": "spec-misses-time", "expect": ("R-SAVE-RESTORE", "mjd_stepFD:time"),
     "edits": [(FD, "  unsigned int restore_spec = mjSTATE_FULLPHYSICS | mjSTATE_CTRL;", "  unsigned int restore_spec = mjSTATE_QPOS | mjSTATE_QVEL | mjSTATE_ACT | mjSTATE_PLUGIN | mjSTATE_HISTORY | mjSTATE_CTRL;")]},
    {"id": "restore-other-spec", "expect": ("R-SAVE-RESTORE", "mjd_stepFD"),
     "edits": [(FD, "  // restore input\n  mj_setState(m, d, fullstate, restore_spec);", "  // restore input\n  mj_setState(m, d, fullstate, mjSTATE_FULLPHYSICS);")]},
    {"id": "inverse-drop-qvel-restore", "expect": ("R-SAVE-RESTORE", "mjd_inverseFD:qvel"),
     "edits": [(FD, "      // restore\n      d->qvel[i] = tmp;\n", "")]},
    {"id": "inverse-drop-qpos-restore", "expect": ("R-SAVE-RESTORE", "mjd_inverseFD:qpos"),
     "edits": [(FD, "      // restore\n      mju_copy(d->qpos, pos, nq);\n", "")]},
    {"id": "inverse-short-copyback", "expect": ("R-SAVE-RESTORE", "mjd_inverseFD:qpos"),
     "edits": [(FD, "      mju_copy(d->qpos, pos, nq);", "      mju_copy(d->qpos, pos, nv);")]},
    {"id": "velfd-drop-restore", "expect": ("R-SAVE-RESTORE", "mjd_smooth_velFD:qvel"),
     "edits": [(FD, "    // restore qvel[i]\n    d->qvel[i] = saveqvel;\n\n    // finite difference result in fd\n    mju_sub(fd, plus, minus, nv);",
                "    // finite difference result in fd\n    mju_sub(fd, plus, minus, nv);")]},
    {"id": "gain-fixed-velocity", "expect": ("R-SIBLING-ENUM", "mjGAIN_FIXED"),
     "edits": [(FWD, "    case mjGAIN_FIXED:              // fixed gain: prm = gain\n      gain = gainprm[0];",
                "    case mjGAIN_FIXED:              // fixed gain: prm = gain\n      gain = gainprm[0] + gainprm[2]*d->actuator_velocity[oadr];")]},
    {"id": "bias-muscle-velocity-helper", "expect": ("R-SIBLING-ENUM", "mjBIAS_MUSCLE"),
     "edits": [(FWD, "// clamp vector to range\nstatic void clampVec(", "static mjtNum tendonRate(const mjData* d, int adr) {\n  return d->actuator_velocity[adr];\n}\n\n// clamp vector to range\nstatic void clampVec("),
               (FWD, "                             biasprm);\n      break;", "                             biasprm) - 0.1*tendonRate(d, oadr);\n      break;")]},
    {"id": "derivative-drop-dcmotor-bias", "expect": ("R-SIBLING-ENUM", "mjBIAS_DCMOTOR"),
     "edits": [(DER, "    else if (m->actuator_biastype[i] == mjBIAS_DCMOTOR) {", "    else if (0) {")]},
    # controls
    {"id": "ctl-rename-saved", "expect": None,
     "edits": [(FD, "      mjtNum tmp = d->qvel[i];\n      d->qvel[i] += eps;", "      mjtNum vsave = d->qvel[i];\n      d->qvel[i] += eps;"),
               (FD, "      // restore\n      d->qvel[i] = tmp;", "      // restore\n      d->qvel[i] = vsave;")]},
    {"id": "ctl-derivative-switch", "expect": None,
     "edits": [(DER, "    // affine gain\n    if (m->actuator_gaintype[i] == mjGAIN_AFFINE) {\n      // extract bias info: prm = [const, kp, kv]\n      gain_vel = (m->actuator_gainprm + mjNGAIN*i)[2];\n    }\n\n    // muscle gain\n    else if",
                "    // affine gain\n    mjtGain gtype = (mjtGain) m->actuator_gaintype[i];\n    if (mjGAIN_AFFINE == gtype) {\n      gain_vel = (m->actuator_gainprm + mjNGAIN*i)[2];\n    }\n\n    // muscle gain\n    else if")]},
    {"id": "fix-derivative-ctrl-clamp", "expect": None, "fixes": [("R-SIBLING-GUARD", "mjd_actuator_vel:ctrl-clamp")],
     "edits": [(DER, "        bias_vel += gain_vel * d->ctrl[uadr];",
                "        mjtNum u = d->ctrl[uadr];\n        if (!mjDISABLED(mjDSBL_CLAMPCTRL) && m->actuator_ctrllimited[uadr]) {\n"
                "          u = mju_clip(u, m->actuator_ctrlrange[2*uadr], m->actuator_ctrlrange[2*uadr+1]);\n        }\n"
                "        bias_vel += gain_vel * u;")]},
    {"id": "ctl-extract-restore-helper", "expect": None,
     "edits": [(FD, "// compute qfrc_inverse, optionally subtracting qfrc_actuator\nstatic void inverseSkip(",
                "static void restoreQpos(mjData* d, const mjtNum* pos, int nq) {\n  mju_copy(d->qpos, pos, nq);\n}\n\n"
                "// compute qfrc_inverse, optionally subtracting qfrc_actuator\nstatic void inverseSkip("),
               (FD, "      // restore\n      mju_copy(d->qpos, pos, nq);\n", "      // restore\n      restoreQpos(d, pos, nq);\n")]},
]


def selftest(res):
    r_misc.run_mutants("C25", res, MUTANTS)
