"""C48 System-identification signal transforms are pure.

Decides, for every function and method of signal_modifier.py, signal_transform.py and timeseries.py
(python/mujoco/sysid/_src), by an alias/mutation analysis of the source (sa.pyalias; nothing is executed):

R-PURITY   every in-place operation (subscript store/delete, augmented assignment, attribute store,
           in-place method, numpy in-place function, `out=` argument, MuJoCo C-API output argument) is
           applied to a value that cannot be (a view of) memory owned by a parameter: not the parameter,
           not an attribute of it, not a basic slice / asarray / reshape of it, and not a field of an
           object that was constructed from it by a class that stores its arguments un-copied
           (TimeSeries is a frozen dataclass without copying: derived from its class body).
R-NEWOBJ   the modifiers (functions of signal_modifier.py and instance methods of TimeSeries that are
           annotated to return a TimeSeries) return a newly constructed object on every path, never the
           object passed in.
R-FALSY-NUMERIC  no *truthiness* use (`x or y`, `x and y`, `if x`, `if not x`, `y if x else z`, `while x`, `assert x`,
           comprehension `if x`, `bool(x)`, `filter(None, xs)`, `any(xs)`/`all(xs)`) of a value whose static type is
           numeric or Optional[numeric].  Types come from annotations only (parameters, annotated locals, class
           fields, return annotations of functions of the three modules) propagated through simple assignment,
           `.get(k)` / subscripts / iteration / `.items()` / `.values()` of annotated containers and tuple unpacking:
           such values are settings the caller supplies (delay, gain, bias, weight, time) for which zero is legal
           and must not be read as "absent" (a 0.0 per-sensor delay override silently becoming the default breaks
           "grouped per-sensor delays give exactly the column-by-column result").  Truthiness of containers,
           strings, bools, non-numeric optionals, explicit `.size`/`len()` tests and values of unknown type are
           not reported.
Does not decide: interpolation values, column-by-column equality of the grouped resampling beyond the clause above,
truthiness of values whose type cannot be derived from annotations (computed numbers, unannotated attributes such as
Parameter.value).
"""
from __future__ import annotations

import ast

from .. import pyalias
from ..cfront import AnalysisError

FILES = [
    "python/mujoco/sysid/_src/signal_modifier.py",
    "python/mujoco/sysid/_src/signal_transform.py",
    "python/mujoco/sysid/_src/timeseries.py",
]

# `self` of these classes is the receiver of a builder/registration method, not a time series or array
# passed in: the property quantifies over series and arrays given to the modifiers.
EXEMPT_RECEIVERS = {
    "SignalTransform": "declarative registry of transforms (delay/gain/bias/enable_sensors append to it by design); "
                       "it holds no series data",
}

# hand-confirmed on the pinned tree (see the enumeration in the final report of the checker's author)
FLOOR_FUNCTIONS = 52      # 13 signal_modifier + 12 SignalTransform + 7 module-level timeseries + 20 TimeSeries
FLOOR_SITES = 49          # classified in-place sites (subscript stores, augmented assignments, in-place methods, self.x=)
FLOOR_NEWOBJ = 8          # apply_bias/gain/delay/time_window/delayed_ts_window/resample_and_delay, resample, remove_from_beginning
ANCHORS = {"apply_bias", "apply_gain", "apply_delay", "apply_time_window", "apply_resample_and_delay",
           "TimeSeries.resample", "TimeSeries.interpolate", "SignalTransform.apply"}

FLOOR_TRUTH = 31          # truthiness sites (leaf operands in a boolean context that are not comparisons), hand-counted

SERIES_CLASS = "TimeSeries"

# ------------------------------------------------------------------------------------------------
# R-FALSY-NUMERIC: annotation-derived types

NUM, BOOL, STR, OTHER = "num", "bool", "str", "other"
NUMERIC_LEAVES = {"float", "int", "complex", "floating", "integer", "float64", "float32", "int64", "int32", "number",
                  "Real", "Number"}
MAP_HEADS = {"dict", "Dict", "Mapping", "MutableMapping", "OrderedDict", "defaultdict"}
SEQ_HEADS = {"list", "List", "Sequence", "MutableSequence", "Iterable", "Iterator", "Collection", "set", "Set",
             "frozenset", "FrozenSet", "deque"}


def ann_type(a):
    """annotation AST -> NUM | BOOL | STR | OTHER | ("map", V) | ("seq", E) | ("tuple", [..]) | None (unknown).
    Optional[T] / T | None has the type of T (truthiness conflates None and zero: still a report for numerics)."""
    if a is None:
        return None
    if isinstance(a, ast.Constant):
        if isinstance(a.value, str):
            try:
                return ann_type(ast.parse(a.value, mode="eval").body)
            except SyntaxError:
                return None
        return "none" if a.value is None else None
    if isinstance(a, ast.BinOp) and isinstance(a.op, ast.BitOr):
        return union_type([ann_type(a.left), ann_type(a.right)])
    if isinstance(a, ast.Subscript):
        head = pyalias._dotted(a.value).split(".")[-1]
        args = a.slice.elts if isinstance(a.slice, ast.Tuple) else [a.slice]
        if head == "Optional":
            return union_type([ann_type(args[0]), "none"])
        if head == "Union":
            return union_type([ann_type(x) for x in args])
        if head in MAP_HEADS:
            return ("map", ann_type(args[1]) if len(args) == 2 else None)
        if head in SEQ_HEADS:
            return ("seq", ann_type(args[0]))
        if head in ("tuple", "Tuple"):
            if len(args) == 2 and isinstance(args[1], ast.Constant) and args[1].value is Ellipsis:
                return ("seq", ann_type(args[0]))
            return ("tuple", [ann_type(x) for x in args])
        return OTHER
    d = pyalias._dotted(a)
    leaf = d.split(".")[-1] if d else ""
    if leaf == "bool":
        return BOOL
    if leaf == "str":
        return STR
    if leaf in NUMERIC_LEAVES:
        return NUM
    if leaf in MAP_HEADS:
        return ("map", None)
    if leaf in SEQ_HEADS or leaf in ("tuple", "Tuple"):
        return ("seq", None)
    if leaf in ("None", "NoneType"):
        return "none"
    return OTHER if leaf else None


def union_type(ts):
    core = [t for t in ts if t != "none"]
    if not core:
        return OTHER
    if any(t is None for t in core):
        return None
    first = core[0]
    if all(t == first for t in core):
        return first
    if all(t == NUM for t in core):
        return NUM
    return OTHER          # e.g. Mapping[str, float] | np.ndarray: not a numeric scalar


class Typer:
    """flow-insensitive, annotation-derived types of the names of one function"""

    def __init__(self, prog, f):
        self.prog, self.f = prog, f
        self.env = {}
        for p, a in f.ann.items():
            t = ann_type(a)
            if t is not None:
                self.env[p] = t
        self.cls_fields = {}
        if f.cls is not None:
            self.cls_fields = class_field_types(f.cls)
        # annotated locals win; otherwise a local has a type when all its simple assignments agree
        annotated = set(self.env)
        for _ in range(4):
            cand = {}
            for n in own_nodes(f.node):
                if isinstance(n, ast.AnnAssign) and isinstance(n.target, ast.Name):
                    t = ann_type(n.annotation)
                    if t is not None:
                        self.env[n.target.id] = t
                        annotated.add(n.target.id)
                elif isinstance(n, ast.Assign):
                    for tg in n.targets:
                        self.bind(tg, self.typeof(n.value), cand)
                elif isinstance(n, (ast.For, ast.comprehension)):
                    self.bind(n.target, self.elem(self.typeof(n.iter), n.iter), cand)
                elif isinstance(n, ast.AugAssign) and isinstance(n.target, ast.Name):
                    cand.setdefault(n.target.id, []).append(None)
            changed = False
            for k, ts in cand.items():
                if k in annotated:
                    continue
                t = ts[0] if ts and all(x == ts[0] for x in ts) else None
                if self.env.get(k) != t:
                    changed = True
                    if t is None:
                        self.env.pop(k, None)
                    else:
                        self.env[k] = t
            if not changed:
                break

    def bind(self, tg, t, cand):
        if isinstance(tg, ast.Name):
            cand.setdefault(tg.id, []).append(t)
        elif isinstance(tg, (ast.Tuple, ast.List)):
            for i, e in enumerate(tg.elts):
                if isinstance(t, tuple) and t[0] == "tuple" and i < len(t[1]):
                    self.bind(e, t[1][i], cand)
                elif isinstance(t, tuple) and t[0] == "seq":
                    self.bind(e, t[1], cand)
                else:
                    self.bind(e, None, cand)

    def elem(self, t, iter_node):
        """type of the values produced by iterating"""
        if isinstance(t, tuple) and t[0] == "seq":
            return t[1]
        if isinstance(t, tuple) and t[0] == "map":
            return OTHER if t[1] is not None else None       # keys: not the numeric values
        return None

    def typeof(self, e):
        if isinstance(e, ast.Constant):
            v = e.value
            return BOOL if isinstance(v, bool) else STR if isinstance(v, str) else OTHER if v is None else None
        if isinstance(e, ast.Name):
            return self.env.get(e.id)
        if isinstance(e, ast.Attribute):
            if isinstance(e.value, ast.Name) and self.f.cls is not None and self.f.params and \
                    e.value.id == self.f.params[0] and not self.f.static:
                return self.cls_fields.get(e.attr)
            bt = None
            if isinstance(e.value, ast.Name):
                a = self.f.ann.get(e.value.id)
                if a is not None:
                    for nm in pyalias._ann_names(a):
                        ci = self.prog.find_class(nm.split(".")[-1])
                        if ci is not None:
                            bt = class_field_types(ci).get(e.attr)
            return bt
        if isinstance(e, ast.Subscript):
            t = self.typeof(e.value)
            if isinstance(t, tuple):
                if t[0] == "map":
                    return t[1]
                if t[0] == "seq":
                    return t if isinstance(e.slice, ast.Slice) else t[1]
                if t[0] == "tuple" and isinstance(e.slice, ast.Constant) and isinstance(e.slice.value, int) \
                        and -len(t[1]) <= e.slice.value < len(t[1]):
                    return t[1][e.slice.value]
            return None
        if isinstance(e, ast.Call):
            fn = e.func
            if isinstance(fn, ast.Attribute):
                rt = self.typeof(fn.value)
                if isinstance(rt, tuple) and rt[0] == "map":
                    if fn.attr in ("get", "pop", "setdefault"):
                        dflt = self.typeof(e.args[1]) if len(e.args) > 1 else None
                        return rt[1] if (len(e.args) < 2 or dflt in (rt[1], None) or dflt == OTHER) else None
                    if fn.attr == "values":
                        return ("seq", rt[1])
                    if fn.attr == "items":
                        return ("seq", ("tuple", [OTHER, rt[1]]))
                    if fn.attr == "keys":
                        return ("seq", OTHER)
                if isinstance(rt, tuple) and rt[0] == "seq" and fn.attr == "pop":
                    return rt[1]
            if isinstance(fn, ast.Name) and fn.id in ("list", "tuple", "sorted", "reversed", "set") and len(e.args) == 1:
                t = self.typeof(e.args[0])
                return ("seq", self.elem(t, e.args[0])) if isinstance(t, tuple) else None
            if isinstance(fn, ast.Name) and fn.id == "enumerate" and e.args:
                t = self.typeof(e.args[0])
                return ("seq", ("tuple", [OTHER, self.elem(t, e.args[0])])) if isinstance(t, tuple) else None
            if isinstance(fn, ast.Name) and fn.id == "zip":
                return ("seq", ("tuple", [self.elem(self.typeof(a), a) for a in e.args]))
            if isinstance(fn, ast.Name) and fn.id in ("isinstance", "callable", "hasattr", "bool", "any", "all", "issubclass"):
                return BOOL
            if isinstance(fn, ast.Name) and fn.id == "str":
                return STR
            # functions / methods of the analysed modules: their return annotation
            nm = fn.id if isinstance(fn, ast.Name) else fn.attr if isinstance(fn, ast.Attribute) else None
            cands = [g for g in self.prog.all_functions() if g.name == nm]
            if len(cands) == 1 and cands[0].node.returns is not None:
                return ann_type(cands[0].node.returns)
            return None
        if isinstance(e, ast.IfExp):
            a, b = self.typeof(e.body), self.typeof(e.orelse)
            return a if a == b else None
        if isinstance(e, ast.BoolOp):
            ts = [self.typeof(v) for v in e.values]
            return ts[0] if all(t == ts[0] for t in ts) else None
        if isinstance(e, ast.Compare) or (isinstance(e, ast.UnaryOp) and isinstance(e.op, ast.Not)):
            return BOOL
        if isinstance(e, (ast.List, ast.ListComp, ast.Set, ast.SetComp, ast.Tuple, ast.GeneratorExp)):
            return ("seq", None)
        if isinstance(e, (ast.Dict, ast.DictComp)):
            return ("map", None)
        if isinstance(e, ast.JoinedStr):
            return STR
        return None          # arithmetic and everything else: computed, not an annotated setting


def class_field_types(ci):
    out = {}
    for n, a in ci.fields:
        t = ann_type(a)
        if t is not None:
            out[n] = t
    for st in ci.node.body:
        if isinstance(st, ast.Assign) and len(st.targets) == 1 and isinstance(st.targets[0], ast.Name) and \
                isinstance(st.value, ast.Constant) and isinstance(st.value.value, bool):
            out[st.targets[0].id] = BOOL
    init = ci.methods.get("__init__")
    if init is not None:
        for n in ast.walk(init.node):
            if isinstance(n, ast.AnnAssign) and isinstance(n.target, ast.Attribute) and \
                    isinstance(n.target.value, ast.Name) and n.target.value.id == init.params[0]:
                t = ann_type(n.annotation)
                if t is not None:
                    out[n.target.attr] = t
            elif isinstance(n, ast.Assign) and len(n.targets) == 1 and isinstance(n.targets[0], ast.Attribute) and \
                    isinstance(n.targets[0].value, ast.Name) and n.targets[0].value.id == init.params[0] and \
                    isinstance(n.value, ast.Name) and n.targets[0].attr not in out:
                t = ann_type(init.ann.get(n.value.id))
                if t is not None:
                    out[n.targets[0].attr] = t
    return out


def own_nodes(fn):
    out = []

    def rec(n, top):
        if isinstance(n, (ast.FunctionDef, ast.AsyncFunctionDef, ast.Lambda, ast.ClassDef)) and not top:
            return
        out.append(n)
        for c in ast.iter_child_nodes(n):
            rec(c, False)
    rec(fn, True)
    return out


def truth_sites(fn):
    """(leaf expression, form) for every value used for its truthiness"""
    sites = []

    def truth(e, form):
        if isinstance(e, ast.UnaryOp) and isinstance(e.op, ast.Not):
            truth(e.operand, "not")
        elif isinstance(e, ast.BoolOp):
            for v in e.values:
                truth(v, "or" if isinstance(e.op, ast.Or) else "and")
        elif isinstance(e, ast.Compare):
            return                                   # explicit comparison: not a truthiness use
        elif isinstance(e, ast.NamedExpr):
            truth(e.value, form)
        else:
            sites.append((e, form, None))
    for n in own_nodes(fn):
        if isinstance(n, (ast.If, ast.While)):
            truth(n.test, "if" if isinstance(n, ast.If) else "while")
        elif isinstance(n, ast.IfExp):
            truth(n.test, "ifexp")
        elif isinstance(n, ast.Assert):
            truth(n.test, "assert")
        elif isinstance(n, ast.comprehension):
            for c in n.ifs:
                truth(c, "comprehension-if")
        elif isinstance(n, ast.BoolOp):
            # value context: every operand but the last is tested (the last one only if the whole is tested,
            # which the enclosing construct handles; duplicates are removed below)
            for v in n.values[:-1]:
                truth(v, "or" if isinstance(n.op, ast.Or) else "and")
        elif isinstance(n, ast.Call) and isinstance(n.func, ast.Name):
            if n.func.id == "bool" and len(n.args) == 1:
                truth(n.args[0], "bool()")
            elif n.func.id == "filter" and len(n.args) == 2 and isinstance(n.args[0], ast.Constant) and n.args[0].value is None:
                sites.append((n.args[1], "filter(None,..)", "elem"))
            elif n.func.id in ("any", "all") and len(n.args) == 1 and not isinstance(n.args[0], (ast.GeneratorExp, ast.ListComp)):
                sites.append((n.args[0], n.func.id + "()", "elem"))
            elif n.func.id in ("any", "all") and len(n.args) == 1:
                truth(n.args[0].elt, n.func.id + "()")
    seen, out = set(), []
    for e, form, mode in sites:
        if id(e) not in seen:
            seen.add(id(e))
            out.append((e, form, mode))
    return out


def falsy_numeric(res, prog, results):
    res.rule("R-FALSY-NUMERIC", "no truthiness test of a value whose annotation-derived type is numeric / Optional[numeric] "
             "(zero is a legal delay/gain/bias/weight/time and must not be read as absent)", floor=FLOOR_TRUTH)
    unknown = 0
    for f, _ in results:
        ty = Typer(prog, f)
        per_func = {}
        for e, form, mode in truth_sites(f.node):
            t = ty.typeof(e)
            if mode == "elem":
                t = ty.elem(t, e) if isinstance(t, tuple) else None
            text = ast.unparse(e)
            k = per_func.get((form, text), 0)
            per_func[(form, text)] = k + 1
            construct = f"{f.qual}:{form}:{text}" + (f"#{k + 1}" if k else "")
            if t == NUM:
                res.bad("R-FALSY-NUMERIC", construct, f.mod.rel, e.lineno,
                        f"{f.qual}: truthiness of `{text}` ({form}) whose declared type is numeric/Optional[numeric]: "
                        f"a legal value 0 / 0.0 is treated like a missing one")
            else:
                if t is None:
                    unknown += 1
                kind = "unknown (not decided)" if t is None else t[0] + " container" if isinstance(t, tuple) else t
                res.ok("R-FALSY-NUMERIC", construct, {"file": f.mod.rel, "line": e.lineno, "type": kind})
    res.count("truthiness_sites_unknown_type", unknown)


def _returns_series(f) -> bool:
    r = f.node.returns
    names = pyalias._ann_names(r) if r is not None else set()
    return any(n.split(".")[-1] == SERIES_CLASS for n in names)


def _has_series_param(f) -> bool:
    for p in f.params:
        ann = f.ann.get(p)
        if ann is not None and any(n.split(".")[-1] == SERIES_CLASS for n in pyalias._ann_names(ann)):
            return True
    return False


def run(res, tier):
    prog = pyalias.Program(FILES, exempt_receivers=EXEMPT_RECEIVERS)
    results = prog.analyse_all()
    quals = {f.qual for f, _ in results}
    missing = ANCHORS - quals
    if missing:
        raise AnalysisError(f"anchor functions vanished: {sorted(missing)}")
    if prog.find_class(SERIES_CLASS) is None:
        raise AnalysisError("class TimeSeries not found in timeseries.py")
    if len(results) < FLOOR_FUNCTIONS:
        raise AnalysisError(f"only {len(results)} functions analysed, below the confirmed floor {FLOOR_FUNCTIONS}")

    res.rule("R-PURITY", "no in-place operation reaches memory owned by a parameter (alias lattice fresh / "
             "view-of(param.path); constructor calls propagate field aliases)", floor=FLOOR_SITES)
    res.rule("R-NEWOBJ", "a modifier annotated to return a TimeSeries returns a newly constructed object on every path",
             floor=FLOOR_NEWOBJ)

    res.trusted = ["CPython 3.11 ast parser", "numpy allocation/view semantics as tabulated in sa/pyalias.py"]
    res.count("files", len(FILES))
    res.count("functions", len(results))
    status_count = {}
    for f, s in results:
        for site in s.sites:
            status_count[site.status] = status_count.get(site.status, 0) + 1
            construct = site.construct()
            if site.status == "view":
                res.bad("R-PURITY", construct, site.file, site.line,
                        f"{site.func}: {site.kind} on `{site.target}` writes memory owned by the caller "
                        f"(may alias parameter {', '.join(sorted(site.origins))})"
                        + (f" — {site.detail}" if site.detail else ""))
            else:
                res.ok("R-PURITY", construct,
                       {"file": site.file, "line": site.line, "target": site.target, "class": site.status,
                        "why": site.detail or {"fresh": "target is freshly allocated on every path",
                                               "init": "initialisation of self",
                                               "config": "registry receiver",
                                               "deferred": "private helper: judged at its call sites"}[site.status]})
    for k, v in sorted(status_count.items()):
        res.count("sites_" + k, v)

    # R-NEWOBJ
    for f, s in results:
        mod_is_modifiers = f.mod.rel.endswith("signal_modifier.py")
        is_series_method = (f.cls is not None and f.cls.name == SERIES_CLASS and not f.static and not f.classmethod)
        if not _returns_series(f):
            continue
        if not ((mod_is_modifiers and f.cls is None and _has_series_param(f)) or is_series_method):
            continue
        construct = f"{f.qual}:return"
        if s.ret is None:
            res.bad("R-NEWOBJ", construct, f.mod.rel, f.node.lineno, f"{f.qual} never returns a value")
        elif s.ret.own:
            lines = [n.lineno for n in ast.walk(f.node) if isinstance(n, ast.Return)]
            res.bad("R-NEWOBJ", construct, f.mod.rel, lines[0] if lines else f.node.lineno,
                    f"{f.qual} may return the object passed in ({', '.join(sorted(s.ret.own))}) instead of a new TimeSeries")
        else:
            res.ok("R-NEWOBJ", construct, {"file": f.mod.rel, "line": f.node.lineno, "returns": repr(s.ret)})

    falsy_numeric(res, prog, results)

    alias = pyalias.constructor_aliasing(prog, SERIES_CLASS)
    res.extra["constructor_stores_argument_uncopied"] = {SERIES_CLASS: alias}
    res.extra["exempt_receivers"] = EXEMPT_RECEIVERS
    res.explanation = (
        "Alias/mutation analysis (ast only) of every function and method of signal_modifier.py, "
        "signal_transform.py and timeseries.py. Abstract values: fresh, view-of(parameter.path), objects with "
        "per-field values; TimeSeries(...) propagates its arguments into its fields because the dataclass stores "
        "them un-copied (derived from the class body: " + repr(alias) + "). Every in-place site is classified; a "
        "site whose target may be a view of a parameter is a violation. Joins take the union (view wins), loops "
        "run to a fixpoint, private helpers are judged at their call sites. R-NEWOBJ: the modifiers return a "
        "newly constructed TimeSeries on every path.")
    res.not_decided = ("interpolation values (range of neighbouring samples), equality of grouped and column-wise "
                       "resampling beyond the R-FALSY-NUMERIC clause, identity resampling; truthiness of values whose "
                       "type cannot be derived from annotations (computed numbers, unannotated attributes such as "
                       "Parameter.value) is counted but not judged.")
    res.assumptions = [
        "numpy/scipy functions listed as allocating in sa/pyalias.py allocate; functions not listed are treated as "
        "returning a view of their arguments (conservative)",
        "numpy/scipy functions other than the listed in-place ones (copyto, place, put, putmask, fill_diagonal, "
        "put_along_axis, random.shuffle, ufunc.at, out=) do not write their array arguments",
        "values annotated np.ndarray (TimeSeries.times/.data) are numeric arrays, not object arrays",
        "`self` of SignalTransform is a registry, not a series passed in",
    ]
