"""C48 System-identification signal transforms are pure.

Decides, for every function and method of signal_modifier.py, signal_transform.py and timeseries.py
(python/mujoco/sysid/_src), by an alias/mutation analysis of the source (sa.pyalias; nothing is executed):

R-PURITY   every in-place operation (subscript store/delete, augmented assignment, attribute store,
           in-place method, numpy in-place function, `out=` argument, MuJoCo C-API output argument) is
           applied to a value that cannot be (a view of) memory owned by a parameter: not the parameter,
           not an attribute of it, not a basic slice / asarray / reshape of it, and not a field of an
           object that was constructed from it by a class that stores its arguments un-copied
           (TimeSeries is a frozen dataclass without copying: derived from its class body).
           One obligation per (public entry point, caller-owned parameter); what is checked for it is every in-place
           operation the entry point reaches: its body, closures (analysed with the values they capture), generators
           (a generator function returns a fresh iterable whose elements alias what it yields), comprehensions (loops),
           private helpers (judged at their call sites with the actual arguments; tuples they return are tracked per
           position).  The number of obligations depends on the interface of the modules only, not on how the bodies
           are split into helpers, loops or comprehensions; the number of sites inspected is reported under `analysed`.
R-NEWOBJ   the modifiers (functions of signal_modifier.py and instance methods of TimeSeries that are
           annotated to return a TimeSeries) return a newly constructed object on every path, never the
           object passed in.
R-FALSY-NUMERIC  no *truthiness* use (`x or y`, `x and y`, `if x`, `if not x`, `y if x else z`, `while x`, `assert x`,
           comprehension `if x`, `bool(x)`, `filter(None, xs)`, `any(xs)`/`all(xs)`) of a value whose static type is
           numeric or Optional[numeric].  Types come from annotations only (parameters, annotated locals, class
           fields, return annotations of functions of the three modules) propagated through simple assignment,
           `.get(k)` / subscripts / iteration / `.items()` / `.values()` of annotated containers and tuple unpacking:
           One obligation per (public entry point, numeric setting among its parameters); the sites are looked for in
           every function, closure and lambda of the three modules.  Such values are settings the caller supplies (delay, gain, bias, weight, time) for which zero is legal
           and must not be read as "absent" (a 0.0 per-sensor delay override silently becoming the default breaks
           "grouped per-sensor delays give exactly the column-by-column result").  Truthiness of containers,
           strings, bools, non-numeric optionals, explicit `.size`/`len()` tests and values of unknown type are
           not reported.
Does not decide: interpolation values, column-by-column equality of the grouped resampling beyond the clause above,
truthiness of values whose type cannot be derived from annotations (computed numbers, unannotated attributes such as
Parameter.value).
"""
from __future__ import annotations

import ast

from .. import pyalias
from ..cfront import AnalysisError

FILES = [
    "python/mujoco/sysid/_src/signal_modifier.py",
    "python/mujoco/sysid/_src/signal_transform.py",
    "python/mujoco/sysid/_src/timeseries.py",
]

# `self` of these classes is the receiver of a builder/registration method, not a time series or array
# passed in: the property quantifies over series and arrays given to the modifiers.
EXEMPT_RECEIVERS = {
    "SignalTransform": "declarative registry of transforms (delay/gain/bias/enable_sensors append to it by design); "
                       "it holds no series data",
}

# Floors are expressed over the *interface* of the three modules, not over the layout of the bodies: an obligation is a
# (public entry point, caller-owned parameter) pair for R-PURITY and a (public entry point, numeric setting) pair for
# R-FALSY-NUMERIC.  What is checked for each obligation is every in-place operation / truthiness test the entry point
# can reach (its body, closures, generators, private helpers with the actual arguments substituted).  Merging copies of
# a loop into a helper, turning an accumulator loop into a comprehension or splitting a function therefore changes the
# number of *sites* inspected (reported under `analysed`), never the number of obligations; a vanished entry point or
# parameter does.  Hand-confirmed on the pinned tree (enumeration: `python3-vt -m sa.props.c48`):
FLOOR_ENTRY_POINTS = 39   # 10 signal_modifier + 7 SignalTransform (public) + 2 module-level timeseries + 20 TimeSeries
FLOOR_OWNED = 73          # caller-owned (non-scalar) parameters of those (80), without the 7 exempt SignalTransform receivers
FLOOR_NEWOBJ = 8          # apply_bias/gain/delay/time_window/delayed_ts_window/resample_and_delay, resample, remove_from_beginning
FLOOR_SETTINGS = 11       # parameters annotated numeric / Optional[numeric] / container of numerics, per entry point
ANCHORS = {"apply_bias", "apply_gain", "apply_delay", "apply_time_window", "apply_resample_and_delay",
           "TimeSeries.resample", "TimeSeries.interpolate", "SignalTransform.apply"}

SERIES_CLASS = "TimeSeries"

# ------------------------------------------------------------------------------------------------
# R-FALSY-NUMERIC: annotation-derived types

NUM, BOOL, STR, OTHER = "num", "bool", "str", "other"
NUMERIC_LEAVES = {"float", "int", "complex", "floating", "integer", "float64", "float32", "int64", "int32", "number",
                  "Real", "Number"}
MAP_HEADS = {"dict", "Dict", "Mapping", "MutableMapping", "OrderedDict", "defaultdict"}
SEQ_HEADS = {"list", "List", "Sequence", "MutableSequence", "Iterable", "Iterator", "Collection", "set", "Set",
             "frozenset", "FrozenSet", "deque"}


def ann_type(a):
    """annotation AST -> NUM | BOOL | STR | OTHER | ("map", V) | ("seq", E) | ("tuple", [..]) | None (unknown).
    Optional[T] / T | None has the type of T (truthiness conflates None and zero: still a report for numerics)."""
    if a is None:
        return None
    if isinstance(a, ast.Constant):
        if isinstance(a.value, str):
            try:
                return ann_type(ast.parse(a.value, mode="eval").body)
            except SyntaxError:
                return None
        return "none" if a.value is None else None
    if isinstance(a, ast.BinOp) and isinstance(a.op, ast.BitOr):
        return union_type([ann_type(a.left), ann_type(a.right)])
    if isinstance(a, ast.Subscript):
        head = pyalias._dotted(a.value).split(".")[-1]
        args = a.slice.elts if isinstance(a.slice, ast.Tuple) else [a.slice]
        if head == "Optional":
            return union_type([ann_type(args[0]), "none"])
        if head == "Union":
            return union_type([ann_type(x) for x in args])
        if head in MAP_HEADS:
            return ("map", ann_type(args[1]) if len(args) == 2 else None)
        if head in SEQ_HEADS:
            return ("seq", ann_type(args[0]))
        if head in ("tuple", "Tuple"):
            if len(args) == 2 and isinstance(args[1], ast.Constant) and args[1].value is Ellipsis:
                return ("seq", ann_type(args[0]))
            return ("tuple", [ann_type(x) for x in args])
        return OTHER
    d = pyalias._dotted(a)
    leaf = d.split(".")[-1] if d else ""
    if leaf == "bool":
        return BOOL
    if leaf == "str":
        return STR
    if leaf in NUMERIC_LEAVES:
        return NUM
    if leaf in MAP_HEADS:
        return ("map", None)
    if leaf in SEQ_HEADS or leaf in ("tuple", "Tuple"):
        return ("seq", None)
    if leaf in ("None", "NoneType"):
        return "none"
    return OTHER if leaf else None


def union_type(ts):
    core = [t for t in ts if t != "none"]
    if not core:
        return OTHER
    if any(t is None for t in core):
        return None
    first = core[0]
    if all(t == first for t in core):
        return first
    if all(t == NUM for t in core):
        return NUM
    return OTHER          # e.g. Mapping[str, float] | np.ndarray: not a numeric scalar


class Typer:
    """flow-insensitive, annotation-derived types of the names of one function"""

    def __init__(self, prog, f, outer=None):
        self.prog, self.f = prog, f
        self.env = dict(outer or {})             # closures: free variables keep the types of the enclosing scope
        if outer:
            for p in list(f.params) + list(f.kwonly) + [x for x in (f.vararg, f.kwarg) if x]:
                self.env.pop(p, None)
            for n in own_nodes(f.node):          # names the closure binds itself are its own locals
                if isinstance(n, ast.Name) and isinstance(n.ctx, ast.Store):
                    self.env.pop(n.id, None)
        for p, a in f.ann.items():
            t = ann_type(a)
            if t is not None:
                self.env[p] = t
        self.cls_fields = {}
        if f.cls is not None:
            self.cls_fields = class_field_types(f.cls)
        # annotated locals win; otherwise a local has a type when all its simple assignments agree
        annotated = set(self.env)
        for _ in range(4):
            cand = {}
            for n in own_nodes(f.node):
                if isinstance(n, ast.AnnAssign) and isinstance(n.target, ast.Name):
                    t = ann_type(n.annotation)
                    if t is not None:
                        self.env[n.target.id] = t
                        annotated.add(n.target.id)
                elif isinstance(n, ast.Assign):
                    for tg in n.targets:
                        self.bind(tg, self.typeof(n.value), cand)
                elif isinstance(n, (ast.For, ast.comprehension)):
                    self.bind(n.target, self.elem(self.typeof(n.iter), n.iter), cand)
                elif isinstance(n, ast.AugAssign) and isinstance(n.target, ast.Name):
                    cand.setdefault(n.target.id, []).append(None)
            changed = False
            for k, ts in cand.items():
                if k in annotated:
                    continue
                t = ts[0] if ts and all(x == ts[0] for x in ts) else None
                if self.env.get(k) != t:
                    changed = True
                    if t is None:
                        self.env.pop(k, None)
                    else:
                        self.env[k] = t
            if not changed:
                break

    def bind(self, tg, t, cand):
        if isinstance(tg, ast.Name):
            cand.setdefault(tg.id, []).append(t)
        elif isinstance(tg, (ast.Tuple, ast.List)):
            for i, e in enumerate(tg.elts):
                if isinstance(t, tuple) and t[0] == "tuple" and i < len(t[1]):
                    self.bind(e, t[1][i], cand)
                elif isinstance(t, tuple) and t[0] == "seq":
                    self.bind(e, t[1], cand)
                else:
                    self.bind(e, None, cand)

    def elem(self, t, iter_node):
        """type of the values produced by iterating"""
        if isinstance(t, tuple) and t[0] == "seq":
            return t[1]
        if isinstance(t, tuple) and t[0] == "map":
            return OTHER if t[1] is not None else None       # keys: not the numeric values
        return None

    def typeof(self, e):
        if isinstance(e, ast.Constant):
            v = e.value
            return BOOL if isinstance(v, bool) else STR if isinstance(v, str) else OTHER if v is None else None
        if isinstance(e, ast.Name):
            return self.env.get(e.id)
        if isinstance(e, ast.Attribute):
            if isinstance(e.value, ast.Name) and self.f.cls is not None and self.f.params and \
                    e.value.id == self.f.params[0] and not self.f.static:
                return self.cls_fields.get(e.attr)
            bt = None
            if isinstance(e.value, ast.Name):
                a = self.f.ann.get(e.value.id)
                if a is not None:
                    for nm in pyalias._ann_names(a):
                        ci = self.prog.find_class(nm.split(".")[-1])
                        if ci is not None:
                            bt = class_field_types(ci).get(e.attr)
            return bt
        if isinstance(e, ast.Subscript):
            t = self.typeof(e.value)
            if isinstance(t, tuple):
                if t[0] == "map":
                    return t[1]
                if t[0] == "seq":
                    return t if isinstance(e.slice, ast.Slice) else t[1]
                if t[0] == "tuple" and isinstance(e.slice, ast.Constant) and isinstance(e.slice.value, int) \
                        and -len(t[1]) <= e.slice.value < len(t[1]):
                    return t[1][e.slice.value]
            return None
        if isinstance(e, ast.Call):
            fn = e.func
            if isinstance(fn, ast.Attribute):
                rt = self.typeof(fn.value)
                if isinstance(rt, tuple) and rt[0] == "map":
                    if fn.attr in ("get", "pop", "setdefault"):
                        dflt = self.typeof(e.args[1]) if len(e.args) > 1 else None
                        return rt[1] if (len(e.args) < 2 or dflt in (rt[1], None) or dflt == OTHER) else None
                    if fn.attr == "values":
                        return ("seq", rt[1])
                    if fn.attr == "items":
                        return ("seq", ("tuple", [OTHER, rt[1]]))
                    if fn.attr == "keys":
                        return ("seq", OTHER)
                if isinstance(rt, tuple) and rt[0] == "seq" and fn.attr == "pop":
                    return rt[1]
            if isinstance(fn, ast.Name) and fn.id in ("list", "tuple", "sorted", "reversed", "set") and len(e.args) == 1:
                t = self.typeof(e.args[0])
                return ("seq", self.elem(t, e.args[0])) if isinstance(t, tuple) else None
            if isinstance(fn, ast.Name) and fn.id == "enumerate" and e.args:
                t = self.typeof(e.args[0])
                return ("seq", ("tuple", [OTHER, self.elem(t, e.args[0])])) if isinstance(t, tuple) else None
            if isinstance(fn, ast.Name) and fn.id == "zip":
                return ("seq", ("tuple", [self.elem(self.typeof(a), a) for a in e.args]))
            if isinstance(fn, ast.Name) and fn.id in ("isinstance", "callable", "hasattr", "bool", "any", "all", "issubclass"):
                return BOOL
            if isinstance(fn, ast.Name) and fn.id == "str":
                return STR
            # functions / methods of the analysed modules: their return annotation
            nm = fn.id if isinstance(fn, ast.Name) else fn.attr if isinstance(fn, ast.Attribute) else None
            cands = [g for g in self.prog.all_functions() if g.name == nm]
            if len(cands) == 1 and cands[0].node.returns is not None:
                return ann_type(cands[0].node.returns)
            return None
        if isinstance(e, ast.IfExp):
            a, b = self.typeof(e.body), self.typeof(e.orelse)
            return a if a == b else None
        if isinstance(e, ast.BoolOp):
            ts = [self.typeof(v) for v in e.values]
            return ts[0] if all(t == ts[0] for t in ts) else None
        if isinstance(e, ast.Compare) or (isinstance(e, ast.UnaryOp) and isinstance(e.op, ast.Not)):
            return BOOL
        if isinstance(e, (ast.List, ast.ListComp, ast.Set, ast.SetComp, ast.Tuple, ast.GeneratorExp)):
            return ("seq", None)
        if isinstance(e, (ast.Dict, ast.DictComp)):
            return ("map", None)
        if isinstance(e, ast.JoinedStr):
            return STR
        return None          # arithmetic and everything else: computed, not an annotated setting


def class_field_types(ci):
    out = {}
    for n, a in ci.fields:
        t = ann_type(a)
        if t is not None:
            out[n] = t
    for st in ci.node.body:
        if isinstance(st, ast.Assign) and len(st.targets) == 1 and isinstance(st.targets[0], ast.Name) and \
                isinstance(st.value, ast.Constant) and isinstance(st.value.value, bool):
            out[st.targets[0].id] = BOOL
    init = ci.methods.get("__init__")
    if init is not None:
        for n in ast.walk(init.node):
            if isinstance(n, ast.AnnAssign) and isinstance(n.target, ast.Attribute) and \
                    isinstance(n.target.value, ast.Name) and n.target.value.id == init.params[0]:
                t = ann_type(n.annotation)
                if t is not None:
                    out[n.target.attr] = t
            elif isinstance(n, ast.Assign) and len(n.targets) == 1 and isinstance(n.targets[0], ast.Attribute) and \
                    isinstance(n.targets[0].value, ast.Name) and n.targets[0].value.id == init.params[0] and \
                    isinstance(n.value, ast.Name) and n.targets[0].attr not in out:
                t = ann_type(init.ann.get(n.value.id))
                if t is not None:
                    out[n.targets[0].attr] = t
    return out


def own_nodes(fn):
    out = []

    def rec(n, top):
        if isinstance(n, (ast.FunctionDef, ast.AsyncFunctionDef, ast.ClassDef)) and not top:
            out.append(n)                        # the definition itself (nested_scopes looks for it), not its body
            return
        out.append(n)
        for c in ast.iter_child_nodes(n):
            rec(c, False)
    rec(fn, True)
    return out


def truth_sites(fn):
    """(leaf expression, form) for every value used for its truthiness"""
    sites = []

    def truth(e, form):
        if isinstance(e, ast.UnaryOp) and isinstance(e.op, ast.Not):
            truth(e.operand, "not")
        elif isinstance(e, ast.BoolOp):
            for v in e.values:
                truth(v, "or" if isinstance(e.op, ast.Or) else "and")
        elif isinstance(e, ast.Compare):
            return                                   # explicit comparison: not a truthiness use
        elif isinstance(e, ast.NamedExpr):
            truth(e.value, form)
        else:
            sites.append((e, form, None))
    for n in own_nodes(fn):
        if isinstance(n, (ast.If, ast.While)):
            truth(n.test, "if" if isinstance(n, ast.If) else "while")
        elif isinstance(n, ast.IfExp):
            truth(n.test, "ifexp")
        elif isinstance(n, ast.Assert):
            truth(n.test, "assert")
        elif isinstance(n, ast.comprehension):
            for c in n.ifs:
                truth(c, "comprehension-if")
        elif isinstance(n, ast.BoolOp):
            # value context: every operand but the last is tested (the last one only if the whole is tested,
            # which the enclosing construct handles; duplicates are removed below)
            for v in n.values[:-1]:
                truth(v, "or" if isinstance(n.op, ast.Or) else "and")
        elif isinstance(n, ast.Call) and isinstance(n.func, ast.Name):
            if n.func.id == "bool" and len(n.args) == 1:
                truth(n.args[0], "bool()")
            elif n.func.id == "filter" and len(n.args) == 2 and isinstance(n.args[0], ast.Constant) and n.args[0].value is None:
                sites.append((n.args[1], "filter(None,..)", "elem"))
            elif n.func.id in ("any", "all") and len(n.args) == 1 and not isinstance(n.args[0], (ast.GeneratorExp, ast.ListComp)):
                sites.append((n.args[0], n.func.id + "()", "elem"))
            elif n.func.id in ("any", "all") and len(n.args) == 1:
                truth(n.args[0].elt, n.func.id + "()")
    seen, out = set(), []
    for e, form, mode in sites:
        if id(e) not in seen:
            seen.add(id(e))
            out.append((e, form, mode))
    return out


def has_numeric(t) -> bool:
    if t == NUM:
        return True
    if isinstance(t, tuple):
        if t[0] in ("map", "seq"):
            return has_numeric(t[1])
        if t[0] == "tuple":
            return any(has_numeric(x) for x in t[1])
    return False


def nested_scopes(prog, f, ty):
    """(FuncInfo, Typer) of the closures defined in f, recursively; free variables have the types of the enclosing scope"""
    out = []
    for n in own_nodes(f.node):
        if isinstance(n, (ast.FunctionDef, ast.AsyncFunctionDef)) and n is not f.node:
            nf = pyalias.FuncInfo(f.mod, n, None)
            nf.qual = f.qual + "." + n.name
            nty = Typer(prog, nf, outer=ty.env)
            out.append((nf, nty))
            out.extend(nested_scopes(prog, nf, nty))
    return out


def falsy_numeric(res, prog, results):
    res.rule("R-FALSY-NUMERIC", "no entry point reaches a truthiness test of a value whose annotation-derived type is "
             "numeric / Optional[numeric] (zero is a legal delay/gain/bias/weight/time and must not be read as absent); "
             "one obligation per (entry point, numeric setting)", floor=FLOOR_SETTINGS)
    unknown = total = 0
    bad_in = {}                                  # function qual (closures: the enclosing function) -> bad sites
    for f, _ in results:
        ty = Typer(prog, f)
        for g, gty in [(f, ty)] + nested_scopes(prog, f, ty):
            per_func = {}
            for e, form, mode in truth_sites(g.node):
                total += 1
                t = gty.typeof(e)
                if mode == "elem":
                    t = gty.elem(t, e) if isinstance(t, tuple) else None
                text = ast.unparse(e)
                k = per_func.get((form, text), 0)
                per_func[(form, text)] = k + 1
                construct = f"{g.qual}:{form}:{text}" + (f"#{k + 1}" if k else "")
                if t == NUM:
                    bad_in[f.qual] = bad_in.get(f.qual, 0) + 1
                    res.bad("R-FALSY-NUMERIC", construct, f.mod.rel, e.lineno,
                            f"{g.qual}: truthiness of `{text}` ({form}) whose declared type is numeric/Optional[numeric]: "
                            f"a legal value 0 / 0.0 is treated like a missing one")
                elif t is None:
                    unknown += 1
    res.count("truthiness_sites", total)
    res.count("truthiness_sites_unknown_type", unknown)
    # obligations: the numeric settings of every entry point
    for f, _ in results:
        if not prog.is_entry_point(f):
            continue
        settings = [p for p, a in f.ann.items() if has_numeric(ann_type(a))]
        if not settings:
            continue
        reached = prog.reach(f)
        dirty = sorted(g.qual for g in reached if bad_in.get(g.qual))
        for p in settings:
            construct = f"{f.qual}:setting:{p}"
            if dirty:
                res.seen("R-FALSY-NUMERIC", construct)       # the sites are reported above
            else:
                res.ok("R-FALSY-NUMERIC", construct,
                       {"file": f.mod.rel, "line": f.node.lineno, "annotation": ast.unparse(f.ann[p]),
                        "functions_reached": len(reached)})


def _returns_series(f) -> bool:
    r = f.node.returns
    names = pyalias._ann_names(r) if r is not None else set()
    return any(n.split(".")[-1] == SERIES_CLASS for n in names)


def _has_series_param(f) -> bool:
    for p in f.params:
        ann = f.ann.get(p)
        if ann is not None and any(n.split(".")[-1] == SERIES_CLASS for n in pyalias._ann_names(ann)):
            return True
    return False


# ------------------------------------------------------------------------------------------------
# front-end self-probe: a fixed in-memory module that exercises every mutation kind and every aliasing construct the
# rule relies on (views, copies, dataclass fields, generators, positional tuples, comprehensions, helpers, closures).
# The expected classification is part of the checker: if a change to sa/pyalias.py makes the analysis blind to one of
# them, every run is an ANALYSIS-ERROR -- independently of how the analysed modules happen to be laid out.

PROBE_REL = "python/_c48_probe.py"
PROBE_SRC = '''
import numpy as np
from dataclasses import dataclass


@dataclass(frozen=True)
class Box:
  a: np.ndarray
  b: np.ndarray


def _pairs(xs, k):
  for x in xs:
    if k:
      yield x, x[1:]


def _dup(box):
  return box.a, box.b.copy()


def _zero(v):
  v[:] = 0


def aug_view(x: np.ndarray):
  v = x[1:]
  v *= 2.0


def aug_copy(x: np.ndarray):
  v = x.copy()
  v += 1.0


def field_store(b: Box):
  n = Box(b.a, b.b.copy())
  n.b[0] = 1.0
  n.a[0] = 1.0


def gen_elem(xs: list, k: int):
  for head, tail in _pairs(xs, k):
    tail[0] = 0


def gen_container(xs: list, k: int):
  out = list(_pairs(xs, k))
  out.append(1)


def tuple_pos(b: Box):
  a, c = _dup(b)
  c[0] = 1.0
  a[0] = 1.0


def comp_elem(xs: list):
  ys = [x for x in xs]
  ys.append(0)
  for y in ys:
    y.sort()


def out_kw(x: np.ndarray, y: np.ndarray):
  np.add(x, 1.0, out=y)


def via_helper(x: np.ndarray):
  _zero(x[2:])
  _zero(x + 1.0)


def closure(x: np.ndarray):
  def inner():
    x[0] = 1.0
  inner()


def closure_result(x: np.ndarray, k: int):
  def columns():
    for i in range(k):
      yield x[:, i]

  def scaled():
    return x * 2.0
  for c in columns():
    c *= 2.0
  scaled()[0] = 1.0


def method_inplace(x: np.ndarray, y: np.ndarray):
  x.copy().sort()
  np.copyto(y, x)
  y.fill(0.0)


def returns_same(b: Box) -> Box:
  return b


def returns_new(b: Box) -> Box:
  return Box(b.a, b.b)
'''
# function -> sorted list of (status, site kind) the analysis has to produce
PROBE_EXPECT = {
    "_pairs": [], "_dup": [],
    "_zero": [("deferred", "subscript-store")],
    "aug_view": [("view", "augmented-assignment")],
    "aug_copy": [("fresh", "augmented-assignment")],
    "field_store": [("fresh", "subscript-store"), ("view", "subscript-store")],
    "gen_elem": [("view", "subscript-store")],
    "gen_container": [("fresh", "inplace-method:append")],
    "tuple_pos": [("fresh", "subscript-store"), ("view", "subscript-store")],
    "comp_elem": [("fresh", "inplace-method:append"), ("view", "inplace-method:sort")],
    "out_kw": [("view", "out-argument")],
    "via_helper": [("fresh", "call->_zero(v):subscript-store"), ("view", "call->_zero(v):subscript-store")],
    "closure": [("view", "subscript-store")],
    "closure_result": [("fresh", "subscript-store"), ("view", "augmented-assignment")],
    "method_inplace": [("fresh", "inplace-method:sort"), ("view", "inplace-method:fill"), ("view", "numpy-inplace:copyto")],
    "returns_same": [], "returns_new": [],
}
PROBE_RETURNS_INPUT = {"returns_same": True, "returns_new": False}


def self_probe():
    prog = pyalias.Program([PROBE_REL], sources={PROBE_REL: PROBE_SRC})
    got, rets = {}, {}
    for f, s in prog.analyse_all():
        got[f.qual] = sorted((x.status, x.kind) for x in s.sites)
        rets[f.qual] = bool(s.ret is not None and s.ret.own)
    diff = {k: (got.get(k), v) for k, v in PROBE_EXPECT.items() if got.get(k) != v}
    diff.update({k: (rets.get(k), v) for k, v in PROBE_RETURNS_INPUT.items() if rets.get(k) != v})
    if diff:
        raise AnalysisError("alias front-end self-probe failed (got, expected): " +
                            "; ".join(f"{k}: {a} != {b}" for k, (a, b) in sorted(diff.items()))[:900])
    return sum(len(v) for v in PROBE_EXPECT.values())


def run(res, tier):
    probe_sites = self_probe()
    prog = pyalias.Program(FILES, exempt_receivers=EXEMPT_RECEIVERS)
    results = prog.analyse_all()
    quals = {f.qual for f, _ in results}
    missing = ANCHORS - quals
    if missing:
        raise AnalysisError(f"anchor functions vanished: {sorted(missing)}")
    if prog.find_class(SERIES_CLASS) is None:
        raise AnalysisError("class TimeSeries not found in timeseries.py")
    entries = [(f, s) for f, s in results if prog.is_entry_point(f)]
    if len(entries) < FLOOR_ENTRY_POINTS:
        raise AnalysisError(f"only {len(entries)} public entry points analysed, below the confirmed floor {FLOOR_ENTRY_POINTS}")

    res.rule("R-PURITY", "no in-place operation reachable from a public entry point writes memory owned by one of its "
             "parameters (alias lattice fresh / view-of(param.path); constructor calls propagate field aliases; private "
             "helpers, generators and closures are followed); one obligation per (entry point, caller-owned parameter)",
             floor=FLOOR_OWNED)
    res.rule("R-NEWOBJ", "a modifier annotated to return a TimeSeries returns a newly constructed object on every path",
             floor=FLOOR_NEWOBJ)

    res.trusted = ["CPython 3.11 ast parser", "numpy allocation/view semantics as tabulated in sa/pyalias.py"]
    res.count("files", len(FILES))
    res.count("functions", len(results))
    res.count("entry_points", len(entries))
    res.count("probe_sites", probe_sites)
    status_count = {}
    for f, s in results:
        for site in s.sites:
            status_count[site.status] = status_count.get(site.status, 0) + 1
            if site.status == "view":
                res.bad("R-PURITY", site.construct(), site.file, site.line,
                        f"{site.func}: {site.kind} on `{site.target}` writes memory owned by the caller "
                        f"(may alias parameter {', '.join(sorted(site.origins))})"
                        + (f" — {site.detail}" if site.detail else ""))
    res.count("inplace_sites", sum(status_count.values()))
    for k, v in sorted(status_count.items()):
        res.count("sites_" + k, v)
    # obligations
    exempt_params = []
    for f, s in entries:
        reached = [g for g in prog.reach(f) if g is not f]
        for p in s.owned:
            construct = f"{f.qual}:param:{p}"
            if p in s.exempt:
                exempt_params.append(construct)
                continue
            hits = [x for x in s.sites if x.status == "view" and any(o.split(".")[0] == p for o in x.origins)]
            if hits:
                res.seen("R-PURITY", construct)               # reported per site above
                continue
            by_status = {}
            for x in s.sites:
                by_status[x.status] = by_status.get(x.status, 0) + 1
            res.ok("R-PURITY", construct,
                   {"file": f.mod.rel, "line": f.node.lineno, "inplace_sites_in_body": by_status,
                    "helpers_followed": sorted(g.qual for g in reached if not prog.is_entry_point(g)),
                    "why": "every in-place operation reached from this entry point has a target that is freshly "
                           "allocated on every path (or is the initialisation / registry state of the receiver)"})
    res.extra["exempt_receiver_parameters"] = exempt_params

    # R-NEWOBJ
    for f, s in results:
        mod_is_modifiers = f.mod.rel.endswith("signal_modifier.py")
        is_series_method = (f.cls is not None and f.cls.name == SERIES_CLASS and not f.static and not f.classmethod)
        if not _returns_series(f):
            continue
        if not ((mod_is_modifiers and f.cls is None and _has_series_param(f)) or is_series_method):
            continue
        if not prog.is_entry_point(f):
            continue                      # a private helper's result is judged where a modifier returns it
        construct = f"{f.qual}:return"
        if s.ret is None:
            res.bad("R-NEWOBJ", construct, f.mod.rel, f.node.lineno, f"{f.qual} never returns a value")
        elif s.ret.own:
            lines = [n.lineno for n in ast.walk(f.node) if isinstance(n, ast.Return)]
            res.bad("R-NEWOBJ", construct, f.mod.rel, lines[0] if lines else f.node.lineno,
                    f"{f.qual} may return the object passed in ({', '.join(sorted(s.ret.own))}) instead of a new TimeSeries")
        else:
            res.ok("R-NEWOBJ", construct, {"file": f.mod.rel, "line": f.node.lineno, "returns": repr(s.ret)})

    falsy_numeric(res, prog, results)

    alias = pyalias.constructor_aliasing(prog, SERIES_CLASS)
    res.extra["constructor_stores_argument_uncopied"] = {SERIES_CLASS: alias}
    res.extra["exempt_receivers"] = EXEMPT_RECEIVERS
    res.explanation = (
        "Alias/mutation analysis (ast only) of every function and method of signal_modifier.py, "
        "signal_transform.py and timeseries.py. Abstract values: fresh, view-of(parameter.path), objects with "
        "per-field values, tuples with per-position values; TimeSeries(...) propagates its arguments into its fields "
        "because the dataclass stores them un-copied (derived from the class body: " + repr(alias) + "). A generator "
        "function is a function that returns a fresh iterable whose elements alias what it yields; comprehensions are "
        "loops. Every in-place site is classified; a site whose target may be a view of a parameter is a violation. "
        "Joins take the union (view wins), loops run to a fixpoint, private helpers are judged at their call sites with "
        "the actual arguments. Obligations are counted per (public entry point, caller-owned parameter) so that the "
        "count depends on the interface, not on how the bodies are split into helpers or loops. R-NEWOBJ: the modifiers "
        "return a newly constructed TimeSeries on every path. A fixed in-memory probe module checks on every run that "
        "the analysis still classifies each mutation kind and aliasing construct as tabulated.")
    res.not_decided = ("interpolation values (range of neighbouring samples), equality of grouped and column-wise "
                       "resampling beyond the R-FALSY-NUMERIC clause, identity resampling; truthiness of values whose "
                       "type cannot be derived from annotations (computed numbers, unannotated attributes such as "
                       "Parameter.value) is counted but not judged.")
    res.assumptions = [
        "numpy/scipy functions listed as allocating in sa/pyalias.py allocate; functions not listed are treated as "
        "returning a view of their arguments (conservative)",
        "numpy/scipy functions other than the listed in-place ones (copyto, place, put, putmask, fill_diagonal, "
        "put_along_axis, random.shuffle, ufunc.at, out=) do not write their array arguments",
        "values annotated np.ndarray (TimeSeries.times/.data) are numeric arrays, not object arrays",
        "`self` of SignalTransform is a registry, not a series passed in",
        "generators follow the plain producer protocol (no send(), no return value): anything else is refused",
    ]


# ------------------------------------------------------------------------------------------------
# self-test (thorough tier): scratch-copy mutants.  Must-fire mutants are the defects each rule exists for; controls are
# behaviour-preserving shapes (small versions of the stored refactors E-p8 / E-p9) that must leave the result unchanged.

SM = "python/mujoco/sysid/_src/signal_modifier.py"
ST = "python/mujoco/sysid/_src/signal_transform.py"
TS = "python/mujoco/sysid/_src/timeseries.py"

_GAIN = "  data_out = ts.data.copy()\n  data_out[..., indices] *= gain.value\n"
_BIAS = "  data_out = ts.data.copy()\n  data_out[..., indices] += bias.value\n"
_GAINS_LOOP = ("    for pattern, param_name, target in self._gains:\n"
               "      if target != target_label and target != \"both\":\n"
               "        continue\n"
               "      for name in sensor_names:\n"
               "        if fnmatch(name, pattern):\n"
               "          indices = ts.get_indices(name)[1]\n"
               "          data[..., indices] *= params[param_name].value\n")
_CHECK_2D = ("    if data.ndim != 2:\n"
             "      raise ValueError(\n"
             "          \"The 'data' array must be 2-dimensional (Time x Features).\"\n"
             "      )\n")
_RESAMPLE_OLD = '''    # Generate new times if target_dt is provided.
    if new_times is None:
      if target_dt is None:
        raise ValueError("Either new_times or target_dt must be provided")
      if target_dt <= 0:
        raise ValueError("target_dt must be a positive float")

      # Create evenly spaced timestamps.
      new_nsteps = (
          int(np.ceil((self.times[-1] - self.times[0]) / target_dt)) + 1
      )
      new_times = np.linspace(
          self.times[0], self.times[-1], new_nsteps, endpoint=True
      )
    else:
      # Make sure new_times is valid.
      if new_times.ndim != 1:
        raise ValueError("new_times must be a 1D array")
      if not np.all(np.diff(new_times) > 0):
        raise ValueError("new_times must be strictly increasing")
'''
_RESAMPLE_NEW = '''    if new_times is not None:
      if new_times.ndim != 1:
        raise ValueError("new_times must be a 1D array")
      if not np.all(np.diff(new_times) > 0):
        raise ValueError("new_times must be strictly increasing")
    elif target_dt is None:
      raise ValueError("Either new_times or target_dt must be provided")
    elif target_dt <= 0:
      raise ValueError("target_dt must be a positive float")
    else:
      t_first, t_last = self.times[0], self.times[-1]
      new_nsteps = int(np.ceil((t_last - t_first) / target_dt)) + 1
      new_times = np.linspace(t_first, t_last, new_nsteps, endpoint=True)
'''

MUTANTS = [
    # ---- R-PURITY: an in-place operation reaches the caller's array
    {"id": "gain-inplace-on-view", "expect": ("R-PURITY", "apply_gain:augmented-subscript-store"),
     "edits": [(SM, _GAIN, "  data_out = ts.data[...]\n  data_out[..., indices] *= gain.value\n")]},
    {"id": "bias-copy-removed", "expect": ("R-PURITY", "apply_bias:augmented-subscript-store"),
     "edits": [(SM, _BIAS, "  data_out = np.asarray(ts.data)\n  data_out[..., indices] += bias.value\n")]},
    {"id": "delay-copy-removed", "expect": ("R-PURITY", "apply_delay:subscript-store"),
     "edits": [(SM, "      ts.times, ts.data.copy(), ts.signal_mapping\n  )\n  ts_delayed.data[:, indices]",
                "      ts.times, ts.data, ts.signal_mapping\n  )\n  ts_delayed.data[:, indices]")]},
    {"id": "helper-no-copy-judged-at-call", "expect": ("R-PURITY", "SignalTransform.apply:call->SignalTransform._apply_gains_biases"),
     "edits": [(ST, "    data = ts.data.copy()\n\n    for pattern, param_name, target in self._gains:",
                "    data = ts.data\n\n    for pattern, param_name, target in self._gains:")]},
    {"id": "generator-yields-views", "expect": ("R-PURITY", "apply_gain:augmented-assignment"),
     "edits": [(SM, _GAIN, "  data_out = ts.data.copy()\n  for column in _sensor_columns(ts, indices):\n    column *= gain.value\n"),
               (SM, "def apply_bias(\n", "def _sensor_columns(ts, indices):\n  for i in indices:\n    yield ts.data[..., i : i + 1]\n\n\ndef apply_bias(\n")]},
    {"id": "closure-writes-caller", "expect": ("R-PURITY", "apply_delay._write:subscript-store"),
     "edits": [(SM, "  ts_delayed.data[:, indices] = ts_sensor_delayed.data\n",
                "  def _write(values):\n    ts.data[:, indices] = values\n\n  _write(ts_sensor_delayed.data)\n")]},
    {"id": "tuple-helper-returns-view", "expect": ("R-PURITY", "apply_bias:augmented-subscript-store"),
     "edits": [(SM, "  indices = ts.get_indices(sensor_name)[1]\n" + _BIAS,
                "  indices, data_out = _columns_and_data(ts, sensor_name)\n  data_out[..., indices] += bias.value\n"),
               (SM, "def apply_bias(\n", "def _columns_and_data(ts, sensor_name):\n  return ts.get_indices(sensor_name)[1], ts.data\n\n\ndef apply_bias(\n")]},
    # ---- R-NEWOBJ: the input object is handed back
    {"id": "window-returns-input", "expect": ("R-NEWOBJ", "apply_time_window:return"),
     "edits": [(SM, "  return timeseries.TimeSeries(\n      ts.times[min_i:max_i],",
                "  if min_i == 0 and max_i == len(ts.times):\n    return ts\n  return timeseries.TimeSeries(\n      ts.times[min_i:max_i],")]},
    {"id": "remove-nothing-returns-self", "expect": ("R-NEWOBJ", "TimeSeries.remove_from_beginning:return"),
     "edits": [(TS, "    idx = np.searchsorted(self.times, time_to_remove_s)\n",
                "    idx = np.searchsorted(self.times, time_to_remove_s)\n    if idx == 0:\n      return self\n")]},
    # ---- R-FALSY-NUMERIC: zero read as absent
    {"id": "or-default-on-delay", "expect": ("R-FALSY-NUMERIC", "_build_per_column_delays:or:default_delay"),
     "edits": [(SM, "  delays = [default_delay] * ts.data.shape[1]\n", "  delays = [default_delay or 0.0] * ts.data.shape[1]\n")]},
    {"id": "override-or-default", "expect": ("R-FALSY-NUMERIC", "_build_per_column_delays:or:delay"),
     "edits": [(SM, "      delays[i] = delay\n", "      delays[i] = delay or default_delay\n")]},
    {"id": "not-target-dt", "expect": ("R-FALSY-NUMERIC", "TimeSeries.resample:not:target_dt"),
     "edits": [(TS, "      if target_dt is None:\n", "      if not target_dt:\n")]},
    {"id": "or-default-in-closure", "expect": ("R-FALSY-NUMERIC", "_build_per_column_delays.pick:or:delay"),
     "edits": [(SM, "  for name, delay in sensor_delays.items():\n    sensor_indices = ts.get_indices(name)[1]\n    for i in sensor_indices:\n      delays[i] = delay\n",
                "  def pick(delay: float) -> float:\n    return delay or default_delay\n\n"
                "  for name, delay in sensor_delays.items():\n    sensor_indices = ts.get_indices(name)[1]\n    for i in sensor_indices:\n      delays[i] = pick(delay)\n")]},
    # ---- controls: behaviour-preserving shapes
    {"id": "control-tuple-helper-with-copy", "expect": None,
     "edits": [(SM, "  indices = ts.get_indices(sensor_name)[1]\n" + _BIAS,
                "  indices, data_out = _columns_and_data(ts, sensor_name)\n  data_out[..., indices] += bias.value\n"),
               (SM, "def apply_bias(\n", "def _columns_and_data(ts, sensor_name):\n  indices = ts.get_indices(sensor_name)[1]\n  return indices, ts.data.copy()\n\n\ndef apply_bias(\n")]},
    {"id": "control-generator-matches", "expect": None,
     "edits": [(ST, _GAINS_LOOP,
                "    for name, param_name in self._matches(self._gains, target_label, sensor_names):\n"
                "      indices = ts.get_indices(name)[1]\n"
                "      data[..., indices] *= params[param_name].value\n"),
               (ST, "  _VERIFY_GAINS_BIASES = False\n",
                "  @staticmethod\n  def _matches(entries, target_label, sensor_names):\n"
                "    for pattern, param_name, target in entries:\n"
                "      if target not in (target_label, \"both\"):\n        continue\n"
                "      for name in sensor_names:\n        if fnmatch(name, pattern):\n          yield name, param_name\n\n"
                "  _VERIFY_GAINS_BIASES = False\n")]},
    {"id": "control-loop-to-comprehension", "expect": None,
     "edits": [(TS, "      new_indices = []\n      for original_index in original_indices:\n"
                    "        new_indices.append(original_to_new_index_map[original_index])\n",
                "      new_indices = [original_to_new_index_map[i] for i in original_indices]\n")]},
    {"id": "control-shared-check-helper", "expect": None,
     "edits": [(TS, _CHECK_2D, "    _check_2d(data)\n", 3),
               (TS, "@dataclass(frozen=True)\nclass TimeSeries", "def _check_2d(data: np.ndarray) -> None:\n  if data.ndim != 2:\n"
                    "    raise ValueError(\n        \"The 'data' array must be 2-dimensional (Time x Features).\"\n    )\n\n\n"
                    "@dataclass(frozen=True)\nclass TimeSeries")]},
    {"id": "control-resample-elif-chain", "expect": None, "edits": [(TS, _RESAMPLE_OLD, _RESAMPLE_NEW)]},
    {"id": "control-closure-on-copy", "expect": None,
     "edits": [(SM, "  ts_delayed.data[:, indices] = ts_sensor_delayed.data\n",
                "  def _write(values):\n    ts_delayed.data[:, indices] = values\n\n  _write(ts_sensor_delayed.data)\n")]},
]


def selftest(res):
    from .. import r_misc
    r_misc.run_mutants("C48", res, MUTANTS, parts=("python/mujoco",))


if __name__ == "__main__":          # enumeration behind the floors: entry points, their caller-owned parameters and settings
    _prog = pyalias.Program(FILES, exempt_receivers=EXEMPT_RECEIVERS)
    for _f, _s in _prog.analyse_all():
        if _prog.is_entry_point(_f):
            print(_f.qual, "owned:", [p for p in _s.owned if p not in _s.exempt], "exempt:", sorted(_s.exempt),
                  "settings:", [p for p, a in _f.ann.items() if has_numeric(ann_type(a))])
