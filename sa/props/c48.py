"""C48 System-identification signal transforms are pure.

Decides, for every function and method of signal_modifier.py, signal_transform.py and timeseries.py
(python/mujoco/sysid/_src), by an alias/mutation analysis of the source (sa.pyalias; nothing is executed):

R-PURITY   every in-place operation (subscript store/delete, augmented assignment, attribute store,
           in-place method, numpy in-place function, `out=` argument, MuJoCo C-API output argument) is
           applied to a value that cannot be (a view of) memory owned by a parameter: not the parameter,
           not an attribute of it, not a basic slice / asarray / reshape of it, and not a field of an
           object that was constructed from it by a class that stores its arguments un-copied
           (TimeSeries is a frozen dataclass without copying: derived from its class body).
R-NEWOBJ   the modifiers (functions of signal_modifier.py and instance methods of TimeSeries that are
           annotated to return a TimeSeries) return a newly constructed object on every path, never the
           object passed in.
Does not decide: interpolation values, column-by-column equality of the grouped resampling.
"""
from __future__ import annotations

import ast

from .. import pyalias
from ..cfront import AnalysisError

FILES = [
    "python/mujoco/sysid/_src/signal_modifier.py",
    "python/mujoco/sysid/_src/signal_transform.py",
    "python/mujoco/sysid/_src/timeseries.py",
]

# `self` of these classes is the receiver of a builder/registration method, not a time series or array
# passed in: the property quantifies over series and arrays given to the modifiers.
EXEMPT_RECEIVERS = {
    "SignalTransform": "declarative registry of transforms (delay/gain/bias/enable_sensors append to it by design); "
                       "it holds no series data",
}

# hand-confirmed on the pinned tree (see the enumeration in the final report of the checker's author)
FLOOR_FUNCTIONS = 52      # 13 signal_modifier + 12 SignalTransform + 7 module-level timeseries + 20 TimeSeries
FLOOR_SITES = 49          # classified in-place sites (subscript stores, augmented assignments, in-place methods, self.x=)
FLOOR_NEWOBJ = 8          # apply_bias/gain/delay/time_window/delayed_ts_window/resample_and_delay, resample, remove_from_beginning
ANCHORS = {"apply_bias", "apply_gain", "apply_delay", "apply_time_window", "apply_resample_and_delay",
           "TimeSeries.resample", "TimeSeries.interpolate", "SignalTransform.apply"}

SERIES_CLASS = "TimeSeries"


def _returns_series(f) -> bool:
    r = f.node.returns
    names = pyalias._ann_names(r) if r is not None else set()
    return any(n.split(".")[-1] == SERIES_CLASS for n in names)


def _has_series_param(f) -> bool:
    for p in f.params:
        ann = f.ann.get(p)
        if ann is not None and any(n.split(".")[-1] == SERIES_CLASS for n in pyalias._ann_names(ann)):
            return True
    return False


def run(res, tier):
    prog = pyalias.Program(FILES, exempt_receivers=EXEMPT_RECEIVERS)
    results = prog.analyse_all()
    quals = {f.qual for f, _ in results}
    missing = ANCHORS - quals
    if missing:
        raise AnalysisError(f"anchor functions vanished: {sorted(missing)}")
    if prog.find_class(SERIES_CLASS) is None:
        raise AnalysisError("class TimeSeries not found in timeseries.py")
    if len(results) < FLOOR_FUNCTIONS:
        raise AnalysisError(f"only {len(results)} functions analysed, below the confirmed floor {FLOOR_FUNCTIONS}")

    res.rule("R-PURITY", "no in-place operation reaches memory owned by a parameter (alias lattice fresh / "
             "view-of(param.path); constructor calls propagate field aliases)", floor=FLOOR_SITES)
    res.rule("R-NEWOBJ", "a modifier annotated to return a TimeSeries returns a newly constructed object on every path",
             floor=FLOOR_NEWOBJ)

    res.trusted = ["CPython 3.11 ast parser", "numpy allocation/view semantics as tabulated in sa/pyalias.py"]
    res.count("files", len(FILES))
    res.count("functions", len(results))
    status_count = {}
    for f, s in results:
        for site in s.sites:
            status_count[site.status] = status_count.get(site.status, 0) + 1
            construct = site.construct()
            if site.status == "view":
                res.bad("R-PURITY", construct, site.file, site.line,
                        f"{site.func}: {site.kind} on `{site.target}` writes memory owned by the caller "
                        f"(may alias parameter {', '.join(sorted(site.origins))})"
                        + (f" — {site.detail}" if site.detail else ""))
            else:
                res.ok("R-PURITY", construct,
                       {"file": site.file, "line": site.line, "target": site.target, "class": site.status,
                        "why": site.detail or {"fresh": "target is freshly allocated on every path",
                                               "init": "initialisation of self",
                                               "config": "registry receiver",
                                               "deferred": "private helper: judged at its call sites"}[site.status]})
    for k, v in sorted(status_count.items()):
        res.count("sites_" + k, v)

    # R-NEWOBJ
    for f, s in results:
        mod_is_modifiers = f.mod.rel.endswith("signal_modifier.py")
        is_series_method = (f.cls is not None and f.cls.name == SERIES_CLASS and not f.static and not f.classmethod)
        if not _returns_series(f):
            continue
        if not ((mod_is_modifiers and f.cls is None and _has_series_param(f)) or is_series_method):
            continue
        construct = f"{f.qual}:return"
        if s.ret is None:
            res.bad("R-NEWOBJ", construct, f.mod.rel, f.node.lineno, f"{f.qual} never returns a value")
        elif s.ret.own:
            lines = [n.lineno for n in ast.walk(f.node) if isinstance(n, ast.Return)]
            res.bad("R-NEWOBJ", construct, f.mod.rel, lines[0] if lines else f.node.lineno,
                    f"{f.qual} may return the object passed in ({', '.join(sorted(s.ret.own))}) instead of a new TimeSeries")
        else:
            res.ok("R-NEWOBJ", construct, {"file": f.mod.rel, "line": f.node.lineno, "returns": repr(s.ret)})

    alias = pyalias.constructor_aliasing(prog, SERIES_CLASS)
    res.extra["constructor_stores_argument_uncopied"] = {SERIES_CLASS: alias}
    res.extra["exempt_receivers"] = EXEMPT_RECEIVERS
    res.explanation = (
        "Alias/mutation analysis (ast only) of every function and method of signal_modifier.py, "
        "signal_transform.py and timeseries.py. Abstract values: fresh, view-of(parameter.path), objects with "
        "per-field values; TimeSeries(...) propagates its arguments into its fields because the dataclass stores "
        "them un-copied (derived from the class body: " + repr(alias) + "). Every in-place site is classified; a "
        "site whose target may be a view of a parameter is a violation. Joins take the union (view wins), loops "
        "run to a fixpoint, private helpers are judged at their call sites. R-NEWOBJ: the modifiers return a "
        "newly constructed TimeSeries on every path.")
    res.not_decided = ("interpolation values (range of neighbouring samples), equality of grouped and column-wise "
                       "resampling, identity resampling.")
    res.assumptions = [
        "numpy/scipy functions listed as allocating in sa/pyalias.py allocate; functions not listed are treated as "
        "returning a view of their arguments (conservative)",
        "numpy/scipy functions other than the listed in-place ones (copyto, place, put, putmask, fill_diagonal, "
        "put_along_axis, random.shuffle, ufunc.at, out=) do not write their array arguments",
        "values annotated np.ndarray (TimeSeries.times/.data) are numeric arrays, not object arrays",
        "`self` of SignalTransform is a registry, not a series passed in",
    ]
