"""C50 Visualization scene construction is bounded (and reports overflow through the scene status).

Decided (clang AST of all engine TUs; all-paths exploration with correlated predicates; nothing is executed):
  R-ACQUIRE-SHAPE  acquireGeom (anchor) and every other function that forms a writable pointer into `scn->geoms`: NULL is
                   returned only where `scn->ngeom >= scn->maxgeom` is known and `scn->status` is known non-zero; the warning
                   runs only where status is known zero (once); a slot is returned only where `ngeom < maxgeom` is known, and
                   it is the current slot `scn->geoms + scn->ngeom`
  R-RELEASE-SHAPE  every function that increments `scn->ngeom`: increment by one, once, only where
                   `*geom == scn->geoms + scn->ngeom` is known (the other branch never reaches it), and `*geom` is nulled
  R-NULLABLE       every call site of a slot producer: the result is null-tested (that value) before any dereference /
                   store-through / pass, and never used on its NULL branch
  R-WHO-WRITES     every non-read access to mjvScene.{ngeom, maxgeom, geoms, status} in src/engine: ngeom only `= 0` or the
                   validated release increment; maxgeom only together with `geoms = alloc(maxgeom * sizeof(mjvGeom))`;
                   no element store / non-const alias / non-const pass rooted at scn->geoms outside a validated producer
                   (idiom: the free in mjv_freeScene followed by the scene-zeroing call); status raised only by a producer
  R-PAIR           typestate on all paths of every caller: release only of a held (acquired and non-NULL) pointer, never
                   twice, never untested, never after a failed acquire; every acquire site reaches a release on some
                   path (a held slot may be abandoned on other paths: ngeom is not advanced and the next acquire
                   re-initialises the slot — the `if (alpha == 0) continue;` idiom — so only a site that can never be
                   released is a lost geom)
  R-CAPACITY       every decision (if / loop / ?: condition) that reads `scn->maxgeom` or a local computed from it lies in a
                   validated slot producer, or one of its arms reports (non-zero store to scn->status / no-return error call);
                   the capacity leaving a function any other way is exit 2 (cannot be followed)
  R-STATUS-INPUT   `scn->status` is read in a decision only inside the slot producer (warn once): the scene content does not
                   depend on an earlier overflow
  R-INDEX-BOUND    every subscript of a fixed-extent flag array of mjvOption ({geom,site,joint,tendon,actuator,flex,skin}group,
                   flags): interval evaluation of the index under the guards of the site (clamp macros, helpers, early
                   returns, counting loops) gives a range inside [0, extent-1]; decayed passes followed into callees
  R-LIGHTS         `scn->lights + scn->nlight` is formed only where `scn->nlight < K <= extent(lights)` is known on the path;
                   nlight / lights are written only in such functions
Not decided: that the emitted geoms are the enabled model geoms with the simulated pose; flex/skin vertex buffers (their
bound is the model the scene was made for — a relation between two calls, not a capacity test in this file).
"""
from __future__ import annotations

import re

from .. import ctypeinfo, engine, r_acquire, r_nullable
from ..cfront import AnalysisError

ANCHOR = "acquireGeom"
VIS = "src/engine/engine_vis_visualize.c"

# hand-confirmed on the pinned tree
# hand counts on the pinned tree: 40 acquireGeom call sites, 40 releaseGeom call sites, 4 abandon-by-continue idioms
# (`if (thisgeom->rgba[3] == 0) continue;` in addFlexGeoms/addSkinGeoms/addGeomGeoms/addSiteGeoms), 7 non-read accesses
# (ngeom: ++ in release, = 0 in updateScene; maxgeom, geoms in makeScene; free(geoms); alias in acquire; status).
# Floors sit a little below so that a removed instance is reported by its rule rather than by the floor; the abandon
# idiom is only counted (removing it is a legitimate edit).
FLOOR_SITES = 36
FLOOR_RELEASE = 36
FLOOR_WRITES = 6

# callee -> reason: a non-const pass of scn->geoms that is not a slot write
PASS_IDIOMS = {
    "mju_free": "deallocation of the whole array in the scene destructor; accepted only when the same function "
                "afterwards calls a function that zeroes the whole mjvScene (maxgeom = 0, geoms = NULL)",
}

ACQ_KINDS = {"A-null": "null-return-dominated-by-capacity-test", "A-status": "status-set-on-overflow",
             "A-once": "warning-once", "A-warn": "warning-once", "A-cap": "slot-return-bounded",
             "A-slot": "returns-current-slot", "A-mod": "returns-current-slot", "A-ret": "returns-current-slot"}
REL_KINDS = {"R-check": "rejects-foreign-pointer", "R-sig": "rejects-foreign-pointer", "R-step": "increment-by-one-once",
             "R-null": "nulls-released-pointer"}


def _where(tu_defs, name):
    tus = [tu for tu, defs in tu_defs.items() if name in defs]
    if not tus:
        return None
    return tus[0]


def run(res, tier):
    tus = engine.engine_tus()
    res.count("tus", len(tus))
    facts = engine.map_tus("sa.r_acquire", "tu_facts", tus)
    tu_defs = {tu: set(f["defs"]) for tu, f in facts.items()}
    access = [dict(a, tu=tu) for tu, f in sorted(facts.items()) for a in f["access"]]
    zeroes = {n for f in facts.values() for n in f["zeroes"]}
    res.count("scene_field_accesses", len(access))

    # ------------------------------------------------------------------ discover producers and release functions
    if _where(tu_defs, ANCHOR) is None:
        raise AnalysisError(f"anchor {ANCHOR} not found in src/engine")
    acquires = {ANCHOR}
    for a in access:
        if a["field"] == "geoms" and a["ctx"] == "alias":
            acquires.add(a["function"])
    releases = set()
    for a in access:
        if a["field"] == "ngeom" and a["ctx"] == "store" and a["depth"] == 0 and \
                not (a.get("op") == "=" and a.get("rhs_lit") == 0):
            releases.add(a["function"])
    if not releases:
        raise AnalysisError("no function increments mjvScene.ngeom: the release function has vanished")

    units = {}

    def unit_of(name):
        tu = _where(tu_defs, name)
        if tu is None:
            raise AnalysisError(f"function {name} has no definition in src/engine")
        if tu not in units:
            units[tu] = engine.unit(tu)
        return units[tu]

    # ------------------------------------------------------------------ R-ACQUIRE-SHAPE
    res.rule("R-ACQUIRE-SHAPE", "slot producer: NULL only when ngeom >= maxgeom with status set (warning once); a slot only when "
             "ngeom < maxgeom, and it is geoms + ngeom", floor=5)
    good_acquires = set()
    for name in sorted(acquires):
        s = r_acquire.shape_acquire(unit_of(name), name)
        by = {}
        for rp in s["reports"]:
            by.setdefault(ACQ_KINDS.get(rp.get("kind"), "returns-current-slot"), []).append(rp)
        if s["null_returns"] == 0:
            by.setdefault("null-return-dominated-by-capacity-test", []).append(
                {"file": s["file"], "line": s["line"], "msg": f"{name} never returns NULL: a full buffer is not refused"})
        if s["slot_returns"] == 0:
            by.setdefault("slot-return-bounded", []).append(
                {"file": s["file"], "line": s["line"], "msg": f"{name} never returns a slot"})
        if s["warns"] == 0:
            by.setdefault("warning-once", []).append(
                {"file": s["file"], "line": s["line"], "msg": f"{name} never warns about the overflow"})
        for ob in ("null-return-dominated-by-capacity-test", "status-set-on-overflow", "warning-once",
                   "slot-return-bounded", "returns-current-slot"):
            if by.get(ob):
                rp = by[ob][0]
                res.bad("R-ACQUIRE-SHAPE", f"{name}:{ob}", rp["file"], rp["line"], rp["msg"])
            else:
                res.ok("R-ACQUIRE-SHAPE", f"{name}:{ob}", {"file": s["file"], "line": s["line"],
                                                            "null_returns": s["null_returns"], "slot_returns": s["slot_returns"]})
        if not s["reports"] and s["null_returns"] and s["slot_returns"]:
            good_acquires.add(name)

    # ------------------------------------------------------------------ R-RELEASE-SHAPE
    res.rule("R-RELEASE-SHAPE", "every function incrementing scn->ngeom does so by one, once, only after *geom == geoms + ngeom "
             "is known, and nulls *geom", floor=3)
    release_idx = {}
    good_releases = set()
    for name in sorted(releases):
        s = r_acquire.shape_release(unit_of(name), name)
        release_idx[name] = s["geom_index"]
        by = {}
        for rp in s["reports"]:
            by.setdefault(REL_KINDS.get(rp.get("kind"), "rejects-foreign-pointer"), []).append(rp)
        if s["geom"] is not None and s["checks"] == 0 and not by.get("rejects-foreign-pointer"):
            by.setdefault("rejects-foreign-pointer", []).append(
                {"file": s["file"], "line": s["line"], "msg": f"{name} never compares *{s['geom']} with the current slot"})
        for ob in ("rejects-foreign-pointer", "increment-by-one-once", "nulls-released-pointer"):
            if by.get(ob):
                rp = by[ob][0]
                res.bad("R-RELEASE-SHAPE", f"{name}:{ob}", rp["file"], rp["line"], rp["msg"])
            else:
                res.ok("R-RELEASE-SHAPE", f"{name}:{ob}", {"file": s["file"], "line": s["line"]})
        if not s["reports"]:
            good_releases.add(name)

    # ------------------------------------------------------------------ call sites: R-NULLABLE + R-PAIR
    res.rule("R-NULLABLE", "every acquired geom pointer is null-tested (that value) before any use and never used when NULL",
             floor=FLOOR_SITES)
    res.rule("R-PAIR", "release only of a held pointer, at most once per path; every acquire site reaches a release on some path",
             floor=FLOOR_SITES + FLOOR_RELEASE)
    nabandon = 0
    producers = set(acquires)
    # callers are analysed against every function with the release signature (a function that bumps ngeom without a
    # mjvGeom** parameter is already reported by R-RELEASE-SHAPE / R-WHO-WRITES and is not a release for the typestate)
    rel = {n: i for n, i in release_idx.items() if i is not None}
    if not rel:
        raise AnalysisError("no function with the release signature (mjvGeom**, mjvScene*) increments ngeom")
    for _round in range(4):
        caller_tus = sorted(tu for tu, f in facts.items() if set(f["geom_callees"]) & (producers | set(rel)))
        nullable, pairs = {}, {}
        grew = False
        for tu in caller_tus:
            if tu not in units:
                units[tu] = engine.unit(tu)
            u = units[tu]
            nullable[tu] = r_nullable.analyse_unit(u, producers, {})
            pairs[tu] = r_acquire.pairing(u, producers, rel)
            for name, s in nullable[tu].items():
                if s["returns_nullable"] and s["ptr_return"] and name not in producers:
                    producers.add(name)
                    grew = True
            for name, s in pairs[tu].items():
                if s["wrapper"] is not None and name not in rel:
                    rel[name] = s["wrapper"]
                    grew = True
        if not grew:
            break
    else:
        raise AnalysisError("acquire/release wrapper inference did not converge")
    for tu in caller_tus:
        for name, s in pairs[tu].items():
            for callee, var, where in s["escapes"]:
                if callee not in rel:
                    raise AnalysisError(f"{name}: address of geom pointer `{var}` passed to {callee}() at {where}, which is "
                                        f"not a release function or an inferred release wrapper")
    res.extra["producers"] = sorted(producers)
    res.extra["release_functions"] = sorted(rel)
    for tu in caller_tus:
        for name, s in sorted(nullable[tu].items()):
            if name in producers:
                continue
            res.count("functions_with_acquire_calls")
            by = {}
            for rp in s["reports"]:
                if rp.get("kind") in ("N1", "N2"):
                    by.setdefault((rp.get("site"), rp.get("text")), []).append(rp)
            for k, site in enumerate(s["sites"]):
                construct = f"{name}:acquire#{k + 1}"
                bad = by.pop((site["line"], site["text"]), [])
                if not site["tested"] and not bad:
                    bad = [{"file": s["file"], "line": site["line"],
                            "msg": f"result `{site['text']}` of the geom acquisition is never null-tested"}]
                if bad:
                    b = bad[0]
                    msg = b["msg"]
                    if not site["tested"]:
                        msg = (f"result `{site['text']}` of the acquisition at line {site['line']} is never null-tested (a "
                               f"different value is tested, or none); ") + msg
                    res.bad("R-NULLABLE", construct, b["file"], b["line"], msg)
                else:
                    res.ok("R-NULLABLE", construct, {"file": s["file"], "line": site["line"], "var": site["text"]})
            for k, rps in by.items():
                res.bad("R-NULLABLE", f"{name}:{rps[0].get('text')}", rps[0]["file"], rps[0]["line"], rps[0]["msg"])
            for line in s["inline"]:
                res.bad("R-NULLABLE", f"{name}:inline", s["file"], line,
                        "geom acquisition result used without being stored and null-tested")
        for name, s in sorted(pairs[tu].items()):
            by_site, by_rsite, other = {}, {}, []
            for rp in s["reports"]:
                if rp.get("rsite") is not None:
                    by_rsite.setdefault(tuple(rp["rsite"]), []).append(rp)
                elif rp.get("site") is not None:
                    by_site.setdefault(tuple(rp["site"]), []).append(rp)
                else:
                    other.append(rp)
            for site in s["sites"]:
                construct = f"{name}:acquire#{site['ord']}"
                bad = by_site.pop(tuple(site["site"]), [])
                nabandon += len(site["abandoned"])
                if bad:
                    res.bad("R-PAIR", construct, bad[0]["file"], bad[0]["line"], bad[0]["msg"])
                elif not site["released"]:
                    res.bad("R-PAIR", construct, s["file"], site["line"],
                            f"the geom acquired into `{site['var']}` is not released on any path: it is never counted in "
                            f"the scene" + (f" (only abandoned by {site['abandoned']})" if site["abandoned"] else ""))
                else:
                    res.ok("R-PAIR", construct, {"file": s["file"], "line": site["line"], "abandoned_by": site["abandoned"]})
            for r in s["release_calls"]:
                construct = f"{name}:release#{r['ord']}"
                bad = by_rsite.pop(tuple(r["rsite"]), [])
                if bad:
                    res.bad("R-PAIR", construct, bad[0]["file"], bad[0]["line"], bad[0]["msg"])
                else:
                    res.ok("R-PAIR", construct, None)
            for rps in list(by_site.values()) + list(by_rsite.values()) + ([other] if other else []):
                res.bad("R-PAIR", f"{name}:{rps[0].get('kind')}", rps[0]["file"], rps[0]["line"], rps[0]["msg"])
    res.count("abandoned_slots", nabandon)

    # ------------------------------------------------------------------ R-WHO-WRITES
    res.rule("R-WHO-WRITES", "ngeom / maxgeom / geoms / status of mjvScene are written only by release, reset, the allocator "
             "pair and the producer; no store or non-const alias rooted at scn->geoms elsewhere", floor=FLOOR_WRITES)
    cap_cache = {}

    def cap_ok(fname):
        if fname not in cap_cache:
            cap_cache[fname] = r_acquire.cap_alloc(unit_of(fname), fname)
        return cap_cache[fname]

    seen = {}
    for a in access:
        if a["field"] not in ("ngeom", "maxgeom", "geoms", "status") or a["ctx"] == "read":
            continue
        f, fld, ctx = a["function"], a["field"], a["ctx"]
        key = f"{f}:{fld}:{ctx}" + (f":{a['op']}" if a.get("op") else "") + (f":{a['callee']}" if ctx == "pass" else "")
        seen[key] = seen.get(key, 0) + 1
        if seen[key] > 1:
            key += f"#{seen[key]}"
        why = None
        if fld == "ngeom":
            if ctx == "store" and a["depth"] == 0 and a.get("op") == "=" and a.get("rhs_lit") == 0:
                pass
            elif ctx == "store" and a["depth"] == 0 and f in good_releases:
                pass
            elif ctx == "store":
                why = (f"`{a['expr']}` is modified in {f}, which is neither a reset to 0 nor a release function that checks "
                       f"the pointer against the current slot")
            else:
                why = f"`{a['expr']}` escapes ({ctx}) in {f}: the geom count may be changed behind the release function"
        elif fld == "maxgeom":
            if ctx == "store" and a.get("rhs_lit") == 0:
                pass
            elif ctx == "store" and a.get("op") == "=":
                okk, det = cap_ok(f)
                if not okk:
                    why = f"capacity written in {f} without the matching allocation: {det.get('why')}"
            else:
                why = f"`{a['expr']}` is modified ({ctx} {a.get('op', '')}) in {f}: the capacity no longer matches the allocation"
        elif fld == "geoms":
            if ctx == "store" and a["depth"] == 0:
                if not a.get("rhs_node_null"):
                    okk, det = cap_ok(f)
                    if not okk or a.get("op") != "=":
                        why = f"geom array pointer written in {f} without the matching capacity: {det.get('why')}"
            elif ctx == "store":
                why = (f"store through `{a['expr']}` in {f}: a geom is written without going through the slot producer "
                       f"(no capacity test)")
            elif ctx == "alias":
                if f not in good_acquires:
                    why = (f"writable pointer `{a['expr']}` into the geom array is formed in {f}, which does not have the "
                           f"shape of a slot producer (capacity test, status)")
            elif ctx == "pass":
                reason = PASS_IDIOMS.get(a.get("callee"))
                order = facts[a["tu"]]["order"].get(f, [])
                after = False
                hit = False
                for cal, line in order:
                    if cal == a.get("callee") and line == a["line"]:
                        hit = True
                    elif hit and cal in zeroes:
                        after = True
                if not (reason and after):
                    why = (f"`{a['expr']}` is passed to {a.get('callee')}() through a non-const parameter in {f}: geoms may be "
                           f"written without the capacity test")
        elif fld == "status":
            if ctx == "store" and a.get("rhs_lit") == 0:
                pass
            elif ctx == "store" and f in good_acquires:
                pass
            else:
                why = f"`{a['expr']}` is written ({ctx}) in {f}, outside the overflow branch of the slot producer"
        if why:
            res.bad("R-WHO-WRITES", key, a["file"], a["line"], why)
        else:
            res.ok("R-WHO-WRITES", key, {"file": a["file"], "line": a["line"], "expr": a["expr"]})

    # ------------------------------------------------------------------ R-CAPACITY
    res.rule("R-CAPACITY", "the capacity of the geom array (scn->maxgeom, or a local computed from it) takes part in a decision "
             "only inside a validated slot producer, or in a branch one arm of which reports (sets scn->status / calls a "
             "no-return error handler): a private capacity test drops geoms without reporting the overflow", floor=1)
    capd = [dict(c, tu=tu) for tu, f in sorted(facts.items()) for c in f.get("capacity", [])]
    res.count("capacity_decisions", len(capd))
    nth = {}
    for c in capd:
        f = c["function"]
        nth[(f, c["kind"])] = nth.get((f, c["kind"]), 0) + 1
        key = f"{f}:capacity-{c['kind']}#{nth[(f, c['kind'])]}"
        if f in acquires:
            # the producer's own capacity test is judged by R-ACQUIRE-SHAPE (a producer that fails there is reported there)
            res.ok("R-CAPACITY", key, {"file": c["file"], "line": c["line"], "expr": c["expr"], "where": "slot producer"})
        elif c["kind"] == "cond" and c["reported"]:
            res.ok("R-CAPACITY", key, {"file": c["file"], "line": c["line"], "expr": c["expr"], "where": "reporting branch"})
        elif c["kind"] == "cond":
            res.bad("R-CAPACITY", key, c["file"], c["line"],
                    f"`{c['expr']}` in {f} decides on the scene capacity outside the slot producer and no arm sets scn->status or "
                    f"raises an error: geoms are dropped (or work is skipped) without the overflow being reported")
        else:
            raise AnalysisError(f"{c['file']}:{c['line']}: the scene capacity leaves {f} through `{c['expr']}` (not a decision, not "
                                f"inside a slot producer): R-CAPACITY cannot follow it")
    if not any(c["function"] in acquires for c in capd):
        raise AnalysisError("no capacity decision found inside the validated slot producers: the capacity test has moved")

    # ------------------------------------------------------------------ R-STATUS-INPUT
    res.rule("R-STATUS-INPUT", "scn->status is an output: outside the slot producer (which reads it to warn once) no decision depends on "
             "it, directly or through a local — otherwise what a scene holds depends on whether an earlier update overflowed, not "
             "only on model, data and options", floor=1)
    std = [dict(c, tu=tu) for tu, f in sorted(facts.items()) for c in f.get("statusreads", [])]
    nth = {}
    for c in std:
        f = c["function"]
        nth[(f, c["kind"])] = nth.get((f, c["kind"]), 0) + 1
        key = f"{f}:status-{c['kind']}#{nth[(f, c['kind'])]}"
        if f in acquires:
            res.ok("R-STATUS-INPUT", key, {"file": c["file"], "line": c["line"], "expr": c["expr"], "where": "slot producer"})
        elif c["kind"] == "cond" and c.get("inert"):
            res.ok("R-STATUS-INPUT", key, {"file": c["file"], "line": c["line"], "expr": c["expr"], "where": "reporting only"})
        elif c["kind"] == "cond":
            res.bad("R-STATUS-INPUT", key, c["file"], c["line"],
                    f"`{c['expr']}` in {f} decides on scn->status, which only makeScene / freeScene reset: after one overflowing update "
                    f"every later update of the same scene takes this branch, so the scene is no longer a function of model, data and "
                    f"options")
        else:
            raise AnalysisError(f"{c['file']}:{c['line']}: scn->status leaves {f} through `{c['expr']}` (not a decision, not inside a "
                                f"slot producer): R-STATUS-INPUT cannot follow it")
    if not any(c["function"] in acquires for c in std):
        raise AnalysisError("the slot producer no longer reads scn->status (warning-once test): the status protocol has moved")

    # ------------------------------------------------------------------ R-INDEX-BOUND
    res.rule("R-INDEX-BOUND", "every subscript of a fixed-extent flag array of mjvOption (group tables, flags) has an index whose "
             "interval under the guards of the site lies inside [0, extent-1] (interval evaluation of the index expression; "
             "decayed passes are followed into the callee's parameter, also across translation units)", floor=60)
    from .. import r_bound, ctypeinfo as _cti
    isites = [dict(c, tu=tu) for tu, f in sorted(facts.items()) for c in f.get("index", [])]
    extra = []
    for c in isites:
        if c["via"].startswith("pass:") and c.get("callee") and c.get("argi") is not None and _where(tu_defs, c["callee"]):
            sub = r_bound.param_sites(unit_of(c["callee"]), c["callee"], c["argi"], _cti.load()["enumerators"])
            for r2 in sub:
                extra.append(dict(c, function=f"{c['function']}>{r2['function']}", index=r2["index"], lo=r2["lo"], hi=r2["hi"],
                                  via=r2["via"], line=r2["line"] or c["line"], file=_where(tu_defs, c["callee"])))
            c["via"] = "followed"
    nth = {}
    unfollowed = 0
    for c in isites + extra:
        if c["via"] == "followed":
            continue
        k0 = f"{c['function']}:{c['member']}"
        nth[k0] = nth.get(k0, 0) + 1
        key = f"{k0}#{nth[k0]}"
        if c["lo"] is None and (c["via"] == "subscript" or c["via"].startswith("param:")):
            raise AnalysisError(f"{c['file']}:{c['line']}: `{c['member']}[{c['index']}]` in {c['function']} lies in a construct the "
                                f"interval analysis does not enter: R-INDEX-BOUND cannot decide it")
        if c["lo"] is None:
            unfollowed += 1
            continue
        inside = c["lo"] >= 0 and c["hi"] <= c["extent"] - 1
        if not inside and c.get("caller_contract") and (c["lo"] == -r_bound.INF or c["hi"] == r_bound.INF):
            raise AnalysisError(f"{c['file']}:{c['line']}: the index of `{c['member']}[{c['index']}]` in {c['function']} comes from a "
                                f"scalar parameter with no bound inside the function: its range is the callers' contract, which "
                                f"R-INDEX-BOUND does not follow")
        if inside:
            res.ok("R-INDEX-BOUND", key, {"file": c["file"], "line": c["line"], "index": c["index"], "interval": [c["lo"], c["hi"]]})
        else:
            lo = "-inf" if c["lo"] == -r_bound.INF else c["lo"]
            hi = "+inf" if c["hi"] == r_bound.INF else c["hi"]
            res.bad("R-INDEX-BOUND", key, c["file"], c["line"],
                    f"`{c['member']}[{c['index']}]` (extent {c['extent']}): the index ranges over [{lo}, {hi}] at this site, not inside "
                    f"[0, {c['extent'] - 1}] — the flag read belongs to a neighbouring table (or lies outside mjvOption), so the set "
                    f"of drawn elements no longer follows the group / flag the user set")
    res.count("option_index_sites", len(isites) + len(extra))
    res.count("option_array_uses_not_followed", unfollowed)

    # ------------------------------------------------------------------ R-LIGHTS
    res.rule("R-LIGHTS", "a light slot scn->lights + scn->nlight is formed only where nlight < K <= extent is known; nlight/lights "
             "written only there", floor=4)
    ext = None
    for fd in ctypeinfo.fields("mjvScene_"):
        if fd["name"] == "lights":
            m = re.search(r"\[(\d+)\]", fd["dtype"] or fd["type"] or "")
            ext = int(m.group(1)) if m else None
    if ext is None:
        raise AnalysisError("mjvScene.lights is not a fixed-extent array any more")
    light_funcs = sorted({a["function"] for a in access if a["field"] in ("nlight", "lights") and a["ctx"] != "read"})
    if not light_funcs:
        raise AnalysisError("no function writes mjvScene.nlight / lights")
    lres = {}
    for f in light_funcs:
        lres[f] = r_acquire.lights(unit_of(f), f, ext)
        s = lres[f]
        if s["reports"]:
            for rp in s["reports"]:
                res.bad("R-LIGHTS", f"{f}:light-slot-bounded", rp["file"], rp["line"], rp["msg"])
        else:
            res.ok("R-LIGHTS", f"{f}:light-slot-bounded", {"aliases": s["aliases"], "extent": ext})
    seen = {}
    for a in access:
        if a["field"] not in ("nlight", "lights") or a["ctx"] == "read":
            continue
        f = a["function"]
        key = f"{f}:{a['field']}:{a['ctx']}" + (f":{a['op']}" if a.get("op") else "")
        seen[key] = seen.get(key, 0) + 1
        if seen[key] > 1:
            key += f"#{seen[key]}"
        s = lres[f]
        why = None
        if a["field"] == "nlight":
            if not (a["ctx"] == "store" and a["depth"] == 0):
                why = f"`{a['expr']}` escapes ({a['ctx']}) in {f}"
            elif a.get("op") == "=" and a.get("rhs_lit") == 0:
                pass
            elif a.get("op") not in ("++",) and not (a.get("op") == "+=" and a.get("rhs_lit") == 1):
                why = f"`{a['expr']}` is changed by something other than a reset or an increment by one in {f}"
            elif s["aliases"] == 0:
                why = f"`{a['expr']}` is incremented in {f}, which never forms a bounded light slot"
        else:
            if a["ctx"] == "store":
                why = f"direct store through `{a['expr']}` in {f}: index not bounded by a capacity test"
            elif a["ctx"] in ("alias", "pass") and s["reports"]:
                why = f"light slot `{a['expr']}` formed in {f} without a dominating nlight < {ext} test"
        if why:
            res.bad("R-LIGHTS", key, a["file"], a["line"], why)
        else:
            res.ok("R-LIGHTS", key, {"file": a["file"], "line": a["line"], "expr": a["expr"]})

    res.extra["light_extent"] = ext
    res.explanation = (
        "Static analysis of src/engine (clang AST; all-paths exploration with correlated predicates). Decided: the geom slot "
        "producer refuses on ngeom >= maxgeom with status set and a once-only warning, and otherwise returns exactly the "
        "current slot; the release function increments ngeom by one only for the current slot and nulls the pointer; every "
        "acquire call site is null-tested before use; ngeom/maxgeom/geoms/status are written only by release, reset, the "
        "allocation pair and the producer, with no other writable path into scn->geoms; acquire/release typestate on all "
        "paths of all callers (no release without a held pointer, no double release, no lost geom except by an explicit "
        "jump); light slots are bounded by the array extent.")
    res.not_decided = ("that the emitted geoms are exactly the enabled model geoms with the simulated pose; determinism; "
                       "flex/skin buffers (sized from the model at mjv_makeScene, indexed from the model at update time: a "
                       "relation between two calls); plugin `visualize` callbacks and C++ renderers, which write "
                       "scn->geoms directly (outside src/engine/*.c).")
    res.assumptions = ["error handlers (mju_error, mjERROR) do not return",
                       "plugin visualize callbacks and user code outside src/engine respect the same protocol",
                       "abandoning an acquired slot on some paths is part of the protocol (the next acquire re-initialises it)"]


# ------------------------------------------------------------------------------------------------ self-test (thorough tier)
_CONN = ("  mjvGeom* thisgeom = acquireGeom(scn, objid, category, objtype);\n  if (!thisgeom) {\n    return;\n  }\n"
         "  mjv_connector(thisgeom, type, width, from, to);\n  if (rgba) f2f(thisgeom->rgba, rgba, 4);\n"
         "  releaseGeom(&thisgeom, scn);\n")
_TEST = "  if (!thisgeom) {\n    return;\n  }\n"
_SITE_END = ("    if (vopt->label == mjLABEL_SITE) {\n      makeLabel(m, mjOBJ_SITE, i, thisgeom->label);\n    }\n\n"
             "    releaseGeom(&thisgeom, scn);\n")
_RESET = "  // clear geoms\n  scn->ngeom = 0;\n"
_INIT = "src/engine/engine_vis_init.c"
MUTANTS = [
    ("drop-null-test", [(VIS, _CONN, _CONN.replace(_TEST, ""))], "rule=R-NULLABLE construct=addConnector:acquire#1"),
    ("test-other-variable", [(VIS, _CONN, _CONN.replace("if (!thisgeom)", "if (!scn)"))],
     "rule=R-NULLABLE construct=addConnector:acquire#1"),
    ("use-before-test", [(VIS, _CONN, _CONN.replace("  if (!thisgeom) {", "  thisgeom->objid = objid;\n  if (!thisgeom) {"))],
     "rule=R-NULLABLE construct=addConnector:acquire#1"),
    ("ngeom-written-elsewhere", [(VIS, "  addFlexGeoms(m, d, vopt, pert, catmask, scn);\n",
                                  "  scn->ngeom++;\n  addFlexGeoms(m, d, vopt, pert, catmask, scn);\n")],
     "rule=R-WHO-WRITES construct=mjv_addGeoms:ngeom:store"),
    ("store-through-geoms", [(VIS, _RESET, _RESET + "  scn->geoms[catmask].type = 0;\n")],
     "rule=R-WHO-WRITES construct=mjv_updateScene:geoms:store"),
    ("drop-release", [(VIS, _SITE_END, _SITE_END.replace("    releaseGeom(&thisgeom, scn);\n", ""))],
     "rule=R-PAIR construct=addSiteGeoms:acquire#1"),
    ("second-release", [(VIS, _SITE_END, _SITE_END + "    releaseGeom(&thisgeom, scn);\n")],
     "rule=R-PAIR construct=addSiteGeoms:release#2"),
    ("release-on-null-branch", [(VIS, _CONN, _CONN.replace(_TEST, "  if (!thisgeom) {\n    releaseGeom(&thisgeom, scn);\n    return;\n  }\n"))],
     "rule=R-PAIR construct=addConnector:release#1"),
    ("capacity-test-weakened", [(VIS, "  if (scn->ngeom >= scn->maxgeom) {", "  if (scn->ngeom > scn->maxgeom) {")],
     "rule=R-ACQUIRE-SHAPE construct=acquireGeom:slot-return-bounded"),
    ("status-not-set", [(VIS, "      scn->status = 1;\n", "")], "rule=R-ACQUIRE-SHAPE construct=acquireGeom:status-set-on-overflow"),
    ("release-check-removed", [(VIS, "  if (*geom != scn->geoms + scn->ngeom) {\n    mju_error(\"Unexpected geom pointer; did you call "
                                     "acquireGeom?\");\n  }\n", "")],
     "rule=R-RELEASE-SHAPE construct=releaseGeom:rejects-foreign-pointer"),
    ("lights-unbounded", [(VIS, "  for (int i=0; i < m->nlight && scn->nlight < mjMAXLIGHT; i++) {", "  for (int i=0; i < m->nlight; i++) {")],
     "rule=R-LIGHTS construct=mjv_makeLights:light-slot-bounded"),
    ("allocation-mismatch", [(_INIT, "mju_malloc(maxgeom*sizeof(mjvGeom))", "mju_malloc((maxgeom-1)*sizeof(mjvGeom))")],
     "rule=R-WHO-WRITES construct=mjv_makeScene:"),
    ("private-capacity-test", [(VIS, _CONN, "  if (scn->ngeom + 1 > scn->maxgeom) {\n    return;\n  }\n" + _CONN)],
     "rule=R-CAPACITY construct=addConnector:capacity-cond#1"),
    ("private-capacity-test-local", [(VIS, _CONN, "  int room = scn->maxgeom - scn->ngeom;\n  if (room < 1) {\n    return;\n  }\n" + _CONN)],
     "rule=R-CAPACITY construct=addConnector:capacity-cond#1"),
    ("status-early-out", [(VIS, _RESET, _RESET + "  if (scn->status) {\n    return;\n  }\n")],
     "rule=R-STATUS-INPUT construct=mjv_updateScene:status-cond#1"),
    ("ctl-status-report-only", [(VIS, _RESET, _RESET + "  if (scn->status) {\n    mju_warning(\"scene was full\");\n  }\n")], None),
    ("group-clamp-off-by-one", [(VIS, "    if (!vopt->sitegroup[mjMAX(0, mjMIN(mjNGROUP-1, m->site_group[i]))]) {",
                                 "    if (!vopt->sitegroup[mjMAX(0, mjMIN(mjNGROUP, m->site_group[i]))]) {")],
     "rule=R-INDEX-BOUND construct="),
    ("group-clamp-lower-removed", [(VIS, "    if (!vopt->jointgroup[mjMAX(0, mjMIN(mjNGROUP-1, m->jnt_group[i]))]) {",
                                    "    if (!vopt->jointgroup[mjMIN(mjNGROUP-1, m->jnt_group[i])]) {")],
     "rule=R-INDEX-BOUND construct="),
    # controls: behaviour-preserving edits
    ("ctl-group-clamp-local", [(VIS, "    if (!vopt->jointgroup[mjMAX(0, mjMIN(mjNGROUP-1, m->jnt_group[i]))]) {",
                                "    int grp = m->jnt_group[i];\n    if (grp < 0) grp = 0;\n    if (grp > mjNGROUP-1) grp = mjNGROUP-1;\n"
                                "    if (!vopt->jointgroup[grp]) {")], None),
    ("ctl-capacity-test-reports", [(VIS, _CONN, "  if (scn->ngeom + 1 > scn->maxgeom) {\n    mju_error(\"scene full\");\n  }\n" + _CONN)], None),
    ("ctl-if-form", [(VIS, _CONN, "  mjvGeom* thisgeom = acquireGeom(scn, objid, category, objtype);\n  if (thisgeom) {\n"
                                  "    mjv_connector(thisgeom, type, width, from, to);\n    if (rgba) f2f(thisgeom->rgba, rgba, 4);\n"
                                  "    releaseGeom(&thisgeom, scn);\n  }\n")], None),
    ("ctl-rename-local", [("sub", VIS, r"\bthisgeom\b", "g", "void addFrame(mjvScene* scn", "//----------------------------- camera functions")], None),
    ("ctl-reorder", [(VIS, "  mjv_connector(thisgeom, type, width, from, to);\n  if (rgba) f2f(thisgeom->rgba, rgba, 4);\n",
                      "  if (rgba) f2f(thisgeom->rgba, rgba, 4);\n  mjv_connector(thisgeom, type, width, from, to);\n")], None),
    ("ctl-release-wrapper", [(VIS, "// draw 3 cylinders representing a \"frame\" decor element\n",
                              "static void finishGeom(mjvGeom** g, mjvScene* scn) {\n  releaseGeom(g, scn);\n}\n"
                              "// draw 3 cylinders representing a \"frame\" decor element\n"),
                             (VIS, "    thisgeom->rgba[3] = 1;\n    releaseGeom(&thisgeom, scn);", "    thisgeom->rgba[3] = 1;\n    finishGeom(&thisgeom, scn);")], None),
    ("ctl-acquire-wrapper", [(VIS, "// draw 3 cylinders representing a \"frame\" decor element\n",
                              "static mjvGeom* decorGeom(mjvScene* scn, int id) {\n  return acquireGeom(scn, id, mjCAT_DECOR, mjOBJ_UNKNOWN);\n}\n"
                              "// draw 3 cylinders representing a \"frame\" decor element\n"),
                             (VIS, "    mjvGeom* thisgeom = acquireGeom(scn, objid, mjCAT_DECOR, mjOBJ_UNKNOWN);\n    if (!thisgeom) {\n      return;\n    }\n\n    mjv_connector(thisgeom, mjGEOM_CYLINDER",
                              "    mjvGeom* thisgeom = decorGeom(scn, objid);\n    if (!thisgeom) {\n      return;\n    }\n\n    mjv_connector(thisgeom, mjGEOM_CYLINDER")], None),
]


def selftest(res):
    r_acquire.run_mutants("C50", MUTANTS, res)
