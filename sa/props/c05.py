"""C05 Time integration follows the documented schemes.

Decided:
  R-ONCE        `d->time` is advanced by exactly one `+= m->opt.timestep` on every non-error path of mj_advance (never in
                a loop or under a condition); each integrator (mj_EulerSkip, mj_implicitSkip, mj_RungeKutta) calls
                mj_advance exactly once on every returning path; in RK4 the last write of d->time before mj_advance
                restores the value read at function entry
  R-CONST       the constant-folded RK4 tableau (RK4_A, RK4_B initialisers) satisfies the eight order-4 conditions and
                c = row sums (exact rational arithmetic on the initialiser ASTs: representation independent)
  R-WHO-WRITES  inside the simulation closure d->act is written only by the integration layer (mj_advance, RK4 stage
                copies) and the reset path; in mj_advance every store to d->act[...] is the clamping update
                mj_nextActivation(...) or a projection of the stored value itself; mj_nextActivation clips to actrange on
                every non-DCMOTOR path
  R-EXHAUST     mj_integratePosInd, mj_differentiatePos handle every mjtJoint enumerator; quaternion joints (FREE falls
                through to BALL) go through mju_quatIntegrate / mju_subQuat; mj_normalizeQuat covers FREE and BALL;
                mj_step's integrator switch covers every mjtIntegrator enumerator or ends in an error
Not decided: the arithmetic of the update rules; unit norm of quaternions numerically.
"""
from __future__ import annotations

from fractions import Fraction

from .. import callgraph, cir, ctypeinfo, engine, paths
from ..cfront import AnalysisError

FWD = "src/engine/engine_forward.c"
SUP = "src/engine/engine_support.c"


def frac_eval(n):
    n = cir.strip(n)
    if n is None:
        return None
    k = n.get("k")
    if k in ("FloatingLiteral", "IntegerLiteral"):
        try:
            return Fraction(str(n.get("v")))
        except Exception:
            return None
    if k == "UnaryOperator" and n.get("op") in ("-", "+"):
        v = frac_eval(cir.kids(n)[0])
        return None if v is None else (-v if n.get("op") == "-" else v)
    if k == "BinaryOperator":
        a, b = (frac_eval(x) for x in cir.kids(n))
        if a is None or b is None:
            return None
        op = n.get("op")
        if op == "+":
            return a + b
        if op == "-":
            return a - b
        if op == "*":
            return a * b
        if op == "/":
            return a / b if b else None
    return None


def init_values(var):
    il = [c for c in cir.kids(var) if c is not None and c.get("k") == "InitListExpr"]
    if not il:
        return None
    vals = [frac_eval(x) for x in cir.kids(il[0])]
    return None if any(v is None for v in vals) else vals


class CountCalls(paths.Rule):
    """counts calls of one function along each path (capped)"""

    def __init__(self, name):
        self.name = name

    def initial(self, fn):
        return 0

    def call(self, st, node, name, ctx):
        if name == self.name:
            return min(st + 1, 3)
        return st

    def loop_enter(self, st, node, ctx):
        return st

    def ret(self, st, node, ctx):
        if st != 1:
            ctx.report(node, f"{self.name} is called {st if st < 3 else '3+'} times on a path to this return")

    def fallthrough(self, st, ctx):
        if st != 1:
            ctx.report(ctx.fn, f"{self.name} is called {st if st < 3 else '3+'} times on a path to the function end")


class TimeWrites(paths.Rule):
    """state: number of `d->time += ...` executed (capped), and last plain write text"""

    def initial(self, fn):
        return (0, None)

    def assign(self, st, node, ctx):
        k = node.get("k")
        if k in ("BinaryOperator", "CompoundAssignOperator") and cir.text(cir.kids(node)[0]) == "d->time":
            if k == "CompoundAssignOperator":
                ctx.adv.append(node)
                return (min(st[0] + 1, 3), st[1])
            return (st[0], cir.text(cir.kids(node)[1]))
        return st

    def call(self, st, node, name, ctx):
        if name == "mj_advance":
            ctx.at_advance.add(st)
        return st

    def ret(self, st, node, ctx):
        ctx.exits.add(st)

    def fallthrough(self, st, ctx):
        ctx.exits.add(st)


def run(res, tier):
    uf = engine.unit(FWD)
    us = engine.unit(SUP)
    for f in ("mj_advance", "mj_EulerSkip", "mj_implicitSkip", "mj_RungeKutta", "mj_step"):
        if f not in uf.funcs:
            raise AnalysisError(f"anchor {f} missing in {FWD}")
    for f in ("mj_integratePosInd", "mj_differentiatePos", "mj_normalizeQuat", "mj_nextActivation"):
        if f not in us.funcs:
            raise AnalysisError(f"anchor {f} missing in {SUP}")

    # canonical views (static helpers analysed in place); the raw functions are only used for anchors
    from .. import norm

    class _View(dict):
        def __missing__(self, k):
            v = norm.canon(uf, k, nested=False, exclude=("mj_advance",))
            if v is None:
                raise AnalysisError(f"anchor {k} missing in {FWD}")
            self[k] = v
            return v
    ufv = _View()
    # ------------------------------------------------------------------ R-ONCE
    res.rule("R-ONCE", "time advanced exactly once per step; integrators call mj_advance exactly once", floor=5)
    ex = paths.Explorer(TimeWrites(), uf, ufv["mj_advance"])
    ex.ctx.adv, ex.ctx.at_advance, ex.ctx.exits = [], set(), set()
    ex.run()
    counts = {s[0] for s in ex.ctx.exits}
    incs = {cir.text(n) for n in ex.ctx.adv}
    if counts == {1} and incs == {"d->time += m->opt.timestep"}:
        res.ok("R-ONCE", "mj_advance:time", {"statement": sorted(incs)[0]})
    else:
        res.bad("R-ONCE", "mj_advance:time", FWD, ufv["mj_advance"].get("line"),
                f"d->time is advanced {sorted(counts)} times on some path of mj_advance (statements {sorted(incs)}); expected exactly "
                f"one `d->time += m->opt.timestep`")
    # no other function of the step closure advances time
    g = callgraph.build()
    step = g.closure([g.find("mj_step"), g.find("mj_step1"), g.find("mj_step2")])
    for k in sorted(step):
        for e in g.funcs[k]["events"]:
            if e["struct"] == "mjData" and e["field"] == "time" and e["kind"] in ("assign", "elem", "addr", "pass"):
                construct = f"{k[1]}:time-writer"
                if k[1] in ("mj_advance", "mj_RungeKutta") or k[1].startswith("_resetData") or k[1] in ("mj_resetDataKeyframe",):
                    res.ok("R-ONCE", construct, None)
                else:
                    res.bad("R-ONCE", construct, g.funcs[k]["file"], e["line"],
                            f"{k[1]} writes d->time inside the step closure; only mj_advance (and RK4's stage bookkeeping, reset) may")
    for integ in ("mj_EulerSkip", "mj_implicitSkip", "mj_RungeKutta"):
        ctx = paths.explore(CountCalls("mj_advance"), uf, ufv[integ])
        if ctx.reports:
            res.bad("R-ONCE", f"{integ}:mj_advance", FWD, ctx.reports[0]["line"], ctx.reports[0]["msg"])
        else:
            res.ok("R-ONCE", f"{integ}:mj_advance", None)
    # RK4: value of d->time when mj_advance is called is the entry value
    fn = ufv["mj_RungeKutta"]
    ex = paths.Explorer(TimeWrites(), uf, fn)
    ex.ctx.adv, ex.ctx.at_advance, ex.ctx.exits = [], set(), set()
    ex.run()
    entry_vars = {x.get("n") for x in cir.walk(fn) if x.get("k") == "VarDecl" and x.get("init")
                  and cir.text([c for c in cir.kids(x) if c][-1]) == "d->time"}
    reassigned = set()
    for n in cir.walk(fn):
        if (n.get("k") == "BinaryOperator" and n.get("op") == "=") or n.get("k") == "CompoundAssignOperator":
            t = cir.strip(cir.kids(n)[0])
            if t is not None and t.get("k") == "DeclRefExpr":
                reassigned.add((t.get("ref") or {}).get("n"))
    entry_vars -= reassigned
    bad = [s for s in ex.ctx.at_advance if s[1] is not None and s[1] not in entry_vars]
    if not ex.ctx.at_advance:
        raise AnalysisError("mj_RungeKutta: mj_advance not reached")
    if bad or any(s[0] for s in ex.ctx.at_advance):
        res.bad("R-ONCE", "mj_RungeKutta:time-restored", FWD, fn.get("line"),
                f"d->time holds `{bad[0][1] if bad else 'an advanced value'}` when mj_advance runs; the stage times must be undone by restoring "
                f"the value read at entry ({sorted(entry_vars)})")
    else:
        res.ok("R-ONCE", "mj_RungeKutta:time-restored", {"entry_copy": sorted(entry_vars)})

    # ------------------------------------------------------------------ R-CONST (RK4 tableau)
    res.rule("R-CONST", "RK4 tableau satisfies the order-4 conditions", floor=9)
    A = uf.vars.get("RK4_A")
    B = uf.vars.get("RK4_B")
    if A is None or B is None:
        raise AnalysisError("RK4_A / RK4_B not found")
    av, bv = init_values(A), init_values(B)
    if av is None or bv is None or len(bv) != 4 or len(av) != 9:
        raise AnalysisError("RK4 tableau initialisers are not constant-foldable 3x3 / 4 arrays")
    # stage i (1..3) row of A: a[i][j], j<=i-1 ; stage 0 has no row
    a = [[Fraction(0)] * 4 for _ in range(4)]
    for i in range(1, 4):
        for j in range(3):
            a[i][j] = av[(i - 1) * 3 + j]
    b = bv
    c = [sum(a[i]) for i in range(4)]
    explicit = all(a[i][j] == 0 for i in range(4) for j in range(4) if j >= i)
    conds = {
        "explicit(strictly lower triangular)": (explicit, True),
        "sum b = 1": (sum(b), 1),
        "sum b c = 1/2": (sum(b[i] * c[i] for i in range(4)), Fraction(1, 2)),
        "sum b c^2 = 1/3": (sum(b[i] * c[i] ** 2 for i in range(4)), Fraction(1, 3)),
        "sum b a c = 1/6": (sum(b[i] * a[i][j] * c[j] for i in range(4) for j in range(4)), Fraction(1, 6)),
        "sum b c^3 = 1/4": (sum(b[i] * c[i] ** 3 for i in range(4)), Fraction(1, 4)),
        "sum b c a c = 1/8": (sum(b[i] * c[i] * a[i][j] * c[j] for i in range(4) for j in range(4)), Fraction(1, 8)),
        "sum b a c^2 = 1/12": (sum(b[i] * a[i][j] * c[j] ** 2 for i in range(4) for j in range(4)), Fraction(1, 12)),
        "sum b a a c = 1/24": (sum(b[i] * a[i][j] * a[j][k] * c[k] for i in range(4) for j in range(4) for k in range(4)),
                               Fraction(1, 24)),
    }
    for name, (got, want) in conds.items():
        if got == want:
            res.ok("R-CONST", name, {"value": str(got)})
        else:
            res.bad("R-CONST", name, FWD, A.get("line"), f"RK4 tableau violates `{name}`: value {got}")
    # C is computed as row sums in the code: find `C[i-1] += A[...]` pattern presence is implementation; instead require the
    # stage time to use the row sum: T = d->time + C*h where C accumulates A entries (a sum over j of A[..])
    fn = ufv["mj_RungeKutta"]
    vdefs = {}
    for y in cir.walk(fn):
        if y.get("k") == "VarDecl" and y.get("init"):
            _i = [c for c in cir.kids(y) if c is not None and not c.get("k", "").endswith("Attr")]
            if _i:
                vdefs[y.get("n")] = _i[-1]

    def derives(e, what, depth=0):
        """the value of e is read from the global `what`, possibly through local pointer variables"""
        if what in cir.text(e):
            return True
        if depth > 4:
            return False
        return any(v in vdefs and derives(vdefs[v], what, depth + 1) for v in cir.vars_in(e))
    # stage times: stores whose value is d->time plus (something) * h; that something must be accumulated from the tableau A
    coeff = set()
    for n in cir.walk(fn):
        if n.get("k") == "BinaryOperator" and n.get("op") == "=" and "d->time" in cir.text(cir.kids(n)[1]) and \
                cir.text(cir.kids(n)[0]) != "d->time":
            for y in cir.walk(cir.kids(n)[1]):
                if y.get("k") == "ArraySubscriptExpr":
                    coeff.add(cir.base_var(y))
    acc = [n for n in cir.walk(fn) if n.get("k") == "CompoundAssignOperator" and n.get("op") == "+=" and
           cir.base_var(cir.kids(n)[0]) in coeff and derives(cir.kids(n)[1], "RK4_A")]
    if not coeff and res.violations:
        # the stage-time layout is not the recognised one, and a definite violation about d->time is already recorded
        # (R-ONCE): that report is the verdict; the remaining layout-bound clauses are skipped
        res.extra["stage_time_clause"] = "skipped: layout not recognised, violation already reported"
        res.rules["R-CONST"]["floor"] = 0
        return
    if not coeff:
        raise AnalysisError("mj_RungeKutta: stage-time computation (d->time + c*h) not found")
    if acc:
        res.ok("R-CONST", "c = row sums of A", {"statement": cir.text(acc[0]), "coefficients": sorted(coeff)})
    else:
        res.bad("R-CONST", "c = row sums of A", FWD, fn.get("line"), "stage times are not derived from the row sums of the tableau")

    # ------------------------------------------------------------------ R-RK-FINAL
    # the final update of every state part (positions via velocities, velocities, activations) must use the B-weighted sum
    # of the stage derivatives: all derivative arguments of the mj_advance call come from the accumulator filled by the loop
    # that scales with the tableau weights B
    res.rule("R-RK-FINAL", "RK4's final mj_advance takes every derivative from the tableau-weighted accumulator", floor=3)
    fn = ufv["mj_RungeKutta"]
    bvars = {x.get("n") for x in cir.walk(fn) if x.get("k") == "VarDecl" and x.get("init") and "RK4_B" in cir.text([c for c in cir.kids(x) if c][-1])}
    if not bvars:
        raise AnalysisError("mj_RungeKutta: no local bound to the RK4_B weights")
    accs = set()
    for c in cir.calls(fn):
        a = cir.args(c)
        if len(a) >= 3 and any(cir.base_var(x) in bvars for x in a[2:3]):
            accs.add(cir.base_var(a[0]))
    adv = [c for c in cir.calls(fn, "mj_advance")]
    if len(accs) != 1 or len(adv) != 1:
        raise AnalysisError(f"mj_RungeKutta: weighted accumulator / mj_advance call not identified ({accs}, {len(adv)})")
    acc = next(iter(accs))
    # the accumulator must not be rewritten between the B loop and the advance: it is only written by zero + the B-weighted adds
    names = ("act_dot", "qacc", "qvel")
    for pname, a in zip(names, cir.args(adv[0])[2:5]):
        base = cir.base_var(a)
        if base == acc:
            res.ok("R-RK-FINAL", f"mj_advance:{pname}", {"arg": cir.text(a)})
        else:
            res.bad("R-RK-FINAL", f"mj_advance:{pname}", FWD, adv[0].get("line"),
                    f"the final RK4 update passes `{cir.text(a)}` as {pname}; it must be the tableau-weighted sum held in `{acc}` "
                    f"(otherwise that part of the state is advanced by a plain Euler step)")

    # ------------------------------------------------------------------ R-DERIV-TERMS
    # M - h*dF/dv: the derivative assembled for the implicit integrators must contain a term whenever the force contains it.
    # The forward velocity stage calls mj_passive and mj_rne unconditionally and mj_fwdActuation is unconditional in the
    # pipeline, so mjd_smooth_vel may guard its terms only by its own parameters, never by model options.
    res.rule("R-DERIV-TERMS", "mjd_smooth_vel guards its derivative terms only by its own parameters (no option flag the force side lacks)",
             floor=3)
    ud = engine.unit("src/engine/engine_derivative.c")
    sv = ud.funcs.get("mjd_smooth_vel")
    if sv is None:
        raise AnalysisError("mjd_smooth_vel not found")
    from .. import pipeline as _pl
    evs = _pl.Flattener(ud, inline=set()).flatten(sv, {})
    pnames = {p.get("n") for p in cir.params(sv)}
    terms = [e for e in evs if e[0] == "call" and e[1].startswith("mjd_") and e[1].endswith("_vel")]
    if len(terms) < 3:
        raise AnalysisError(f"mjd_smooth_vel: only {len(terms)} derivative term calls found")
    fwd_guards = {}
    for e in _pl.Flattener(uf, inline=set()).flatten(uf.funcs["mj_fwdVelocity"], {}):
        if e[0] == "call":
            fwd_guards[e[1]] = e[-1]
    counterpart = {"mjd_passive_vel": "mj_passive", "mjd_rne_vel": "mj_rne", "mjd_actuator_vel": None}
    for e in terms:
        foreign = [a for a, _p in e[-1] if a not in pnames]
        cp = counterpart.get(e[1])
        allowed = {a for a, _p in fwd_guards.get(cp, ())} if cp else set()
        extra = [a for a in foreign if a not in allowed]
        if extra:
            res.bad("R-DERIV-TERMS", e[1], "src/engine/engine_derivative.c", sv.get("line"),
                    f"`{_pl.fmt(e)}`: the derivative term is skipped under {extra} although the corresponding force "
                    f"({cp or 'mj_fwdActuation'}) is computed regardless: the implicit integrators then solve with a matrix that "
                    f"misses this term")
        else:
            res.ok("R-DERIV-TERMS", e[1], {"guards": [a for a, _ in e[-1]]})

    # ------------------------------------------------------------------ R-WHO-WRITES act
    res.rule("R-WHO-WRITES", "d->act written only by the clamping update / stage copies / reset in the step closure", floor=4)
    allowed = {"mj_advance": "integration: clamping update and documented projections",
               "mj_RungeKutta": "RK4 stage copies, restored before mj_advance",
               "_resetData": "reset (autoreset path of the check functions)",
               "mj_resetDataKeyframe": "reset to keyframe"}
    _callers = {}
    for k2 in g.funcs:
        for c2 in g.callees(k2, indirect=False):
            _callers.setdefault(c2, set()).add(k2)

    def _owners(k, depth=0):
        """non-static functions of the same file that a static helper works for (all transitive callers); empty if unknown"""
        f_ = g.funcs[k]
        if not f_["static"] or depth > 3:
            return {k[1]}
        cs = _callers.get(k, set())
        if not cs:
            return set()
        out = set()
        for c2 in cs:
            if c2 == k:
                continue
            if g.funcs[c2]["file"] != f_["file"]:
                return set()
            o2 = _owners(c2, depth + 1) if g.funcs[c2]["static"] and c2[1] not in allowed else {c2[1]}
            if not o2:
                return set()
            out |= o2
        return out
    for k in sorted(step):
        hits = [e for e in g.funcs[k]["events"] if e["struct"] == "mjData" and e["field"] == "act" and
                e["kind"] in ("assign", "elem", "addr", "pass", "alias")]
        for e in hits:
            if e["kind"] == "alias":
                continue  # a local non-const pointer; followed by the rule below only for mj_advance
            construct = f"{k[1]}:act"
            owners = _owners(k)
            if k[1] in allowed:
                res.ok("R-WHO-WRITES", construct, {"reason": allowed[k[1]]})
            elif owners and all(o in allowed for o in owners):
                res.ok("R-WHO-WRITES", construct, {"reason": "static helper of " + ", ".join(sorted(owners))})
            else:
                res.bad("R-WHO-WRITES", construct, g.funcs[k]["file"], e["line"],
                        f"{k[1]} (step closure) writes d->act via {e['kind']}"
                        + (f" to {e.get('callee')}()" if e.get("callee") else "") + "; activations must only change through "
                        "mj_advance's clamping update")
    adv = ufv["mj_advance"]
    _ldefs = {}
    for y in cir.walk(adv):
        if y.get("k") == "VarDecl" and y.get("init"):
            _i = [c for c in cir.kids(y) if c is not None and not c.get("k", "").endswith("Attr")]
            if _i:
                _ldefs[y.get("id")] = cir.text(_i[-1])
    for _r in range(2):
        for k_, v_ in list(_ldefs.items()):
            for y in cir.walk(adv):
                if y.get("k") == "VarDecl" and y.get("id") == k_:
                    for z in cir.walk(y):
                        if z.get("k") == "DeclRefExpr" and (z.get("ref") or {}).get("id") in _ldefs and z["ref"]["id"] != k_:
                            _ldefs[k_] = v_ + " <- " + _ldefs[z["ref"]["id"]]
    nstores = 0
    for n in cir.walk(adv):
        is_store = (n.get("k") == "BinaryOperator" and n.get("op") == "=") or n.get("k") == "CompoundAssignOperator"
        if not is_store:
            continue
        lhs = cir.text(cir.kids(n)[0])
        if not lhs.startswith("d->act["):
            continue
        nstores += 1
        rhs = cir.strip(cir.kids(n)[1])
        rtxt = cir.text(rhs)
        # values that flow through locals (e.g. the parameter copy of an inlined helper) count by their definition
        for _round in range(3):
            for y in cir.walk(rhs):
                if y.get("k") == "DeclRefExpr" and (y.get("ref") or {}).get("id") in _ldefs:
                    rtxt += " <- " + _ldefs[y["ref"]["id"]]
        if n.get("k") == "BinaryOperator" and cir.is_call(rhs) and cir.callee(rhs) == "mj_nextActivation":
            res.ok("R-WHO-WRITES", "mj_advance:store:nextActivation", {"stmt": cir.text(n)[:120]})
        elif n.get("k") == "CompoundAssignOperator" or "d->act[" in rtxt:
            res.ok("R-WHO-WRITES", "mj_advance:store:projection", {"stmt": cir.text(n)[:120]})
        else:
            res.bad("R-WHO-WRITES", "mj_advance:store:raw", FWD, n.get("line"),
                    f"`{cir.text(n)[:160]}` stores an activation that is neither mj_nextActivation(...) (clamped) nor a projection of "
                    f"the stored value")
    if nstores < 1:
        raise AnalysisError("no store to d->act found in mj_advance")
    # mj_nextActivation: actrange clip on every non-DCMOTOR path
    na = us.funcs["mj_nextActivation"]

    class Clip(paths.Rule):
        # state: (clipped?, dcmotor-known)
        def initial(self, fn):
            return (False, None)

        def call(self, st, node, name, ctx):
            if name == "mju_clip":
                a = [cir.text(x) for x in cir.args(node)]
                if "actrange" in a[1] and "actrange" in a[2]:
                    return (True, st[1])
            return st

        def branch(self, st, cond, taken, ctx):
            t = cir.text(cond)
            if "mjDYN_DCMOTOR" in t and ("==" in t or "!=" in t):
                is_dc = taken if "==" in t else (not taken)
                if st[1] is not None and st[1] != is_dc:
                    return None
                return (st[0], is_dc)
            if t == "m->actuator_actlimited[actuator_id]":
                ctx.limited_seen = True
                if not taken:
                    return (True, st[1])   # not limited: nothing to clip
            return st

        def ret(self, st, node, ctx):
            if not st[0] and st[1] is not True:
                ctx.report(node, "return of an unclipped activation on a non-DCMOTOR path with actlimited set")
    from .. import norm
    na = norm.canon(us, "mj_nextActivation", nested=False)      # helper branches (e.g. a per-dyntype helper) analysed in place
    ctx = paths.explore(Clip(), us, na)
    if ctx.reports:
        res.bad("R-WHO-WRITES", "mj_nextActivation:actrange-clip", SUP, ctx.reports[0]["line"], ctx.reports[0]["msg"])
    else:
        res.ok("R-WHO-WRITES", "mj_nextActivation:actrange-clip", None)

    # ------------------------------------------------------------------ R-EXHAUST
    res.rule("R-EXHAUST", "joint-type and integrator dispatches are exhaustive", floor=4)
    jts = [n for n, _ in ctypeinfo.enum_values("mjtJoint")]
    for fname, quatfn in (("mj_integratePosInd", "mju_quatIntegrate"), ("mj_differentiatePos", "mju_subQuat")):
        # canonical view; the dispatch may be a switch or an if-chain, in the function or in a static helper: for every joint
        # type there is an effect whose guards (on the joint type) admit it, and the quaternion types reach quatfn
        fn = norm.canon(us, fname)
        body = cir.body(fn)
        subj = lambda t: "jnt_type" in t or "type" in t.lower()
        handled, quat_cases = set(), set()
        nsites = 0
        for x in cir.walk(body):
            k_ = x.get("k")
            if not (cir.is_call(x) or (k_ == "BinaryOperator" and x.get("op") == "=") or k_ == "CompoundAssignOperator"):
                continue
            live, constrained = norm.enum_cases(norm.guards(body, x), jts, subj)
            if not constrained:
                continue
            nsites += 1
            handled |= live
            if cir.is_call(x) and cir.callee(x) == quatfn:
                quat_cases |= live
        if not nsites:
            raise AnalysisError(f"{fname}: no statement guarded by the joint type found")
        missing = [j for j in jts if j not in handled]
        line = fn.get("line")
        if missing:
            res.bad("R-EXHAUST", f"{fname}:joint-types", SUP, line, f"{fname} has no case for {missing}")
        elif not {"mjJNT_FREE", "mjJNT_BALL"} <= quat_cases:
            res.bad("R-EXHAUST", f"{fname}:joint-types", SUP, line,
                    f"quaternion joints {sorted({'mjJNT_FREE', 'mjJNT_BALL'} - quat_cases)} do not reach {quatfn}")
        else:
            res.ok("R-EXHAUST", f"{fname}:joint-types", {"handled": sorted(handled), "quaternion_cases": sorted(quat_cases)})
    nq = us.funcs["mj_normalizeQuat"]
    refs = {x["ref"]["n"] for x in cir.walk(nq) if x.get("k") == "DeclRefExpr" and (x.get("ref") or {}).get("k") == "EnumConstantDecl"}
    if {"mjJNT_FREE", "mjJNT_BALL"} <= refs and any(cir.callee(c) == "mju_normalize4" for c in cir.calls(nq)):
        res.ok("R-EXHAUST", "mj_normalizeQuat:joint-types", {"handles": sorted(refs)})
    else:
        res.bad("R-EXHAUST", "mj_normalizeQuat:joint-types", SUP, nq.get("line"), f"mj_normalizeQuat handles only {sorted(refs)}")
    ints = [n for n, _ in ctypeinfo.enum_values("mjtIntegrator")]
    # mj_step: every integrator reaches an integration routine (a call that is not the error handler) under guards on
    # opt.integrator that admit it; switch or if-chain, here or in a static helper
    fstep = norm.canon(uf, "mj_step")
    sbody = cir.body(fstep)
    errv = paths.error_msg_vars(fstep)
    reach = {}
    nsites = 0
    for c in cir.calls(sbody):
        live, constrained = norm.enum_cases(norm.guards(sbody, c), ints, lambda t: "integrator" in t)
        if not constrained:
            continue
        nsites += 1
        if paths.is_noreturn_call(c, errv) or cir.callee(c) in ("mju_message", "snprintf", "mju_warning"):
            continue
        for i_ in live:
            reach.setdefault(i_, set()).add(cir.callee(c))
    if not nsites:
        raise AnalysisError("mj_step: integrator dispatch not found")
    missing = [i for i in ints if i not in reach]
    if missing:
        res.bad("R-EXHAUST", "mj_step:integrators", FWD, fstep.get("line"),
                f"integrators {missing} reach no integration routine in mj_step (no case, or only the error default)")
    else:
        res.ok("R-EXHAUST", "mj_step:integrators", {"reach": {k_: sorted(str(x) for x in v) for k_, v in sorted(reach.items())}})

    res.explanation = (
        "Exactly-once rules on all paths (time increment, mj_advance per integrator, RK4 time restoration), exact rational "
        "check of the order-4 conditions on the constant-folded tableau, ownership of d->act writes in the step closure and "
        "shape of the stores in mj_advance, actrange clip on all non-DCMOTOR paths of mj_nextActivation, exhaustiveness of "
        "joint-type and integrator dispatches.")
    res.not_decided = "the arithmetic of each update rule; the linear solve of the implicit integrators; numerical unit norm."
    res.assumptions = ["error handlers do not return"]
