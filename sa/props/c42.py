"""C42 Schema generators faithfully translate any valid schema (doc/generate/generate_*.py) -- partial.

Static rules over the seven generators (and mjcf_schema.py where they consume it), ast only:
 R-DETERMINISM     no order-sensitive use of a set-typed value, no hash/id/time/random/environment reads
 R-EXHAUST         every dispatch over attribute type / cardinality / constraint kind covers the vocabulary that
                   mjcf_schema.py itself defines (read by literal evaluation), or has an explicit default / raise
 R-EXHAUST-MEMBER  attributes read from members of a Group/Element are declared by every class the member may have
 R-ASSUME-GUAR     lookups in schema.enums/groups/elements use keys the validator has checked (or keys of the table);
                   the schema a generator sees always comes from parse_file/parse_string
 R-RECURSION       element-tree walks (recursive or work-list) carry an ancestry/visited guard, because the validator
                   does not make element nesting acyclic
Not decided: that the emitted text is the right text for every schema.
"""
from __future__ import annotations

import ast

from .. import pyfront as P
from ..cfront import AnalysisError

LEVEL = "other"
DIR = "doc/generate/"


def _mods():
    return [P.load(b) for b in P.GENERATORS]


def _file(mod):
    return mod.rel


# ============================================================================ R-DETERMINISM
ORDER_FREE_CALLS = {"len", "sorted", "set", "frozenset", "any", "all", "min", "max", "bool", "isinstance"}
ORDER_FREE_METHODS = {"add", "update", "discard", "union", "intersection", "difference", "symmetric_difference",
                      "issubset", "issuperset", "isdisjoint", "copy", "clear", "__contains__", "remove"}
NONDET_CALLS = {"hash", "id"}
NONDET_MODULES = {"time", "random", "datetime", "uuid", "secrets", "tempfile"}
NONDET_ATTRS = {"os.environ", "os.getenv", "os.listdir", "os.scandir", "os.walk", "os.getpid", "glob.glob", "glob.iglob",
                "os.urandom", "sys.argv"}


class SetTypes:
    """Which names / self attributes / parameters of a module hold sets (local, syntactic inference)."""

    def __init__(self, mod):
        self.mod = mod
        self.names = {}      # (Func|None, name) -> True
        self.attrs = set()   # (class, attr)
        changed = True
        while changed:
            changed = False
            for fn in [None] + list(mod.funcs.values()):
                for n in mod.nodes(fn):
                    tgt = val = None
                    if isinstance(n, ast.Assign):
                        tgt, val = n.targets[0], n.value
                    elif isinstance(n, ast.AugAssign) and isinstance(n.op, (ast.BitOr, ast.BitAnd, ast.Sub, ast.BitXor)):
                        tgt, val = n.target, n.value
                    elif isinstance(n, ast.AnnAssign) and n.value is not None:
                        tgt, val = n.target, n.value
                    if tgt is None or not self.is_set(val, fn):
                        continue
                    if isinstance(tgt, ast.Name):
                        key = (self._scope(tgt.id, fn), tgt.id)
                        if key not in self.names:
                            self.names[key] = True
                            changed = True
                    elif isinstance(tgt, ast.Attribute) and isinstance(tgt.value, ast.Name) and tgt.value.id == "self" and fn and fn.cls:
                        if (fn.cls, tgt.attr) not in self.attrs:
                            self.attrs.add((fn.cls, tgt.attr))
                            changed = True
            # parameters: set-typed when every call site passes a set
            for fn in mod.funcs.values():
                sites = P.call_sites(fn, list(mod.funcs.values()))
                for pn in fn.params:
                    if (fn, pn) in self.names or not sites:
                        continue
                    args = [P.bind_args(c, fn).get(pn) for _, c in sites]
                    dflt = _default_of(fn, pn)
                    if all((a is not None and self.is_set(a, caller)) or
                           (a is None and dflt is not None and self.is_set(dflt, fn.parent))
                           for a, (caller, _) in zip(args, sites)):
                        self.names[(fn, pn)] = True
                        changed = True

    def _scope(self, name, fn):
        f = fn
        while f is not None:
            if name in f.params or name in P.stores_of(f):
                return f
            f = f.parent
        return None

    def is_set(self, e, fn):
        if isinstance(e, (ast.Set, ast.SetComp)):
            return True
        if isinstance(e, ast.Call) and isinstance(e.func, ast.Name) and e.func.id in ("set", "frozenset"):
            return True
        if isinstance(e, ast.BinOp) and isinstance(e.op, (ast.BitOr, ast.BitAnd, ast.Sub, ast.BitXor)):
            return self.is_set(e.left, fn) or self.is_set(e.right, fn)
        if isinstance(e, ast.Name):
            return (self._scope(e.id, fn), e.id) in self.names
        if isinstance(e, ast.Attribute) and isinstance(e.value, ast.Name) and e.value.id == "self" and fn is not None and fn.cls:
            return (fn.cls, e.attr) in self.attrs
        if isinstance(e, ast.Attribute) and isinstance(e.value, ast.Name) and e.value.id in self.mod.imports:
            target = self.mod.imports[e.value.id]
            try:
                other = P.load(target + ".py")
            except AnalysisError:
                return False
            return (None, e.attr) in _settypes(other).names
        if isinstance(e, ast.Call) and isinstance(e.func, ast.Attribute) and e.func.attr in (
                "union", "intersection", "difference", "copy") and self.is_set(e.func.value, fn):
            return True
        return False


def _default_of(fn, pname):
    a = fn.node.args
    pos = a.posonlyargs + a.args
    for p, d in zip(pos[len(pos) - len(a.defaults):], a.defaults):
        if p.arg == pname:
            return d
    for p, d in zip(a.kwonlyargs, a.kw_defaults):
        if p.arg == pname:
            return d
    return None


_ST = {}


def _settypes(mod):
    key = (mod.path,)
    if key not in _ST:
        _ST[key] = None          # recursion guard for mutual imports
        _ST[key] = SetTypes(mod)
    st = _ST[key]
    if st is None:
        class _E:
            names = {}
        return _E()
    return st


def _commutative_fold(loop, st, fn):
    """for x in S: v = v.replace(x, <const>) with S a literal set of single characters: deletions/replacements of
    distinct single characters by one constant commute."""
    if len(loop.body) != 1 or not isinstance(loop.target, ast.Name):
        return False
    b = loop.body[0]
    if not (isinstance(b, ast.Assign) and isinstance(b.targets[0], ast.Name) and isinstance(b.value, ast.Call)):
        return False
    c = b.value
    if not (isinstance(c.func, ast.Attribute) and c.func.attr == "replace" and isinstance(c.func.value, ast.Name)
            and c.func.value.id == b.targets[0].id and len(c.args) == 2 and isinstance(c.args[0], ast.Name)
            and c.args[0].id == loop.target.id and isinstance(c.args[1], ast.Constant) and c.args[1].value == ""):
        return False
    src = loop.iter
    if isinstance(src, ast.Name):
        stores = P.stores_of(fn).get(src.id, []) if fn else []
        if len(stores) != 1 or not isinstance(stores[0]._parent, ast.Assign):
            return False
        src = stores[0]._parent.value
    return isinstance(src, ast.Set) and all(isinstance(e, ast.Constant) and isinstance(e.value, str) and len(e.value) == 1
                                            for e in src.elts)


def _set_context(n, st, fn):
    """(ok, idiom-or-reason) for a set-typed expression node n, judged by how its value is consumed."""
    p = n._parent
    fld = n._field
    if any(isinstance(a, ast.Raise) for a in P.ancestors(n)):
        return True, "DIAGNOSTIC (text of a raised exception is not generated output)"
    if isinstance(p, ast.Compare) and fld == "comparators" and isinstance(p.ops[n._idx], (ast.In, ast.NotIn)):
        return True, "MEMBERSHIP"
    if isinstance(p, ast.Compare):
        return True, "SET-COMPARISON"
    if isinstance(p, ast.BinOp) and isinstance(p.op, (ast.BitOr, ast.BitAnd, ast.Sub, ast.BitXor)):
        return True, "SET-ALGEBRA"
    if isinstance(p, ast.AugAssign):
        return True, "SET-ALGEBRA"
    if isinstance(p, (ast.Assign, ast.AnnAssign)) and fld == "value":
        t = p.targets[0] if isinstance(p, ast.Assign) else p.target
        if isinstance(t, ast.Name) or (isinstance(t, ast.Attribute) and isinstance(t.value, ast.Name) and t.value.id == "self"):
            return True, "BINDING (tracked)"
        return False, f"stored into `{P.text(t)}`, which is not tracked"
    if isinstance(p, (ast.Assign, ast.AnnAssign, ast.AugAssign)) and fld in ("targets", "target"):
        return True, "BINDING (tracked)"
    if isinstance(p, ast.Attribute) and fld == "value":
        if p.attr in ORDER_FREE_METHODS:
            return True, "SET-METHOD"
        return False, f"`.{p.attr}` on a set is order-sensitive or unknown"
    if isinstance(p, ast.Call) and fld == "args":
        if isinstance(p.func, ast.Name) and p.func.id in ORDER_FREE_CALLS:
            return True, f"ORDER-FREE {p.func.id}()"
        kind, tg = P.resolve(p, fn) if fn is not None else ("unknown", None)
        if kind == "func":
            ok = True
            for g in tg:
                b = {id(v): k for k, v in P.bind_args(p, g).items()}
                pn = b.get(id(n))
                if pn is None or (g, pn) not in _settypes(g.mod).names:
                    ok = False
            if ok:
                return True, "ARGUMENT (parameter tracked as set)"
        return False, f"passed to `{P.text(p.func)}(...)`, which may depend on iteration order"
    if isinstance(p, ast.arguments) and fld in ("defaults", "kw_defaults"):
        owner = p._parent
        g = next((x for x in n._mod.funcs.values() if x.node is owner), None)
        if g is not None and any((g, pn) in st.names and _default_of(g, pn) is n for pn in g.params):
            return True, "DEFAULT (parameter tracked as set)"
        return False, "default of a parameter that is not tracked as a set"
    if isinstance(p, ast.keyword):
        call = p._parent
        kind, tg = P.resolve(call, fn) if fn is not None else ("unknown", None)
        if kind == "func" and all((g, p.arg) in _settypes(g.mod).names for g in tg):
            return True, "ARGUMENT (parameter tracked as set)"
        return False, f"passed as {p.arg}= to `{P.text(call.func)}`"
    if isinstance(p, (ast.If, ast.While, ast.IfExp)) and fld == "test":
        return True, "TRUTHINESS"
    if isinstance(p, ast.BoolOp) or (isinstance(p, ast.UnaryOp) and isinstance(p.op, ast.Not)):
        return True, "TRUTHINESS"
    if isinstance(p, ast.comprehension) and fld == "iter":
        comp = p._parent
        if isinstance(comp, ast.SetComp):
            return True, "SET-COMPREHENSION"
        cp = comp._parent
        if isinstance(comp, (ast.GeneratorExp, ast.ListComp)) and isinstance(cp, ast.Call) and isinstance(cp.func, ast.Name) \
                and cp.func.id in ORDER_FREE_CALLS:
            return True, f"ORDER-FREE {cp.func.id}(comprehension)"
        return False, "iterated by a comprehension that builds an ordered result"
    if isinstance(p, ast.For) and fld == "iter":
        if _commutative_fold(p, st, fn):
            return True, "COMMUTATIVE-FOLD (single-character deletions commute)"
        return False, "iterated by a for loop: iteration order of a set depends on hashing"
    if isinstance(p, ast.Return):
        return False, "returned to callers (uses not tracked)"
    if isinstance(p, ast.FormattedValue):
        return False, "formatted into a string: element order depends on hashing"
    if isinstance(p, ast.Starred):
        return False, "star-unpacked in hash order"
    if isinstance(p, ast.Expr):
        return True, "UNUSED"
    return False, f"used in `{type(p).__name__}` context, which may observe iteration order"


def rule_determinism(res, mods):
    res.rule("R-DETERMINISM", "every use of a set-typed value in the generators (and in mjcf_schema.py) is order-free "
             "(membership, algebra, len/sorted/any/all, set comprehension, commutative fold, diagnostics); no hash/id/"
             "time/random/environment/directory-listing reads", floor=70)
    nuses = 0
    for mod in mods + [P.model().mod]:
        st = _settypes(mod)
        f = _file(mod)
        for fn in [None] + list(mod.funcs.values()):
            for n in mod.nodes(fn):
                if getattr(n, "_ann", False) or not isinstance(n, ast.expr):
                    continue
                # --- nondeterminism sources
                if isinstance(n, ast.Call) and isinstance(n.func, ast.Name) and n.func.id in NONDET_CALLS and \
                        not (fn and P._scope_of(n.func.id, fn)):
                    res.bad("R-DETERMINISM", f"{mod.name}.{fn.qual if fn else '<module>'}:{n.func.id}()", f, n.lineno,
                            f"`{n.func.id}()` differs between runs")
                if isinstance(n, ast.Attribute):
                    t = P.text(n)
                    root = t.split(".")[0]
                    if t in NONDET_ATTRS or (root in NONDET_MODULES and mod.imports.get(root, "").split(".")[0] in NONDET_MODULES
                                             and not isinstance(n._parent, ast.Attribute)):
                        main_only = fn is not None and fn.qual == "main"
                        if t == "sys.argv" and (main_only or fn is None):
                            continue
                        res.bad("R-DETERMINISM", f"{mod.name}.{fn.qual if fn else '<module>'}:{t}", f, n.lineno,
                                f"`{t}` is a run-dependent input")
                # --- set-typed uses
                if not st.is_set(n, fn):
                    continue
                if isinstance(n, (ast.Name, ast.Attribute)) and isinstance(n.ctx, ast.Store):
                    continue
                nuses += 1
                construct = f"{mod.name}.{fn.qual if fn else '<module>'}:{P.text(n)[:50]}"
                ok, why = _set_context(n, st, fn)
                if ok:
                    res.ok("R-DETERMINISM", construct, {"file": f, "line": n.lineno, "idiom": why})
                else:
                    res.bad("R-DETERMINISM", construct, f, n.lineno, f"set-typed value `{P.text(n)[:60]}` is {why}")
        res.ok("R-DETERMINISM", f"{mod.name}:no-run-dependent-reads", {"file": f, "line": 1})
    res.count("set_typed_uses", nuses)


# ============================================================================ R-EXHAUST
def _subject_of(key, sm, fn, at):
    """(subject text, vocabulary) when a fact key constrains an attribute-type / cardinality / constraint-kind subject."""
    if key[0] not in ("eq", "in") or not isinstance(key[1], str):
        return None
    t = key[1]
    for field in ("type", "kind", "card"):
        if t.endswith("." + field) and t[:-len(field) - 1].isidentifier():
            return t, sm.vocab_of_field(None, field)
    return None


def _subjects_in(test, sm, fn):
    forms = P.Forms()
    f = forms.mk(test)
    out = {}

    def walk(x):
        if x[0] == "lit":
            s = _subject_of(x[1], sm, fn, test)
            if s:
                k = P.Know(fn.mod, fn)
                k.forms = forms
                cs = k.cset(x[1][2]) if x[1][0] == "in" else (frozenset([k.const(x[1][2])[1]]) if k.const(x[1][2])[0] else None)
                if cs is not None and cs & s[1]:
                    out[s[0]] = s[1]
        else:
            for y in x[1]:
                walk(y)
    walk(f)
    return out


def _param_subject(name, fn, sm):
    """If parameter `name` of fn always receives `<x>.type|kind|card`, the possible values per call site."""
    if name not in fn.params:
        return None
    sites = P._sites(fn)
    if not sites:
        return None
    vals, vocab = set(), None
    for caller, call in sites:
        a = P.bind_args(call, fn).get(name)
        if not (isinstance(a, ast.Attribute) and isinstance(a.value, ast.Name) and a.attr in ("type", "kind", "card")):
            return None
        vocab = sm.vocab_of_field(None, a.attr)
        vals |= P.know_at(call, caller).values(P.text(a), vocab)
    return vals, vocab


def _possible(subject, node, fn, vocab, know=None):
    """Values of `<var>.<field>` that can reach node: facts in fn, intersected (when var is a parameter that is
    not re-bound) with what the callers can pass."""
    k = know or P.know_at(node, fn)
    vals = set(k.values(subject, vocab))
    var, field = subject.rsplit(".", 1)
    if var in fn.params and var not in P.stores_of(fn):
        sites = P._sites(fn)
        if sites:
            outer = set()
            for caller, call in sites:
                a = P.bind_args(call, fn).get(var)
                if isinstance(a, ast.Name):
                    outer |= P.know_at(call, caller).values(f"{a.id}.{field}", vocab)
                else:
                    outer |= set(vocab)
            vals &= outer
    return vals


def rule_exhaust(res, mods):
    sm = P.model()
    res.rule("R-EXHAUST", "every dispatch over attribute type / cardinality / constraint kind (dict lookup keyed by it, "
             "if/elif chain, chain of returning ifs) covers the values mjcf_schema.py can produce at that point, or has an "
             "explicit default / raise", floor=8)
    res.extra["vocabulary"] = {"types": sorted(sm.types), "cardinalities": sorted(sm.cards), "constraint_verbs": sorted(sm.verbs)}
    residuals = {}
    for mod in mods:
        f = _file(mod)
        for fn in mod.funcs.values():
            # (a) dict lookups keyed by a vocabulary subject
            for n in mod.nodes(fn):
                if not (isinstance(n, ast.Subscript) and isinstance(n.ctx, ast.Load) and not n._ann):
                    continue
                try:
                    table = P.lit(n.value, mod, fn.cls)
                except P.NotLit:
                    continue
                if not isinstance(table, dict):
                    continue
                s = n.slice
                vals = vocab = None
                if isinstance(s, ast.Attribute) and isinstance(s.value, ast.Name) and s.attr in ("type", "kind", "card"):
                    vocab = sm.vocab_of_field(None, s.attr)
                    vals = _possible(P.text(s), n, fn, vocab)
                elif isinstance(s, ast.Name):
                    r = _param_subject(s.id, fn, sm)
                    if r:
                        vals, vocab = r
                if vals is None:
                    continue
                construct = f"{mod.name}.{fn.qual}:{P.text(n)}"
                k = P.know_at(n, fn)
                kt, ct = P.text(s), P.text(n.value)
                k.forms.nodes.setdefault(kt, s)
                k.forms.nodes.setdefault(ct, n.value)
                missing = sorted(v for v in vals if v not in table)
                if not missing or k.val(("in", kt, ct)) is True:
                    res.ok("R-EXHAUST", construct, {"file": f, "line": n.lineno, "possible": sorted(vals), "keys": sorted(map(str, table))})
                else:
                    res.bad("R-EXHAUST", construct, f, n.lineno,
                            f"lookup keyed by a schema vocabulary value: {missing} can reach this point (of {sorted(vals)}) "
                            f"but the table only has {sorted(map(str, table))}: KeyError for a valid schema")
            # (b) if/elif chains
            for n in mod.nodes(fn):
                if not isinstance(n, ast.If) or (isinstance(n._parent, ast.If) and n._field == "orelse" and len(n._parent.orelse) == 1):
                    continue
                arms, cur = [n], n
                while len(cur.orelse) == 1 and isinstance(cur.orelse[0], ast.If):
                    cur = cur.orelse[0]
                    arms.append(cur)
                if len(arms) < 3:
                    continue
                subj = None
                for a in arms:
                    ss = _subjects_in(a.test, sm, fn)
                    subj = ss if subj is None else {k: v for k, v in subj.items() if k in ss}
                if not subj:
                    continue
                sname, vocab = next(iter(subj.items()))
                construct = f"{mod.name}.{fn.qual}:elif-chain[{sname}]"
                if cur.orelse:
                    how = "raise" if P._always(cur.orelse, fn, P._noret(mod), raise_only=True) else "default"
                    res.ok("R-EXHAUST", construct, {"file": f, "line": n.lineno, "arms": len(arms), "else": how})
                    continue
                k = P.know_at(cur, fn)
                k.add(P.neg(k.forms.mk(cur.test)))
                k.propagate()
                rest = sorted(_possible(sname, cur, fn, vocab, k))
                if rest:
                    res.bad("R-EXHAUST", construct, f, n.lineno,
                            f"if/elif chain over `{sname}` has no else and does not handle {rest}")
                else:
                    res.ok("R-EXHAUST", construct, {"file": f, "line": n.lineno, "arms": len(arms), "else": "none needed"})
            # (c) chains of top-level returning ifs
            arms = []
            for st in fn.node.body:
                if isinstance(st, ast.If) and not st.orelse and P.terminates(st.body, fn) and not \
                        P._always(st.body, fn, P._noret(mod), raise_only=True):
                    ss = _subjects_in(st.test, sm, fn)
                    if ss:
                        arms.append((st, ss))
            if len(arms) >= 2:
                common = None
                for _, ss in arms:
                    common = set(ss) if common is None else common & set(ss)
                if common:
                    sname = sorted(common)[0]
                    vocab = arms[0][1][sname]
                    construct = f"{mod.name}.{fn.qual}:return-chain[{sname}]"
                    last = fn.node.body[-1]
                    rest = sorted(_possible(sname, last, fn, vocab))
                    residuals[construct] = rest
                    if isinstance(last, (ast.Return, ast.Raise)) and (isinstance(last, ast.Raise) or last.value is not None):
                        res.ok("R-EXHAUST", construct, {"file": f, "line": arms[0][0].lineno, "arms": len(arms),
                                                        "default": type(last).__name__.lower(), "default_handles": rest})
                    elif not rest:
                        res.ok("R-EXHAUST", construct, {"file": f, "line": arms[0][0].lineno, "arms": len(arms), "default": "none needed"})
                    else:
                        res.bad("R-EXHAUST", construct, f, last.lineno,
                                f"chain of returning ifs over `{sname}` falls off the end of the function (returns None) for {rest}")
    res.extra["default_arm_handles"] = residuals


# ============================================================================ R-EXHAUST-MEMBER
def rule_member(res, mods):
    sm = P.model()
    res.rule("R-EXHAUST-MEMBER", "an attribute read from a member of a Group/Element (a union of Attr, Use, Child, Const, "
             "Constraint) is declared by every class the member can have at that point (isinstance-narrowed)", floor=3)
    for mod in mods:
        f = _file(mod)
        for fn in mod.funcs.values():
            for n in mod.nodes(fn):
                if not (isinstance(n, ast.Attribute) and isinstance(n.ctx, ast.Load) and isinstance(n.value, ast.Name)):
                    continue
                decl = P.declared_classes(n.value.id, fn, n)
                if len(decl) < 2:
                    continue
                construct = f"{mod.name}.{fn.qual}:{P.text(n)}"
                now = P.classes_of(n.value, fn, n)
                lacking = sorted(c for c in now if not sm.has_field(c, n.attr))
                if now and not lacking:
                    res.ok("R-EXHAUST-MEMBER", construct, {"file": f, "line": n.lineno, "classes": sorted(now)})
                else:
                    res.bad("R-EXHAUST-MEMBER", construct, f, n.lineno,
                            f"`{n.value.id}` ranges over members of kind {sorted(decl)}; `.{n.attr}` is not declared by "
                            f"{lacking}: AttributeError for a valid schema whose group/element has such a member")


# ============================================================================ R-ASSUME-GUAR
def _eq_guaranteed(node, fn, key_text, T, guar):
    """Dominating `any(isinstance(m, C) and m.<field> == key ...)` with (C, field) a validator guarantee for table T."""
    k = P.know_at(node, fn)
    for key, v in k.K.items():
        if key[0] != "truthy" or not v:
            continue
        c = k.forms.nodes.get(key[1])
        if not (isinstance(c, ast.Call) and isinstance(c.func, ast.Name) and c.func.id == "any" and c.args
                and isinstance(c.args[0], (ast.GeneratorExp, ast.ListComp))):
            continue
        gen = c.args[0]
        forms = P.Forms()
        f = forms.mk(gen.elt)
        lits = f[1] if f[0] == "and" else [f]
        cls = [x[1][2] for x in lits if x[0] == "lit" and x[2] and x[1][0] == "isinst"]
        eqs = [x[1] for x in lits if x[0] == "lit" and x[2] and x[1][0] == "eq"]
        for e in eqs:
            for a, b in ((e[1], e[2]), (e[2], e[1])):
                if b == key_text and "." in a:
                    var, field = a.rsplit(".", 1)
                    for cl in cls:
                        if len(cl) == 1 and any(g["cls"] == cl[0] and g["field"] == field and g["table"] == T and g["types"] is None
                                                for g in guar):
                            return f"{cl[0]}.{field}"
    return None


def rule_guar(res, mods):
    sm = P.model()
    guar = P.validator_guarantees()
    res.rule("R-ASSUME-GUAR", "every lookup schema.enums/groups/elements[key] in a generator uses a key that is a key of that "
             "table, a field the validator checked for every declaration (under the same type condition), or is dominated "
             "by a membership test; generators only see schemas returned by parse_file/parse_string", floor=18)
    res.extra["validator_guarantees"] = [f"{g['cls']}.{g['field']} in {g['table']}" +
                                         (f" when type in {sorted(g['types'])}" if g["types"] else "") for g in guar]
    literals = {}
    post = P.validate_postdominates()
    post_ok = all(o[1] for o in post)
    for construct, ok, line, msg in post:
        if ok:
            res.ok("R-ASSUME-GUAR", "mjcf_schema." + construct, {"file": sm.mod.rel, "line": line})
        else:
            res.bad("R-ASSUME-GUAR", "mjcf_schema." + construct, sm.mod.rel, line, msg)
    for mod in mods:
        f = _file(mod)
        uses_schema = "mjcf_schema" in mod.imports
        if uses_schema:
            bad = None
            got = False
            for fn in mod.funcs.values():
                for c in P.calls_in(fn):
                    kind, p = P.resolve(c, fn, (sm.mod,))
                    if kind == "class" and p in ("Schema", "_Parser"):
                        bad = c
                    if kind == "func" and any(g.mod is sm.mod and g.qual in ("_Parser.__init__", "_Parser.parse") for g in p) \
                            and isinstance(c.func, ast.Attribute) and P.text(c.func).startswith("mjcf_schema."):
                        bad = c
                    if kind == "func" and any(g.mod is sm.mod and g.qual in ("parse_file", "parse_string") for g in p):
                        got = True
            construct = f"{mod.name}:schema-source"
            if bad is not None:
                res.bad("R-ASSUME-GUAR", construct, f, bad.lineno, f"`{P.text(bad)[:60]}` builds a schema that bypasses _validate")
            elif got:
                res.ok("R-ASSUME-GUAR", construct, {"file": f, "line": 1, "via": "mjcf_schema.parse_file"})
        for fn in mod.funcs.values():
            for n in mod.nodes(fn):
                if not (isinstance(n, ast.Subscript) and isinstance(n.ctx, ast.Load) and P.table_of(n.value) and not n._ann):
                    continue
                T = P.table_of(n.value)
                construct = f"{mod.name}.{fn.qual}:{P.text(n)}"
                k = P.know_at(n, fn)
                kt, ct = P.text(n.slice), P.text(n.value)
                k.forms.nodes.setdefault(kt, n.slice)
                k.forms.nodes.setdefault(ct, n.value)
                if k.val(("in", kt, ct)) is True:
                    res.ok("R-ASSUME-GUAR", construct, {"file": f, "line": n.lineno, "idiom": "MEMBERSHIP"})
                    continue
                eqg = _eq_guaranteed(n, fn, kt, T, guar)
                if eqg and post_ok:
                    res.ok("R-ASSUME-GUAR", construct, {"file": f, "line": n.lineno, "idiom": f"EQUALS-GUARANTEED {eqg}"})
                    continue
                org = P.origins(n.slice, fn, n)
                miss, how = [], set()
                for o in org:
                    if o == ("key", T):
                        how.add("KEY-OF-TABLE")
                    elif o[0] == "literal" and isinstance(o[1], str):
                        how.add("LITERAL-ANCHOR")
                        literals.setdefault(T, set()).add(o[1])
                    elif o[0] == "field" and post_ok and any(
                            g["cls"] == o[1] and g["field"] == o[2] and g["table"] == T and
                            (g["types"] is None or _types_at(n, fn, n.slice, sm) <= g["types"]) for g in guar):
                        how.add(f"VALIDATOR-GUARANTEE {o[1]}.{o[2]}")
                    else:
                        miss.append(o)
                if org and not miss:
                    res.ok("R-ASSUME-GUAR", construct, {"file": f, "line": n.lineno, "idiom": sorted(how)})
                else:
                    res.bad("R-ASSUME-GUAR", construct, f, n.lineno,
                            f"key of origin {sorted(map(str, miss or org))} is looked up in schema.{T} without a membership "
                            "test; the validator does not guarantee it (KeyError for a valid schema)")
    res.extra["literal_anchor_keys"] = {t: sorted(v) for t, v in literals.items()}
    return literals


def _types_at(node, fn, key_expr, sm):
    if isinstance(key_expr, ast.Attribute) and isinstance(key_expr.value, ast.Name):
        return frozenset(P.know_at(node, fn).values(f"{key_expr.value.id}.type", sm.types))
    return frozenset(sm.types)


# ============================================================================ R-RECURSION
def _validator_acyclic_elements():
    """A raise in the validator's closure that depends on membership of an element name in a walk accumulator that is
    grown with that name, in a function that looks the name up in schema.elements: child nesting would be acyclic."""
    sm = P.model()
    m = sm.mod
    for fn in P.closure([m.func("_validate")]):
        for st in P.raise_sites(fn):
            k = P.know_at(st, fn)
            for key, v in k.K.items():
                if key[0] == "in" and v and key[2].isidentifier():
                    A, S = key[1], key[2]
                    grown = any((isinstance(n, ast.BinOp) and P.text(n.left) == S and isinstance(n.right, (ast.List, ast.Set))
                                 and any(P.text(e) == A for e in n.right.elts)) or
                                (isinstance(n, ast.Call) and isinstance(n.func, ast.Attribute) and n.func.attr in ("append", "add")
                                 and P.text(n.func.value) == S and n.args and P.text(n.args[0]) == A) for n in m.nodes(fn))
                    looked = any((isinstance(n, ast.Subscript) and P.table_of(n.value) == "elements" and P.text(n.slice) == A) or
                                 (isinstance(n, ast.Call) and isinstance(n.func, ast.Attribute) and n.func.attr == "get" and
                                  P.table_of(n.func.value) == "elements" and n.args and P.text(n.args[0]) == A)
                                 for n in m.nodes(fn))
                    if grown and looked:
                        return st.lineno
    return None


def _walks_elements(fn):
    m = fn.mod
    return any((isinstance(n, ast.Call) and isinstance(n.func, ast.Attribute) and n.func.attr == "children") or
               (isinstance(n, ast.Subscript) and P.table_of(n.value) == "elements") for n in m.nodes(fn))


def _ancestry_guard(fn, comp):
    """A parameter P such that every recursive call passes `P | {x}` / `P + [x]` and `x in P` (either polarity) is tested
    by an assert or a terminating if before the recursive call."""
    m = fn.mod
    rec = [c for c in P.calls_in(fn) if P.resolve(c, fn)[0] == "func" and any(g in comp for g in P.resolve(c, fn)[1])]
    for pn in fn.params:
        grown = []
        for c in rec:
            target = [g for g in P.resolve(c, fn)[1] if g in comp][0]
            a = P.bind_args(c, target).get(pn)
            if isinstance(a, ast.BinOp) and isinstance(a.op, (ast.BitOr, ast.Add)) and isinstance(a.left, ast.Name) and \
                    a.left.id == pn and isinstance(a.right, (ast.Set, ast.List, ast.Tuple)) and len(a.right.elts) == 1:
                grown.append(P.text(a.right.elts[0]))
            else:
                grown = None
                break
        if not grown:
            continue
        for n in m.nodes(fn):
            tests = []
            if isinstance(n, ast.Assert):
                tests.append(n.test)
            elif isinstance(n, ast.If) and (P.terminates(n.body, fn) or (n.orelse and P.terminates(n.orelse, fn))):
                tests.append(n.test)
            for t in tests:
                for x in ast.walk(t):
                    if isinstance(x, ast.Compare) and len(x.ops) == 1 and isinstance(x.ops[0], (ast.In, ast.NotIn)) and \
                            P.text(x.comparators[0]) == pn and P.text(x.left) in grown and \
                            all(P.pos(n) < P.pos(c) for c in rec):
                        return f"{'assert' if isinstance(n, ast.Assert) else 'if'} {P.text(x)} with {pn} grown by {grown[0]}"
    return None


def rule_recursion(res, mods):
    res.rule("R-RECURSION", "every walk over element children in a generator (recursive function or pop/push work list) "
             "has an ancestry / visited guard, unless the validator makes child nesting acyclic", floor=3)
    acyclic = _validator_acyclic_elements()
    res.extra["validator_rejects_child_cycles"] = bool(acyclic)
    funcs = [f for m in mods for f in m.funcs.values()]
    for comp in P.sccs(funcs, (P.model().mod,)):
        for fn in comp:
            if not _walks_elements(fn):
                continue
            construct = f"{fn.mod.name}.{fn.qual}"
            g = _ancestry_guard(fn, comp)
            if g:
                res.ok("R-RECURSION", construct, {"file": _file(fn.mod), "line": fn.node.lineno, "guard": g})
            elif acyclic:
                res.ok("R-RECURSION", construct, {"file": _file(fn.mod), "line": fn.node.lineno, "guard": f"validator line {acyclic}"})
            else:
                rec = [c for c in P.calls_in(fn) if P.resolve(c, fn)[0] == "func" and any(h in comp for h in P.resolve(c, fn)[1])]
                res.bad("R-RECURSION", construct, _file(fn.mod), rec[0].lineno,
                        f"recurses into child elements (`{P.text(rec[0])[:70]}`) with no ancestry/visited test; the validator "
                        "accepts mutually recursive child declarations (the checked-in schema has body <-> frame), so a valid "
                        "schema whose cycle does not go through the skipped cases recurses until RecursionError")
    # work lists
    for mod in mods:
        for fn in mod.funcs.values():
            for w in mod.nodes(fn):
                if not isinstance(w, ast.While):
                    continue
                L = P.text(w.test)
                pops = [n for n in ast.walk(w) if isinstance(n, ast.Call) and isinstance(n.func, ast.Attribute)
                        and n.func.attr == "pop" and P.text(n.func.value) == L]
                if not pops:
                    continue
                construct = f"{mod.name}.{fn.qual}:while {L}"
                st = P.stmt_of(pops[0])
                if not isinstance(st, ast.Assign):
                    res.bad("R-RECURSION", construct, _file(mod), w.lineno, "work-list pop is not bound to a name")
                    continue
                tgt = st.targets[0]
                keys = {P.text(tgt)} | ({"(" + ", ".join(P.text(e) for e in tgt.elts) + ")"} if isinstance(tgt, ast.Tuple) else set())
                guard = None
                for s in w.body:
                    if isinstance(s, ast.If) and P.terminates(s.body, fn) and isinstance(s.test, ast.Compare) and \
                            len(s.test.ops) == 1 and isinstance(s.test.ops[0], ast.In) and P.text(s.test.left) in keys:
                        V = P.text(s.test.comparators[0])
                        added = any(isinstance(n, ast.Call) and isinstance(n.func, ast.Attribute) and n.func.attr in ("add", "append")
                                    and P.text(n.func.value) == V and n.args and P.text(n.args[0]) in keys
                                    for b in w.body for n in ast.walk(b))
                        if added:
                            guard = f"if {P.text(s.test)}: skip; {V}.add(..)"
                if guard:
                    res.ok("R-RECURSION", construct, {"file": _file(mod), "line": w.lineno, "guard": guard})
                else:
                    res.bad("R-RECURSION", construct, _file(mod), w.lineno,
                            f"work list `{L}` is popped and refilled without a visited-set test: does not terminate on cyclic references")


# ============================================================================ entry
def run(res, tier):
    mods = _mods()
    for m in mods:
        if "generate" not in m.funcs:
            raise AnalysisError(f"anchor vanished: {m.rel}: generate()")
    res.trusted = ["CPython ast (parsing only; nothing from /repo is imported or executed)",
                   "objects carrying schema field names are instances of mjcf_schema's own dataclasses"]
    rule_determinism(res, mods)
    rule_exhaust(res, mods)
    rule_member(res, mods)
    literals = rule_guar(res, mods)
    rule_recursion(res, mods)
    res.count("modules", len(mods) + 1)
    res.count("functions", sum(len(m.funcs) for m in mods))
    res.explanation = (
        "Static lint of the seven schema generators plus the parts of mjcf_schema.py they consume (ast only). Decided: all "
        "uses of set-typed values are order-free, no run-dependent reads; every dict lookup / if-elif chain / returning-if "
        "chain keyed by attribute type, cardinality or constraint kind covers the values that can reach it (vocabularies "
        "read from mjcf_schema.py: parse_type's return constraints, CARDINALITIES, CONSTRAINT_VERBS) or has a default/raise; "
        "attributes of Group/Element members are isinstance-narrowed; every schema.enums/groups/elements lookup key is a key "
        "of that table, a validator-checked field, guarded, or a hard-coded anchor name (listed); recursive and work-list "
        "element walks have an ancestry/visited guard.")
    res.not_decided = ("faithfulness of the emitted text (types, arities, defaults, enum constants) for all schemas; lookups in "
                       "tables parsed from C headers (self.dims[...], struct fields); termination of generate_schema.py's "
                       "text scanner.")
    res.assumptions = ["generators are specified for schemas that declare the hard-coded anchor names: " +
                       "; ".join(f"{t}: {', '.join(sorted(v))}" for t, v in sorted(literals.items())),
                       "dict iteration is insertion-ordered (Python >= 3.7)",
                       "assert statements are enabled (generate_dmcontrol's cycle guard is an assert)"]
