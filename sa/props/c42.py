"""C42 Schema generators faithfully translate any valid schema (doc/generate/generate_*.py) -- partial.

Static rules over the seven generators (and mjcf_schema.py where they consume it), ast only:
 R-DETERMINISM     no order-sensitive use of a set-typed value, no hash/id/time/random/environment reads
 R-EXHAUST         every dispatch over attribute type / cardinality / constraint kind covers the vocabulary that
                   mjcf_schema.py itself defines (read by literal evaluation), or has an explicit default / raise
 R-EXHAUST-MEMBER  attributes read from members of a Group/Element are declared by every class the member may have
 R-MEMBER-SCAN     a `.members` scan that keeps only Attr members of an element must also handle its Use members (or
                   range over the groups too): otherwise inherited attributes are dropped and what is derived from the
                   scan disagrees with what is emitted from the expansion (schema.expanded_attrs)
 R-MODULE-STATE    no module-/class-level mutable object is changed by a function and read back (memo tables, accumulators,
                   `global` re-binding, functools caches, mutable defaults) unless the stored value is a function of its key;
                   the module-level mutable objects are listed in the evidence
 R-ASSUME-GUAR     lookups in schema.enums/groups/elements use keys the validator has checked (or keys of the table);
                   the schema a generator sees always comes from parse_file/parse_string
 R-RECURSION       element-tree walks (recursive or work-list) carry an ancestry/visited guard, because the validator
                   does not make element nesting acyclic
Layout independence: a set handed to a helper is judged by what the helper does with the parameter (and a set a helper
returns is followed into its callers); lookups are justified through helper returns, `f(*t)`, table aliases and the
validator's helpers; a work list is guarded when every statement that can refill it (transitively) runs only where the
popped item is known not to be in the visited set -- `if x in V: continue`, `if x not in V: ...`, a predicate or
test-and-mark helper alike; the recursive walk is keyed by module + role (`<module>:recursive-element-walk`).
Not decided: that the emitted text is the right text for every schema.
"""
from __future__ import annotations

import ast

from .. import pyfront as P
from ..cfront import AnalysisError
from .c42_project import rule_project_agree

LEVEL = "other"
DIR = "doc/generate/"


def _mods():
    return [P.load(b) for b in P.GENERATORS]


def _file(mod):
    return mod.rel


# ============================================================================ R-DETERMINISM
ORDER_FREE_CALLS = {"len", "sorted", "set", "frozenset", "any", "all", "min", "max", "bool", "isinstance"}
ORDER_FREE_METHODS = {"add", "update", "discard", "union", "intersection", "difference", "symmetric_difference",
                      "issubset", "issuperset", "isdisjoint", "copy", "clear", "__contains__", "remove"}
NONDET_CALLS = {"hash", "id"}
NONDET_MODULES = {"time", "random", "datetime", "uuid", "secrets", "tempfile"}
NONDET_ATTRS = {"os.environ", "os.getenv", "os.listdir", "os.scandir", "os.walk", "os.getpid", "glob.glob", "glob.iglob",
                "os.urandom", "sys.argv"}


class SetTypes:
    """Which names / self attributes / parameters of a module hold sets (local, syntactic inference)."""

    def __init__(self, mod):
        self.mod = mod
        self.names = {}      # (Func|None, name) -> True
        self.attrs = set()   # (class, attr)
        self.ret_sets = set()  # functions every return of which is a set: their call results are tracked as sets
        changed = True
        while changed:
            changed = False
            for fn in mod.funcs.values():
                if fn in self.ret_sets:
                    continue
                rets = [n for n in mod.nodes(fn) if isinstance(n, ast.Return)]
                if rets and all(r.value is not None and self.is_set(r.value, fn) for r in rets) and \
                        not any(isinstance(n, (ast.Yield, ast.YieldFrom)) for n in mod.nodes(fn)):
                    self.ret_sets.add(fn)
                    changed = True
            for fn in [None] + list(mod.funcs.values()):
                for n in mod.nodes(fn):
                    tgt = val = None
                    if isinstance(n, ast.Assign):
                        tgt, val = n.targets[0], n.value
                    elif isinstance(n, ast.AugAssign) and isinstance(n.op, (ast.BitOr, ast.BitAnd, ast.Sub, ast.BitXor)):
                        tgt, val = n.target, n.value
                    elif isinstance(n, ast.AnnAssign) and n.value is not None:
                        tgt, val = n.target, n.value
                    if tgt is None or not self.is_set(val, fn):
                        continue
                    if isinstance(tgt, ast.Name):
                        key = (self._scope(tgt.id, fn), tgt.id)
                        if key not in self.names:
                            self.names[key] = True
                            changed = True
                    elif isinstance(tgt, ast.Attribute) and isinstance(tgt.value, ast.Name) and tgt.value.id == "self" and fn and fn.cls:
                        if (fn.cls, tgt.attr) not in self.attrs:
                            self.attrs.add((fn.cls, tgt.attr))
                            changed = True
            # parameters: set-typed when every call site passes a set
            for fn in mod.funcs.values():
                sites = P.call_sites(fn, list(mod.funcs.values()))
                for pn in fn.params:
                    if (fn, pn) in self.names or not sites:
                        continue
                    args = [P.bind_args(c, fn).get(pn) for _, c in sites]
                    dflt = _default_of(fn, pn)
                    if all((a is not None and self.is_set(a, caller)) or
                           (a is None and dflt is not None and self.is_set(dflt, fn.parent))
                           for a, (caller, _) in zip(args, sites)):
                        self.names[(fn, pn)] = True
                        changed = True

    def _scope(self, name, fn):
        f = fn
        while f is not None:
            if name in f.params or name in P.stores_of(f):
                return f
            f = f.parent
        return None

    def is_set(self, e, fn):
        if isinstance(e, (ast.Set, ast.SetComp)):
            return True
        if isinstance(e, ast.Call) and isinstance(e.func, ast.Name) and e.func.id in ("set", "frozenset"):
            return True
        if isinstance(e, ast.BinOp) and isinstance(e.op, (ast.BitOr, ast.BitAnd, ast.Sub, ast.BitXor)):
            return self.is_set(e.left, fn) or self.is_set(e.right, fn)
        if isinstance(e, ast.Name):
            return (self._scope(e.id, fn), e.id) in self.names
        if isinstance(e, ast.Attribute) and isinstance(e.value, ast.Name) and e.value.id == "self" and fn is not None and fn.cls:
            return (fn.cls, e.attr) in self.attrs
        if isinstance(e, ast.Attribute) and isinstance(e.value, ast.Name) and e.value.id in self.mod.imports:
            target = self.mod.imports[e.value.id]
            try:
                other = P.load(target + ".py")
            except AnalysisError:
                return False
            return (None, e.attr) in _settypes(other).names
        if isinstance(e, ast.Call) and isinstance(e.func, ast.Attribute) and e.func.attr in (
                "union", "intersection", "difference", "copy") and self.is_set(e.func.value, fn):
            return True
        if isinstance(e, ast.Call) and fn is not None and hasattr(e, "_mod"):
            kind, tg = P._resolve_basic(e, fn, ())
            if kind == "func" and tg and all(g.node.name != "__init__" and g in (
                    self.ret_sets if g.mod is self.mod else _settypes(g.mod).ret_sets) for g in tg):
                return True            # a helper that builds and returns a set: the call is that set
        return False


def _default_of(fn, pname):
    a = fn.node.args
    pos = a.posonlyargs + a.args
    for p, d in zip(pos[len(pos) - len(a.defaults):], a.defaults):
        if p.arg == pname:
            return d
    for p, d in zip(a.kwonlyargs, a.kw_defaults):
        if p.arg == pname:
            return d
    return None


_ST = {}


def _settypes(mod):
    key = (mod.path,)
    if key not in _ST:
        _ST[key] = None          # recursion guard for mutual imports
        _ST[key] = SetTypes(mod)
    st = _ST[key]
    if st is None:
        class _E:
            names = {}
            ret_sets = set()
        return _E()
    return st


def _commutative_fold(loop, st, fn):
    """for x in S: v = v.replace(x, <const>) with S a literal set of single characters: deletions/replacements of
    distinct single characters by one constant commute."""
    if len(loop.body) != 1 or not isinstance(loop.target, ast.Name):
        return False
    b = loop.body[0]
    if not (isinstance(b, ast.Assign) and isinstance(b.targets[0], ast.Name) and isinstance(b.value, ast.Call)):
        return False
    c = b.value
    if not (isinstance(c.func, ast.Attribute) and c.func.attr == "replace" and isinstance(c.func.value, ast.Name)
            and c.func.value.id == b.targets[0].id and len(c.args) == 2 and isinstance(c.args[0], ast.Name)
            and c.args[0].id == loop.target.id and isinstance(c.args[1], ast.Constant) and c.args[1].value == ""):
        return False
    src = loop.iter
    if isinstance(src, ast.Name):
        stores = P.stores_of(fn).get(src.id, []) if fn else []
        if len(stores) != 1 or not isinstance(stores[0]._parent, ast.Assign):
            return False
        src = stores[0]._parent.value
    return isinstance(src, ast.Set) and all(isinstance(e, ast.Constant) and isinstance(e.value, str) and len(e.value) == 1
                                            for e in src.elts)


def _param_order_free(g, pn, seen=None):
    """Parameter `pn` of g is not tracked as a set (some caller passes something else), but a set may arrive: every use
    of it inside g must be one that is order-free for a set (judged exactly as a set-typed value would be)."""
    seen = set() if seen is None else seen
    if (g, pn) in seen:
        return True
    seen.add((g, pn))
    if pn not in g.params or pn in P.stores_of(g):
        return False
    for h in g.mod.funcs.values():
        if h is not g and P._nested_in(h, g) and any(
                isinstance(x, ast.Name) and x.id == pn and P._scope_of(pn, h) is g for x in g.mod.nodes(h)):
            return False                  # captured by a nested function: uses not followed
    for x in g.mod.nodes(g):
        if isinstance(x, ast.Name) and x.id == pn and isinstance(x.ctx, ast.Load) and not x._ann:
            if pn in P._comp_bound(x):
                continue
            ok, _ = _set_context(x, _settypes(g.mod), g, seen)
            if not ok:
                return False
    return True


def _set_context(n, st, fn, _seen=None):
    """(ok, idiom-or-reason) for a set-typed expression node n, judged by how its value is consumed."""
    p = n._parent
    fld = n._field
    if any(isinstance(a, ast.Raise) for a in P.ancestors(n)):
        return True, "DIAGNOSTIC (text of a raised exception is not generated output)"
    if isinstance(p, ast.Compare) and fld == "comparators" and isinstance(p.ops[n._idx], (ast.In, ast.NotIn)):
        return True, "MEMBERSHIP"
    if isinstance(p, ast.Compare):
        return True, "SET-COMPARISON"
    if isinstance(p, ast.BinOp) and isinstance(p.op, (ast.BitOr, ast.BitAnd, ast.Sub, ast.BitXor)):
        return True, "SET-ALGEBRA"
    if isinstance(p, ast.AugAssign):
        return True, "SET-ALGEBRA"
    if isinstance(p, (ast.Assign, ast.AnnAssign)) and fld == "value":
        t = p.targets[0] if isinstance(p, ast.Assign) else p.target
        if isinstance(t, ast.Name) or (isinstance(t, ast.Attribute) and isinstance(t.value, ast.Name) and t.value.id == "self"):
            return True, "BINDING (tracked)"
        return False, f"stored into `{P.text(t)}`, which is not tracked"
    if isinstance(p, (ast.Assign, ast.AnnAssign, ast.AugAssign)) and fld in ("targets", "target"):
        return True, "BINDING (tracked)"
    if isinstance(p, ast.Attribute) and fld == "value":
        if p.attr in ORDER_FREE_METHODS:
            return True, "SET-METHOD"
        return False, f"`.{p.attr}` on a set is order-sensitive or unknown"
    if isinstance(p, ast.Call) and fld == "args":
        if isinstance(p.func, ast.Name) and p.func.id in ORDER_FREE_CALLS:
            return True, f"ORDER-FREE {p.func.id}()"
        kind, tg = P.resolve(p, fn) if fn is not None else ("unknown", None)
        if kind == "func":
            ok, how = True, "ARGUMENT (parameter tracked as set)"
            for g in tg:
                b = {id(v): k for k, v in P.bind_args(p, g).items()}
                pn = b.get(id(n))
                if pn is not None and (g, pn) in _settypes(g.mod).names:
                    continue
                if pn is not None and _param_order_free(g, pn, _seen):
                    how = "ARGUMENT (every use of the parameter in the callee is order-free)"
                    continue
                ok = False
            if ok:
                return True, how
        return False, f"passed to `{P.text(p.func)}(...)`, which may depend on iteration order"
    if isinstance(p, ast.arguments) and fld in ("defaults", "kw_defaults"):
        owner = p._parent
        g = next((x for x in n._mod.funcs.values() if x.node is owner), None)
        if g is not None and any((g, pn) in st.names and _default_of(g, pn) is n for pn in g.params):
            return True, "DEFAULT (parameter tracked as set)"
        return False, "default of a parameter that is not tracked as a set"
    if isinstance(p, ast.keyword):
        call = p._parent
        kind, tg = P.resolve(call, fn) if fn is not None else ("unknown", None)
        if kind == "func" and all((g, p.arg) in _settypes(g.mod).names for g in tg):
            return True, "ARGUMENT (parameter tracked as set)"
        if kind == "func" and all((g, p.arg) in _settypes(g.mod).names or _param_order_free(g, p.arg, _seen) for g in tg):
            return True, "ARGUMENT (every use of the parameter in the callee is order-free)"
        return False, f"passed as {p.arg}= to `{P.text(call.func)}`"
    if isinstance(p, (ast.If, ast.While, ast.IfExp)) and fld == "test":
        return True, "TRUTHINESS"
    if isinstance(p, ast.BoolOp) or (isinstance(p, ast.UnaryOp) and isinstance(p.op, ast.Not)):
        return True, "TRUTHINESS"
    if isinstance(p, ast.comprehension) and fld == "iter":
        comp = p._parent
        if isinstance(comp, ast.SetComp):
            return True, "SET-COMPREHENSION"
        cp = comp._parent
        if isinstance(comp, (ast.GeneratorExp, ast.ListComp)) and isinstance(cp, ast.Call) and isinstance(cp.func, ast.Name) \
                and cp.func.id in ORDER_FREE_CALLS:
            return True, f"ORDER-FREE {cp.func.id}(comprehension)"
        return False, "iterated by a comprehension that builds an ordered result"
    if isinstance(p, ast.For) and fld == "iter":
        if _commutative_fold(p, st, fn):
            return True, "COMMUTATIVE-FOLD (single-character deletions commute)"
        return False, "iterated by a for loop: iteration order of a set depends on hashing"
    if isinstance(p, ast.Return):
        g = n._fn
        if g is not None and g in _settypes(g.mod).ret_sets:
            return True, "RETURN (every return of the helper is a set: its call results are tracked as sets)"
        return False, "returned to callers (uses not tracked)"
    if isinstance(p, ast.FormattedValue):
        return False, "formatted into a string: element order depends on hashing"
    if isinstance(p, ast.Starred):
        return False, "star-unpacked in hash order"
    if isinstance(p, ast.Expr):
        return True, "UNUSED"
    return False, f"used in `{type(p).__name__}` context, which may observe iteration order"


def rule_determinism(res, mods):
    res.rule("R-DETERMINISM", "every use of a set-typed value in the generators (and in mjcf_schema.py) is order-free "
             "(membership, algebra, len/sorted/any/all, set comprehension, commutative fold, diagnostics); no hash/id/"
             "time/random/environment/directory-listing reads", floor=70)
    nuses = 0
    for mod in mods + [P.model().mod]:
        st = _settypes(mod)
        f = _file(mod)
        for fn in [None] + list(mod.funcs.values()):
            for n in mod.nodes(fn):
                if getattr(n, "_ann", False) or not isinstance(n, ast.expr):
                    continue
                # --- nondeterminism sources
                if isinstance(n, ast.Call) and isinstance(n.func, ast.Name) and n.func.id in NONDET_CALLS and \
                        not (fn and P._scope_of(n.func.id, fn)):
                    res.bad("R-DETERMINISM", f"{mod.name}.{fn.qual if fn else '<module>'}:{n.func.id}()", f, n.lineno,
                            f"`{n.func.id}()` differs between runs")
                if isinstance(n, ast.Attribute):
                    t = P.text(n)
                    root = t.split(".")[0]
                    if t in NONDET_ATTRS or (root in NONDET_MODULES and mod.imports.get(root, "").split(".")[0] in NONDET_MODULES
                                             and not isinstance(n._parent, ast.Attribute)):
                        main_only = fn is not None and fn.qual == "main"
                        if t == "sys.argv" and (main_only or fn is None):
                            continue
                        res.bad("R-DETERMINISM", f"{mod.name}.{fn.qual if fn else '<module>'}:{t}", f, n.lineno,
                                f"`{t}` is a run-dependent input")
                # --- set-typed uses
                if not st.is_set(n, fn):
                    continue
                if isinstance(n, (ast.Name, ast.Attribute)) and isinstance(n.ctx, ast.Store):
                    continue
                nuses += 1
                construct = f"{mod.name}.{fn.qual if fn else '<module>'}:{P.text(n)[:50]}"
                ok, why = _set_context(n, st, fn)
                if ok:
                    res.ok("R-DETERMINISM", construct, {"file": f, "line": n.lineno, "idiom": why})
                else:
                    res.bad("R-DETERMINISM", construct, f, n.lineno, f"set-typed value `{P.text(n)[:60]}` is {why}")
        res.ok("R-DETERMINISM", f"{mod.name}:no-run-dependent-reads", {"file": f, "line": 1})
    res.count("set_typed_uses", nuses)


# ============================================================================ R-EXHAUST
def _subject_of(key, sm, fn, at):
    """(subject text, vocabulary) when a fact key constrains an attribute-type / cardinality / constraint-kind subject."""
    if key[0] not in ("eq", "in") or not isinstance(key[1], str):
        return None
    t = key[1]
    for field in ("type", "kind", "card"):
        if t.endswith("." + field) and t[:-len(field) - 1].isidentifier():
            return t, sm.vocab_of_field(None, field)
    return None


def _subjects_in(test, sm, fn):
    forms = P.Forms()
    f = forms.mk(test)
    out = {}

    def walk(x):
        if x[0] == "lit":
            s = _subject_of(x[1], sm, fn, test)
            if s:
                k = P.Know(fn.mod, fn)
                k.forms = forms
                cs = k.cset(x[1][2]) if x[1][0] == "in" else (frozenset([k.const(x[1][2])[1]]) if k.const(x[1][2])[0] else None)
                if cs is not None and cs & s[1]:
                    out[s[0]] = s[1]
        else:
            for y in x[1]:
                walk(y)
    walk(f)
    return out


def _param_subject(name, fn, sm):
    """If parameter `name` of fn always receives `<x>.type|kind|card`, the possible values per call site."""
    if name not in fn.params:
        return None
    sites = P._sites(fn)
    if not sites:
        return None
    vals, vocab = set(), None
    for caller, call in sites:
        a = P.bind_args(call, fn).get(name)
        if not (isinstance(a, ast.Attribute) and isinstance(a.value, ast.Name) and a.attr in ("type", "kind", "card")):
            return None
        vocab = sm.vocab_of_field(None, a.attr)
        vals |= P.know_at(call, caller).values(P.text(a), vocab)
    return vals, vocab


def _possible(subject, node, fn, vocab, know=None):
    """Values of `<var>.<field>` that can reach node: facts in fn, intersected (when var is a parameter that is
    not re-bound) with what the callers can pass."""
    k = know or P.know_at(node, fn)
    vals = set(k.values(subject, vocab))
    var, field = subject.rsplit(".", 1)
    if var in fn.params and var not in P.stores_of(fn):
        sites = P._sites(fn)
        if sites:
            outer = set()
            for caller, call in sites:
                a = P.bind_args(call, fn).get(var)
                if isinstance(a, ast.Name):
                    outer |= P.know_at(call, caller).values(f"{a.id}.{field}", vocab)
                else:
                    outer |= set(vocab)
            vals &= outer
    return vals


def rule_exhaust(res, mods):
    sm = P.model()
    res.rule("R-EXHAUST", "every dispatch over attribute type / cardinality / constraint kind (dict lookup keyed by it, "
             "if/elif chain, chain of returning ifs) covers the values mjcf_schema.py can produce at that point, or has an "
             "explicit default / raise", floor=8)
    res.extra["vocabulary"] = {"types": sorted(sm.types), "cardinalities": sorted(sm.cards), "constraint_verbs": sorted(sm.verbs)}
    residuals = {}
    for mod in mods:
        f = _file(mod)
        for fn in mod.funcs.values():
            # (a) dict lookups keyed by a vocabulary subject
            for n in mod.nodes(fn):
                if not (isinstance(n, ast.Subscript) and isinstance(n.ctx, ast.Load) and not n._ann):
                    continue
                try:
                    table = P.lit(n.value, mod, fn.cls)
                except P.NotLit:
                    continue
                if not isinstance(table, dict):
                    continue
                s = n.slice
                vals = vocab = None
                if isinstance(s, ast.Attribute) and isinstance(s.value, ast.Name) and s.attr in ("type", "kind", "card"):
                    vocab = sm.vocab_of_field(None, s.attr)
                    vals = _possible(P.text(s), n, fn, vocab)
                elif isinstance(s, ast.Name):
                    r = _param_subject(s.id, fn, sm)
                    if r:
                        vals, vocab = r
                if vals is None:
                    continue
                construct = f"{mod.name}.{fn.qual}:{P.text(n)}"
                k = P.know_at(n, fn)
                kt, ct = P.text(s), P.text(n.value)
                k.forms.nodes.setdefault(kt, s)
                k.forms.nodes.setdefault(ct, n.value)
                missing = sorted(v for v in vals if v not in table)
                if not missing or k.val(("in", kt, ct)) is True:
                    res.ok("R-EXHAUST", construct, {"file": f, "line": n.lineno, "possible": sorted(vals), "keys": sorted(map(str, table))})
                else:
                    res.bad("R-EXHAUST", construct, f, n.lineno,
                            f"lookup keyed by a schema vocabulary value: {missing} can reach this point (of {sorted(vals)}) "
                            f"but the table only has {sorted(map(str, table))}: KeyError for a valid schema")
            # (b) if/elif chains
            for n in mod.nodes(fn):
                if not isinstance(n, ast.If) or (isinstance(n._parent, ast.If) and n._field == "orelse" and len(n._parent.orelse) == 1):
                    continue
                arms, cur = [n], n
                while len(cur.orelse) == 1 and isinstance(cur.orelse[0], ast.If):
                    cur = cur.orelse[0]
                    arms.append(cur)
                if len(arms) < 3:
                    continue
                subj = None
                for a in arms:
                    ss = _subjects_in(a.test, sm, fn)
                    subj = ss if subj is None else {k: v for k, v in subj.items() if k in ss}
                if not subj:
                    continue
                sname, vocab = next(iter(subj.items()))
                construct = f"{mod.name}.{fn.qual}:elif-chain[{sname}]"
                if cur.orelse:
                    how = "raise" if P._always(cur.orelse, fn, P._noret(mod), raise_only=True) else "default"
                    res.ok("R-EXHAUST", construct, {"file": f, "line": n.lineno, "arms": len(arms), "else": how})
                    continue
                k = P.know_at(cur, fn)
                k.add(P.neg(k.forms.mk(cur.test)))
                k.propagate()
                rest = sorted(_possible(sname, cur, fn, vocab, k))
                if rest:
                    res.bad("R-EXHAUST", construct, f, n.lineno,
                            f"if/elif chain over `{sname}` has no else and does not handle {rest}")
                else:
                    res.ok("R-EXHAUST", construct, {"file": f, "line": n.lineno, "arms": len(arms), "else": "none needed"})
            # (c) chains of top-level returning ifs
            arms = []
            for st in fn.node.body:
                if isinstance(st, ast.If) and not st.orelse and P.terminates(st.body, fn) and not \
                        P._always(st.body, fn, P._noret(mod), raise_only=True):
                    ss = _subjects_in(st.test, sm, fn)
                    if ss:
                        arms.append((st, ss))
            if len(arms) >= 2:
                common = None
                for _, ss in arms:
                    common = set(ss) if common is None else common & set(ss)
                if common:
                    sname = sorted(common)[0]
                    vocab = arms[0][1][sname]
                    construct = f"{mod.name}.{fn.qual}:return-chain[{sname}]"
                    last = fn.node.body[-1]
                    rest = sorted(_possible(sname, last, fn, vocab))
                    residuals[construct] = rest
                    if isinstance(last, (ast.Return, ast.Raise)) and (isinstance(last, ast.Raise) or last.value is not None):
                        res.ok("R-EXHAUST", construct, {"file": f, "line": arms[0][0].lineno, "arms": len(arms),
                                                        "default": type(last).__name__.lower(), "default_handles": rest})
                    elif not rest:
                        res.ok("R-EXHAUST", construct, {"file": f, "line": arms[0][0].lineno, "arms": len(arms), "default": "none needed"})
                    else:
                        res.bad("R-EXHAUST", construct, f, last.lineno,
                                f"chain of returning ifs over `{sname}` falls off the end of the function (returns None) for {rest}")
    res.extra["default_arm_handles"] = residuals


# ============================================================================ R-EXHAUST-MEMBER
def rule_member(res, mods):
    sm = P.model()
    res.rule("R-EXHAUST-MEMBER", "an attribute read from a member of a Group/Element (a union of Attr, Use, Child, Const, "
             "Constraint) is declared by every class the member can have at that point (isinstance-narrowed)", floor=3)
    for mod in mods:
        f = _file(mod)
        for fn in mod.funcs.values():
            for n in mod.nodes(fn):
                if not (isinstance(n, ast.Attribute) and isinstance(n.ctx, ast.Load) and isinstance(n.value, ast.Name)):
                    continue
                decl = P.declared_classes(n.value.id, fn, n)
                if len(decl) < 2:
                    continue
                construct = f"{mod.name}.{fn.qual}:{P.text(n)}"
                now = P.classes_of(n.value, fn, n)
                lacking = sorted(c for c in now if not sm.has_field(c, n.attr))
                if now and not lacking:
                    res.ok("R-EXHAUST-MEMBER", construct, {"file": f, "line": n.lineno, "classes": sorted(now)})
                else:
                    res.bad("R-EXHAUST-MEMBER", construct, f, n.lineno,
                            f"`{n.value.id}` ranges over members of kind {sorted(decl)}; `.{n.attr}` is not declared by "
                            f"{lacking}: AttributeError for a valid schema whose group/element has such a member")


# ============================================================================ R-MEMBER-SCAN
_WRAP = ("list", "tuple", "iter", "reversed", "sorted")


def _members_owner(it, fn):
    """Owner expression X when the iterable is `X.members` (possibly through a single-assigned local or list()/iter())."""
    it = P._single_value(it, fn) if fn is not None else it
    while isinstance(it, ast.Call) and isinstance(it.func, ast.Name) and it.func.id in _WRAP and len(it.args) == 1:
        it = P._single_value(it.args[0], fn)
    if isinstance(it, ast.Attribute) and it.attr == "members":
        return it.value
    return None


def _isinst_classes(tests, var, fn):
    """Class names the isinstance tests of `var` among `tests` mention (predicate helpers and boolean locals expanded)."""
    out = set()
    forms = P.Forms(fn)
    for t in tests:
        stack = [forms.mk(t)]
        while stack:
            f = stack.pop()
            if f[0] == "lit":
                if f[1][0] == "isinst" and f[1][1] == var:
                    out |= set(f[1][2])
            else:
                stack.extend(f[1])
    return out


def _tests_in(nodes, fn):
    out = []
    for root in nodes:
        for n in ast.walk(root):
            if getattr(n, "_fn", fn) is not fn:
                continue
            if isinstance(n, (ast.If, ast.IfExp, ast.While, ast.Assert)):
                out.append(n.test)
            elif isinstance(n, ast.comprehension):
                out.extend(n.ifs)
    return out


def _binding(owner, at, fn):
    """The loop / comprehension generator that binds the owner variable at `at` (the function itself for a parameter or
    a plain local): two scans are of the same declaration only if their owners share it."""
    if isinstance(owner, ast.Name):
        for a in [at] + list(P.ancestors(at)):
            if isinstance(a, (ast.ListComp, ast.SetComp, ast.GeneratorExp, ast.DictComp)):
                for g in a.generators:
                    if any(isinstance(x, ast.Name) and x.id == owner.id for x in ast.walk(g.target)):
                        return g
            if isinstance(a, ast.For) and a._fn is fn and not P.inside(at, a.iter) and \
                    any(isinstance(x, ast.Name) and x.id == owner.id for x in ast.walk(a.target)):
                return a
    return fn


def _iter_tables_ip(expr, fn, depth=0):
    """P._iter_tables, followed into the callers when the iterable is a parameter of a helper."""
    t = P._iter_tables(expr, fn)
    if t is None and isinstance(expr, ast.Name) and expr.id in fn.params and expr.id not in P.stores_of(fn) and depth < 4:
        sites = P._sites(fn)
        out = set()
        for caller, call in sites:
            a = P.bind_args(call, fn).get(expr.id)
            ta = _iter_tables_ip(a, caller, depth + 1) if a is not None and caller is not fn else None
            if ta is None:
                return None
            out |= ta
        return out if sites else None
    return t


def _owner_tables(owner, at, fn, depth=0):
    """Schema tables whose declarations the owner of a `.members` scan ranges over (loop / comprehension variable over
    `<schema>.T.values()`, sums and copies of such, `.items()`; a parameter: over all call sites), or None."""
    if not isinstance(owner, ast.Name) or depth > 4:
        return None
    for a in [at] + list(P.ancestors(at)):
        if isinstance(a, (ast.ListComp, ast.SetComp, ast.GeneratorExp, ast.DictComp)):
            for g in a.generators:
                if isinstance(g.target, ast.Name) and g.target.id == owner.id:
                    return _iter_tables_ip(g.iter, fn)
        if isinstance(a, ast.For) and a._fn is fn and not P.inside(at, a.iter):
            if isinstance(a.target, ast.Name) and a.target.id == owner.id:
                return _iter_tables_ip(a.iter, fn)
            if isinstance(a.target, ast.Tuple) and len(a.target.elts) == 2 and isinstance(a.target.elts[1], ast.Name) and \
                    a.target.elts[1].id == owner.id and isinstance(a.iter, ast.Call) and isinstance(a.iter.func, ast.Attribute) \
                    and a.iter.func.attr == "items" and P.table_of(a.iter.func.value):
                return {P.table_of(a.iter.func.value)}
    if owner.id in fn.params and owner.id not in P.stores_of(fn):
        sites = P._sites(fn)
        if not sites:
            return None
        out = set()
        for caller, call in sites:
            a = P.bind_args(call, fn).get(owner.id)
            t = _owner_tables(a, call, caller, depth + 1) if a is not None else None
            if t is None:
                return None
            out |= t
        return out
    return None


def rule_member_scan(res, mods, und):
    sm = P.model()
    res.rule("R-MEMBER-SCAN", "a scan of `<declaration>.members` that keeps the Attr members (isinstance filter) sees the "
             "attributes an element HAS only if it also looks at the Use members (expands / handles them in the same "
             "function), or if the scanned declarations range over the groups as well as the elements (every attribute "
             "declaration is then visited); a scan of an element's own Attr members alone silently drops what `use <group>` "
             "brings in (schema.expanded_attrs is the expansion)", floor=4)
    for mod in mods + [sm.mod]:
        f = _file(mod)
        for fn in mod.funcs.values():
            scans = []          # (member variable, owner expr, node, tests)
            for n in mod.nodes(fn):
                if isinstance(n, ast.For) and isinstance(n.target, ast.Name):
                    ow = _members_owner(n.iter, fn)
                    if ow is not None:
                        scans.append((n.target.id, ow, n, _tests_in(n.body, fn)))
                elif isinstance(n, ast.comprehension) and isinstance(n.target, ast.Name):
                    ow = _members_owner(n.iter, fn)
                    if ow is not None:
                        comp = n._parent
                        later = comp.generators[comp.generators.index(n):]
                        tests = [c for g in later for c in g.ifs]
                        tests += _tests_in([getattr(comp, a) for a in ("elt", "key", "value") if hasattr(comp, a)], fn)
                        scans.append((n.target.id, ow, n, tests))
            for var, ow, node, tests in scans:
                named = _isinst_classes(tests, var, fn)
                if "Attr" not in named:
                    continue                    # not a scan for attributes (children / consts / constraints / uses)
                line = getattr(node, "lineno", None) or node.iter.lineno
                construct = f"{mod.name}.{fn.qual}:{P.text(ow).replace(' ', '')}.members[Attr]"
                if "Use" in named:
                    res.ok("R-MEMBER-SCAN", construct, {"file": f, "line": line, "how": "USE-HANDLED (same scan)"})
                    continue
                sib = [s for s in scans if s[2] is not node and P.text(s[1]) == P.text(ow) and
                       _binding(s[1], s[2].iter, fn) is _binding(ow, node.iter, fn) and
                       "Use" in _isinst_classes(s[3], s[0], fn)]
                if sib:
                    res.ok("R-MEMBER-SCAN", construct, {"file": f, "line": line, "how": "USE-HANDLED (sibling scan of the same owner)"})
                    continue
                cls = P.classes_of(ow, fn, node.iter)
                if not cls:
                    und.add("R-MEMBER-SCAN", construct, f, line, f"class of `{P.text(ow)}` (owner of the scanned members) cannot be inferred")
                    continue
                if "Element" not in cls:
                    res.ok("R-MEMBER-SCAN", construct, {"file": f, "line": line, "how": f"OWN-MEMBERS of {sorted(cls)}"})
                    continue
                tabs = _owner_tables(ow, node.iter, fn)
                if tabs and "groups" in tabs:
                    res.ok("R-MEMBER-SCAN", construct, {"file": f, "line": line,
                                                        "how": f"ALL-DECLARATIONS (owner ranges over {sorted(tabs)})"})
                    continue
                res.bad("R-MEMBER-SCAN", construct, f, line,
                        f"scan of `{P.text(ow)}.members` keeps only the Attr members of an element and never looks at its Use members"
                        + (f" (the owner ranges over schema.{'/'.join(sorted(tabs))} only)" if tabs else "") +
                        ": attributes the element inherits through `use <group>` are silently dropped, so what is derived "
                        "here disagrees with what is emitted from schema.expanded_attrs(element) (e.g. a type is referenced "
                        "that is never defined); iterate schema.expanded_attrs(element), handle Use, or range over the groups too")


# ============================================================================ R-MODULE-STATE
_MUTABLE_CTORS = {"dict", "list", "set", "defaultdict", "OrderedDict", "deque", "Counter", "bytearray"}
_MUTATORS = {"append", "extend", "insert", "add", "update", "setdefault", "pop", "popitem", "remove", "discard", "clear",
             "appendleft", "extendleft", "popleft", "sort", "reverse", "__setitem__", "__delitem__"}
_KEYED_MUTATORS = {"setdefault", "__setitem__"}
_CACHE_DECORATORS = {"lru_cache", "cache", "cached_property", "functools.lru_cache", "functools.cache",
                     "functools.cached_property"}
_IO_CALLS = {"open", "input", "parse_file", "parse_dims", "read", "readlines", "listdir", "getenv", "urlopen"}


def _is_mutable_value(v):
    if isinstance(v, (ast.Dict, ast.List, ast.Set, ast.DictComp, ast.ListComp, ast.SetComp)):
        return True
    if isinstance(v, ast.Call):
        name = v.func.id if isinstance(v.func, ast.Name) else (v.func.attr if isinstance(v.func, ast.Attribute) else None)
        return name in _MUTABLE_CTORS
    return False


def _census(mod):
    """{(class name | None, name): Assign node} of the module- and class-level names bound to mutable containers."""
    out = {}
    def scan(body, cname):
        for st in body:
            tgt = val = None
            if isinstance(st, ast.Assign) and len(st.targets) == 1:
                tgt, val = st.targets[0], st.value
            elif isinstance(st, ast.AnnAssign) and st.value is not None:
                tgt, val = st.target, st.value
            if isinstance(tgt, ast.Name) and val is not None and _is_mutable_value(val):
                out[(cname, tgt.id)] = st
            if isinstance(st, (ast.If, ast.Try, ast.With)) and cname is None:
                for fld in ("body", "orelse", "finalbody"):
                    scan(getattr(st, fld, []) or [], cname)
    scan(mod.tree.body, None)
    for cname, c in mod.classes.items():
        scan(c.body, cname)
    return out


def _state_ref(node, fn, censuses):
    """(module name, class | None, name) when the expression denotes a module- / class-level mutable object of an analysed
    module: a global name, `module.name`, `Cls.name`, or `self.name` for a class-level container the methods never
    re-bind on the instance."""
    mod = node._mod
    if isinstance(node, ast.Name):
        if (fn is None or P._scope_of(node.id, fn) is None) and (None, node.id) in censuses.get(mod.name, {}):
            return (mod.name, None, node.id)
        return None
    if isinstance(node, ast.Attribute) and isinstance(node.value, ast.Name):
        base = node.value.id
        if base in mod.classes and (base, node.attr) in censuses.get(mod.name, {}):
            return (mod.name, base, node.attr)
        if base in ("self", "cls") and fn is not None and fn.cls and (fn.cls, node.attr) in censuses.get(mod.name, {}):
            rebound = any(isinstance(x, ast.Attribute) and isinstance(x.ctx, ast.Store) and isinstance(x.value, ast.Name)
                          and x.value.id == "self" and x.attr == node.attr
                          for g in mod.funcs.values() if g.cls == fn.cls for x in mod.nodes(g))
            return None if rebound else (mod.name, fn.cls, node.attr)
        target = mod.imports.get(base)
        if target and (fn is None or not P._is_local(node.value, fn)) and (None, node.attr) in censuses.get(target.split(".")[-1], {}):
            return (target.split(".")[-1], None, node.attr)
    return None


class _Deps:
    """Access paths (rooted at parameters / enclosing-function variables) an expression's value depends on, through plain
    local assignments and loop variables.  `bad` is set when something cannot be followed."""

    def __init__(self, fn, censuses, written):
        self.fn, self.censuses, self.written = fn, censuses, written
        self.bad = None
        self._busy = set()

    def of(self, expr, fn=None):
        fn = fn or self.fn
        out = set()
        bound = {x.id for c in ast.walk(expr) if isinstance(c, ast.comprehension) for x in ast.walk(c.target)
                 if isinstance(x, ast.Name)}
        bound |= {a.arg for l in ast.walk(expr) if isinstance(l, ast.Lambda) for a in l.args.args}

        def chain_of(n):
            parts = []
            while isinstance(n, ast.Attribute):
                parts.append(n.attr)
                n = n.value
            return (n, list(reversed(parts))) if isinstance(n, ast.Name) else (None, None)

        def visit(n, parent_call_func=False):
            if isinstance(n, (ast.Attribute, ast.Name)) and isinstance(getattr(n, "ctx", None), ast.Load):
                root, parts = chain_of(n)
                if root is not None:
                    if parent_call_func and parts:
                        parts = parts[:-1]            # x.m(..): the method may read any part of x
                    ref = _state_ref(n, fn, self.censuses) or _state_ref(root, fn, self.censuses)
                    if ref and ref in self.written:
                        out.add("<state>" + ".".join(str(x) for x in ref if x))
                        return
                    if root.id in bound:
                        return
                    self._name(root.id, parts, fn, out, n)
                    return
            if isinstance(n, ast.Call):
                visit(n.func, True)
                for a in list(n.args) + [k.value for k in n.keywords]:
                    visit(a.value if isinstance(a, ast.Starred) else a)
                # a helper that reads written module state carries that dependence
                kind, tg = P.resolve(n, fn, (P.model().mod,)) if hasattr(n, "_mod") else ("unknown", None)
                if kind == "func":
                    for g in P.closure(tg, (P.model().mod,)):
                        for x in g.mod.nodes(g):
                            r = _state_ref(x, g, self.censuses) if isinstance(x, (ast.Name, ast.Attribute)) else None
                            if r and r in self.written:
                                out.add("<state>" + ".".join(str(y) for y in r if y))
                elif kind == "unknown":
                    self.bad = self.bad or f"call `{P.text(n)[:40]}` cannot be resolved"
                return
            for c in ast.iter_child_nodes(n):
                visit(c)
        visit(expr)
        return out

    def _name(self, name, parts, fn, out, at):
        scope = P._scope_of(name, fn)
        if scope is None:
            return                               # builtin / module constant / function / class / import
        stores = [x for x in P.stores_of(scope).get(name, []) if not any(isinstance(a, ast.comprehension) for a in P.ancestors(x))]
        if name in scope.params and not stores:
            out.add(".".join([name] + parts))
            return
        if (scope, name) in self._busy:
            return
        self._busy.add((scope, name))
        try:
            if name in scope.params:
                out.add(name)
            for x in stores:
                top = x
                while not isinstance(top._parent, ast.stmt):
                    top = top._parent
                st = top._parent
                if isinstance(st, ast.Assign):
                    out |= self.of(st.value, scope)
                elif isinstance(st, ast.AugAssign):
                    out |= self.of(st.value, scope)
                elif isinstance(st, ast.AnnAssign) and st.value is not None:
                    out |= self.of(st.value, scope)
                elif isinstance(st, ast.For) and top._field == "target":
                    out |= self.of(st.iter, scope)
                elif isinstance(st, (ast.With, ast.AsyncWith)):
                    for it in st.items:
                        out |= self.of(it.context_expr, scope)
                else:
                    self.bad = self.bad or f"binding of `{name}` ({type(st).__name__}) is not followed"
        finally:
            self._busy.discard((scope, name))


def _key_paths(key, fn):
    """Access paths a key is made of: each component must be a parameter or an attribute chain of one (through
    single-assigned locals); other components determine nothing."""
    key = P._single_value(key, fn)
    comps = key.elts if isinstance(key, ast.Tuple) else [key]
    out = set()
    for c in comps:
        c = P._single_value(c, fn)
        parts, n = [], c
        while isinstance(n, ast.Attribute):
            parts.append(n.attr)
            n = n.value
        if isinstance(n, ast.Name) and P._scope_of(n.id, fn) is not None and n.id in P._scope_of(n.id, fn).params and \
                n.id not in P.stores_of(P._scope_of(n.id, fn)):
            out.add(".".join([n.id] + list(reversed(parts))))
    return out


def _covered(dep, keys):
    return any(dep == k or dep.startswith(k + ".") for k in keys)


def rule_module_state(res, mods, und):
    sm = P.model()
    res.rule("R-MODULE-STATE", "generation is a function of the schema: no function of the generators stores into a module- or "
             "class-level mutable object (subscript store, mutator call, `global` re-binding, mutable default argument, "
             "functools cache decorator) whose content is read back, unless the stored value is a function of the key it is "
             "stored under (every parameter path the value depends on is a component of the key, or lies below one)", floor=6)
    allmods = mods + [sm.mod]
    censuses = {m.name: _census(m) for m in allmods}
    writes = {}          # ref -> [(fn, node, kind, key expr | None, value expr | None)]
    reads = {}           # ref -> [(fn, node, keyed?)]
    for mod in allmods:
        for fn in mod.funcs.values():
            globs = {nm for n in mod.nodes(fn) if isinstance(n, ast.Global) for nm in n.names}
            for n in mod.nodes(fn):
                # re-binding of a module-level name
                if isinstance(n, ast.Name) and isinstance(n.ctx, (ast.Store, ast.Del)) and n.id in globs:
                    st = P.stmt_of(n)
                    val = getattr(st, "value", None)
                    writes.setdefault((mod.name, None, n.id), []).append((fn, n, "rebind", None, val))
                    continue
                if not isinstance(n, (ast.Name, ast.Attribute)):
                    continue
                ref = _state_ref(n, fn, censuses)
                if isinstance(n, ast.Name) and n.id in globs and isinstance(n.ctx, ast.Load):
                    ref = ref or (mod.name, None, n.id)
                if ref is None or (isinstance(n._parent, ast.Attribute) and n._field == "value" and _state_ref(n._parent, fn, censuses)):
                    continue
                p = n._parent
                if isinstance(p, ast.Subscript) and n._field == "value":
                    if isinstance(p.ctx, (ast.Store, ast.Del)):
                        st = P.stmt_of(p)
                        val = st.value if isinstance(st, (ast.Assign, ast.AugAssign)) else None
                        writes.setdefault(ref, []).append((fn, p, "item", p.slice, val))
                    else:
                        reads.setdefault(ref, []).append((fn, p, True))
                elif isinstance(p, ast.Attribute) and n._field == "value" and isinstance(p._parent, ast.Call) and p._field == "func":
                    call = p._parent
                    if p.attr in _MUTATORS:
                        keyed = p.attr in _KEYED_MUTATORS and len(call.args) == 2
                        writes.setdefault(ref, []).append((fn, call, p.attr, call.args[0] if keyed else None,
                                                           call.args[1] if keyed else (call.args[0] if call.args else None)))
                        if p.attr in ("setdefault", "pop", "popitem", "popleft") and not isinstance(call._parent, ast.Expr):
                            reads.setdefault(ref, []).append((fn, call, p.attr == "setdefault"))
                    else:
                        reads.setdefault(ref, []).append((fn, call, p.attr == "get"))
                elif isinstance(p, ast.Compare) and n._field == "comparators" and isinstance(p.ops[n._idx], (ast.In, ast.NotIn)):
                    reads.setdefault(ref, []).append((fn, p, True))
                elif isinstance(p, ast.AugAssign) and n._field == "target":
                    writes.setdefault(ref, []).append((fn, p, "augassign", None, p.value))
                    reads.setdefault(ref, []).append((fn, p, False))
                elif isinstance(n.ctx, ast.Load):
                    reads.setdefault(ref, []).append((fn, n, False))
    written = set(writes)
    census_out = []
    for mname, cen in sorted(censuses.items()):
        for (cname, name), node in sorted(cen.items(), key=lambda kv: (str(kv[0][0]), kv[0][1])):
            ref = (mname, cname, name)
            label = ".".join(x for x in (mname, cname, name) if x)
            use = "written in " + ", ".join(sorted({w[0].qual for w in writes[ref]})) if ref in writes else "read-only"
            census_out.append({"object": label, "line": node.lineno, "use": use})
            if ref not in writes:
                res.ok("R-MODULE-STATE", f"{label}:read-only", {"file": DIR + mname + ".py", "line": node.lineno})
    res.extra["module_level_mutable_objects"] = census_out
    res.count("module_level_mutable_objects", len(census_out))
    # ---- written objects
    for ref, ws in sorted(writes.items(), key=lambda kv: tuple(str(x) for x in kv[0])):
        label = ".".join(x for x in ref[1:] if x)
        rd = reads.get(ref, [])
        for fn, node, kind, key, val in ws:
            construct = f"{fn.mod.name}.{fn.qual}:{label}"
            f = _file(fn.mod)
            if not rd:
                res.ok("R-MODULE-STATE", construct, {"file": f, "line": node.lineno, "how": "WRITE-ONLY (never read back)"})
                continue
            d = _Deps(fn, censuses, written)
            deps = d.of(val, fn) if val is not None else set()
            if kind in ("item", "setdefault", "__setitem__") and key is not None:
                keys = _key_paths(key, fn)
                unkeyed = [r for r in rd if not r[2]]
                missing = sorted(x for x in deps if not _covered(x, keys))
                if d.bad and not missing:
                    und.add("R-MODULE-STATE", construct, f, node.lineno, f"what the stored value depends on cannot be followed: {d.bad}")
                elif missing:
                    res.bad("R-MODULE-STATE", construct, f, node.lineno,
                            f"`{label}` outlives the call and is read back; the value stored under key `{P.text(P._single_value(key, fn))[:60]}` depends on "
                            f"{missing}, which the key (made of {sorted(keys) or 'nothing traceable'}) does not determine: a later call "
                            "with another object that has the same key gets the earlier object's result -- the output is no longer "
                            "a function of the schema")
                elif unkeyed:
                    res.bad("R-MODULE-STATE", construct, f, unkeyed[0][1].lineno,
                            f"`{label}` is filled across calls and read as a whole (`{P.text(unkeyed[0][1])[:50]}`): its content depends on "
                            "every earlier call in the process")
                else:
                    res.ok("R-MODULE-STATE", construct, {"file": f, "line": node.lineno,
                                                         "how": f"MEMO keyed by {sorted(keys)} covers {sorted(deps)}"})
                continue
            if kind == "rebind" and not deps and not d.bad and val is not None:
                res.ok("R-MODULE-STATE", construct, {"file": f, "line": node.lineno, "how": "INITIALISED-ONCE (value depends on no argument)"})
                continue
            if d.bad and kind == "rebind":
                und.add("R-MODULE-STATE", construct, f, node.lineno, f"what the stored value depends on cannot be followed: {d.bad}")
                continue
            res.bad("R-MODULE-STATE", construct, f, node.lineno,
                    f"`{label}` is a module-/class-level object changed by `{P.text(node)[:50]}` on every call and read back "
                    f"(`{P.text(rd[0][1])[:40]}` in {rd[0][0].qual}): state that persists across generate() calls flows into the "
                    "output or into a decision")
    # ---- cache decorators and mutable default arguments
    for mod in allmods:
        for fn in mod.funcs.values():
            f = _file(mod)
            for dec in fn.node.decorator_list:
                dn = P.text(dec.func if isinstance(dec, ast.Call) else dec)
                if dn not in _CACHE_DECORATORS:
                    continue
                construct = f"{mod.name}.{fn.qual}:{dn.split('.')[-1]}"
                why = None
                if fn.parent is not None:
                    res.ok("R-MODULE-STATE", construct, {"file": f, "line": fn.node.lineno, "how": "PER-CALL (cache of a nested function)"})
                    continue
                for g in P.closure([fn], (sm.mod,)):
                    for x in g.mod.nodes(g):
                        if isinstance(x, (ast.Name, ast.Attribute)) and isinstance(getattr(x, "ctx", None), ast.Load):
                            r = _state_ref(x, g, censuses)
                            if r and r in written:
                                why = f"reads `{'.'.join(y for y in r[1:] if y)}` (module state written elsewhere) in {g.qual}"
                        if isinstance(x, ast.Call):
                            nm = x.func.id if isinstance(x.func, ast.Name) else (x.func.attr if isinstance(x.func, ast.Attribute) else "")
                            if nm in _IO_CALLS:
                                why = why or f"reads the environment (`{P.text(x)[:40]}` in {g.qual})"
                            if P.resolve(x, g, (sm.mod,))[0] == "unknown":
                                why = why or f"calls `{P.text(x.func)[:30]}`, which cannot be resolved"
                if why:
                    res.bad("R-MODULE-STATE", construct, f, fn.node.lineno,
                            f"results of {fn.qual}({', '.join(fn.params)}) are cached for the life of the process, but the result is "
                            f"not a function of the arguments alone: it {why}; a later call with equal arguments returns the stale result")
                else:
                    res.ok("R-MODULE-STATE", construct, {"file": f, "line": fn.node.lineno, "how": "PURE (a function of its arguments)"})
            a = fn.node.args
            posl = a.posonlyargs + a.args
            for prm, dflt in list(zip(posl[len(posl) - len(a.defaults):], a.defaults)) + \
                    [(k, v) for k, v in zip(a.kwonlyargs, a.kw_defaults) if v is not None]:
                if not _is_mutable_value(dflt):
                    continue
                construct = f"{mod.name}.{fn.qual}:default[{prm.arg}]"
                mutated = [x for x in mod.nodes(fn) if
                           (isinstance(x, ast.Subscript) and isinstance(x.ctx, (ast.Store, ast.Del)) and P.text(x.value) == prm.arg) or
                           (isinstance(x, ast.Call) and isinstance(x.func, ast.Attribute) and x.func.attr in _MUTATORS
                            and P.text(x.func.value) == prm.arg)]
                if mutated and prm.arg not in P.stores_of(fn):
                    res.bad("R-MODULE-STATE", construct, f, mutated[0].lineno,
                            f"the mutable default of parameter `{prm.arg}` is one object shared by all calls and is changed by "
                            f"`{P.text(mutated[0])[:50]}`: state that persists across calls")
                else:
                    res.ok("R-MODULE-STATE", construct, {"file": f, "line": fn.node.lineno, "how": "default never mutated"})


# ============================================================================ R-ASSUME-GUAR
def _eq_guaranteed(node, fn, key_text, T, guar):
    """Dominating `any(isinstance(m, C) and m.<field> == key ...)` with (C, field) a validator guarantee for table T."""
    k = P.know_at(node, fn)
    for key, v in k.K.items():
        if key[0] != "truthy" or not v:
            continue
        c = k.forms.nodes.get(key[1])
        if not (isinstance(c, ast.Call) and isinstance(c.func, ast.Name) and c.func.id == "any" and c.args
                and isinstance(c.args[0], (ast.GeneratorExp, ast.ListComp))):
            continue
        gen = c.args[0]
        forms = P.Forms()
        f = forms.mk(gen.elt)
        lits = f[1] if f[0] == "and" else [f]
        cls = [x[1][2] for x in lits if x[0] == "lit" and x[2] and x[1][0] == "isinst"]
        eqs = [x[1] for x in lits if x[0] == "lit" and x[2] and x[1][0] == "eq"]
        for e in eqs:
            for a, b in ((e[1], e[2]), (e[2], e[1])):
                if b == key_text and "." in a:
                    var, field = a.rsplit(".", 1)
                    for cl in cls:
                        if len(cl) == 1 and any(g["cls"] == cl[0] and g["field"] == field and g["table"] == T and g["types"] is None
                                                for g in guar):
                            return f"{cl[0]}.{field}"
    return None


def rule_guar(res, mods, und):
    sm = P.model()
    guar = P.validator_guarantees()
    res.rule("R-ASSUME-GUAR", "every lookup schema.enums/groups/elements[key] in a generator uses a key that is a key of that "
             "table, a field the validator checked for every declaration (under the same type condition), or is dominated "
             "by a membership test; generators only see schemas returned by parse_file/parse_string", floor=18)
    res.extra["validator_guarantees"] = [f"{g['cls']}.{g['field']} in {g['table']}" +
                                         (f" when type in {sorted(g['types'])}" if g["types"] else "") for g in guar]
    literals = {}
    post = P.validate_postdominates()
    post_ok = all(o[1] for o in post)
    for construct, ok, line, msg in post:
        if ok:
            res.ok("R-ASSUME-GUAR", "mjcf_schema." + construct, {"file": sm.mod.rel, "line": line})
        else:
            res.bad("R-ASSUME-GUAR", "mjcf_schema." + construct, sm.mod.rel, line, msg)
    for mod in mods:
        f = _file(mod)
        uses_schema = "mjcf_schema" in mod.imports
        if uses_schema:
            bad = None
            got = False
            for fn in mod.funcs.values():
                for c in P.calls_in(fn):
                    kind, p = P.resolve(c, fn, (sm.mod,))
                    if kind == "class" and p in ("Schema", "_Parser"):
                        bad = c
                    if kind == "func" and any(g.mod is sm.mod and g.qual in ("_Parser.__init__", "_Parser.parse") for g in p) \
                            and isinstance(c.func, ast.Attribute) and P.text(c.func).startswith("mjcf_schema."):
                        bad = c
                    if kind == "func" and any(g.mod is sm.mod and g.qual in ("parse_file", "parse_string") for g in p):
                        got = True
            construct = f"{mod.name}:schema-source"
            if bad is not None:
                res.bad("R-ASSUME-GUAR", construct, f, bad.lineno, f"`{P.text(bad)[:60]}` builds a schema that bypasses _validate")
            elif got:
                res.ok("R-ASSUME-GUAR", construct, {"file": f, "line": 1, "via": "mjcf_schema.parse_file"})
        for fn in mod.funcs.values():
            for n in mod.nodes(fn):
                if not (isinstance(n, ast.Subscript) and isinstance(n.ctx, ast.Load) and P.table1(n.value, fn) and not n._ann):
                    continue
                T = P.table1(n.value, fn)
                construct = f"{mod.name}.{fn.qual}:{P.text(n)}"
                k = P.know_at(n, fn)
                kt, ct = P.text(n.slice), P.text(n.value)
                k.forms.nodes.setdefault(kt, n.slice)
                k.forms.nodes.setdefault(ct, n.value)
                if k.val(("in", kt, ct)) is True:
                    res.ok("R-ASSUME-GUAR", construct, {"file": f, "line": n.lineno, "idiom": "MEMBERSHIP"})
                    continue
                eqg = _eq_guaranteed(n, fn, kt, T, guar)
                if eqg and post_ok:
                    res.ok("R-ASSUME-GUAR", construct, {"file": f, "line": n.lineno, "idiom": f"EQUALS-GUARANTEED {eqg}"})
                    continue
                org = P.origins(n.slice, fn, n)
                miss, how = [], set()
                for o in org:
                    if o == ("key", T):
                        how.add("KEY-OF-TABLE")
                    elif o[0] == "literal" and isinstance(o[1], str):
                        how.add("LITERAL-ANCHOR")
                        literals.setdefault(T, set()).add(o[1])
                    elif o[0] == "field" and post_ok and any(
                            g["cls"] == o[1] and g["field"] == o[2] and g["table"] == T and
                            (g["types"] is None or _types_at(n, fn, n.slice, sm) <= g["types"]) for g in guar):
                        how.add(f"VALIDATOR-GUARANTEE {o[1]}.{o[2]}")
                    else:
                        miss.append(o)
                if org and not miss:
                    res.ok("R-ASSUME-GUAR", construct, {"file": f, "line": n.lineno, "idiom": sorted(how)})
                elif not org or all(o[0] == "unknown" or P.weak_guarantee(o, T) for o in miss):
                    # the key could not be traced to a field / table key / literal: cannot decide (not a violation)
                    und.add("R-ASSUME-GUAR", construct, f, n.lineno,
                            f"key of schema.{T} lookup has an origin the analyser cannot trace: {sorted(map(str, miss or org))}")
                else:
                    res.bad("R-ASSUME-GUAR", construct, f, n.lineno,
                            f"key of origin {sorted(map(str, miss or org))} is looked up in schema.{T} without a membership "
                            "test; the validator does not guarantee it (KeyError for a valid schema)")
    res.extra["literal_anchor_keys"] = {t: sorted(v) for t, v in literals.items()}
    return literals


def _types_at(node, fn, key_expr, sm):
    if isinstance(key_expr, ast.Attribute) and isinstance(key_expr.value, ast.Name):
        return frozenset(P.know_at(node, fn).values(f"{key_expr.value.id}.type", sm.types))
    return frozenset(sm.types)


# ============================================================================ R-RECURSION
def _validator_acyclic_elements():
    """A raise in the validator's closure that depends on membership of an element name in a walk accumulator that is
    grown with that name, in a function that looks the name up in schema.elements: child nesting would be acyclic."""
    sm = P.model()
    m = sm.mod
    for fn in P.closure([m.func("_validate")]):
        for st in P.raise_sites(fn):
            k = P.know_at(st, fn)
            for key, v in k.K.items():
                if key[0] == "in" and v and key[2].isidentifier():
                    A, S = key[1], key[2]
                    grown = any((isinstance(n, ast.BinOp) and P.text(n.left) == S and isinstance(n.right, (ast.List, ast.Set))
                                 and any(P.text(e) == A for e in n.right.elts)) or
                                (isinstance(n, ast.Call) and isinstance(n.func, ast.Attribute) and n.func.attr in ("append", "add")
                                 and P.text(n.func.value) == S and n.args and P.text(n.args[0]) == A) for n in m.nodes(fn))
                    looked = any((isinstance(n, ast.Subscript) and P.table_of(n.value) == "elements" and P.text(n.slice) == A) or
                                 (isinstance(n, ast.Call) and isinstance(n.func, ast.Attribute) and n.func.attr == "get" and
                                  P.table_of(n.func.value) == "elements" and n.args and P.text(n.args[0]) == A)
                                 for n in m.nodes(fn))
                    if grown and looked:
                        return st.lineno
    return None


def _walks_elements(fn):
    m = fn.mod
    return any((isinstance(n, ast.Call) and isinstance(n.func, ast.Attribute) and n.func.attr == "children") or
               (isinstance(n, ast.Subscript) and P.table_of(n.value) == "elements") for n in m.nodes(fn))


def _ancestry_guard(fn, comp):
    """A parameter P such that every recursive call passes `P | {x}` / `P + [x]` and `x in P` (either polarity) is tested
    by an assert or a terminating if before the recursive call."""
    m = fn.mod
    rec = [c for c in P.calls_in(fn) if P.resolve(c, fn)[0] == "func" and any(g in comp for g in P.resolve(c, fn)[1])]
    for pn in fn.params:
        grown = []
        for c in rec:
            target = [g for g in P.resolve(c, fn)[1] if g in comp][0]
            a = P.bind_args(c, target).get(pn)
            if isinstance(a, ast.BinOp) and isinstance(a.op, (ast.BitOr, ast.Add)) and isinstance(a.left, ast.Name) and \
                    a.left.id == pn and isinstance(a.right, (ast.Set, ast.List, ast.Tuple)) and len(a.right.elts) == 1:
                grown.append(P.text(a.right.elts[0]))
            else:
                grown = None
                break
        if not grown:
            continue
        # what is known at every recursive call (tests in the function, in checking helpers it calls, at its own call
        # sites) must involve membership of the grown element in the ancestry parameter
        def atoms(k):
            out = [key for key in k.K]
            for f in k.fs:
                stack = [f]
                while stack:
                    x = stack.pop()
                    if x[0] == "lit":
                        out.append(x[1])
                    else:
                        stack.extend(x[1])
            return out
        if rec and all(any(a[0] == "in" and a[2] == pn and a[1] in grown for a in atoms(P.know_at(c, fn))) for c in rec):
            return f"membership of {grown[0]} in {pn} is tested on the way to every recursive call, {pn} grown by {grown[0]}"
        for n in m.nodes(fn):
            tests = []
            if isinstance(n, ast.Assert):
                tests.append(n.test)
            elif isinstance(n, ast.If) and (P.terminates(n.body, fn) or (n.orelse and P.terminates(n.orelse, fn))):
                tests.append(n.test)
            for t in tests:
                for x in ast.walk(t):
                    if isinstance(x, ast.Compare) and len(x.ops) == 1 and isinstance(x.ops[0], (ast.In, ast.NotIn)) and \
                            P.text(x.comparators[0]) == pn and P.text(x.left) in grown and \
                            all(P.pos(n) < P.pos(c) for c in rec):
                        return f"{'assert' if isinstance(n, ast.Assert) else 'if'} {P.text(x)} with {pn} grown by {grown[0]}"
    return None


_GROW = ("append", "extend", "insert", "appendleft")


def _grows(g, L, memo, depth=0):
    """Function g (or something it calls in its own module) may add items to the container spelled `L`
    (`self.x` in methods of one class, a captured local in nested functions)."""
    if g in memo:
        return memo[g]
    memo[g] = False
    hit = False
    for n in g.mod.nodes(g):
        if isinstance(n, ast.Call) and isinstance(n.func, ast.Attribute) and n.func.attr in _GROW and P.text(n.func.value) == L:
            hit = True
        elif isinstance(n, (ast.AugAssign, ast.Assign)) and any(P.text(t) == L for t in (
                [n.target] if isinstance(n, ast.AugAssign) else n.targets)) and not (
                isinstance(n, ast.Assign) and isinstance(n.value, (ast.List, ast.Tuple)) and not n.value.elts):
            hit = True
    if not hit and depth < 6:
        for h in P.callees(g, (P.model().mod,)):
            if h.mod is g.mod and (h.cls == g.cls or P._nested_in(h, g) or P._nested_in(g, h) or h.parent is g.parent) \
                    and _grows(h, L, memo, depth + 1):
                hit = True
                break
    memo[g] = hit
    return hit


def _refills(w, L, fn):
    """Nodes in the body of loop w that may put items on the work list `L`: direct growth, calls of functions that grow it,
    calls that receive the list itself."""
    out = []
    memo = {}
    for b in w.body:
        for n in ast.walk(b):
            if getattr(n, "_fn", None) is not fn or not isinstance(n, ast.Call):
                continue
            if isinstance(n.func, ast.Attribute) and P.text(n.func.value) == L:
                if n.func.attr in _GROW:
                    out.append(n)
                continue
            if any(P.text(a) == L for a in list(n.args) + [k.value for k in n.keywords]):
                if not (isinstance(n.func, ast.Name) and n.func.id in ("len", "bool", "list", "tuple", "sorted", "iter", "reversed")):
                    out.append(n)
                continue
            kind, tg = P.resolve(n, fn, (P.model().mod,))
            if kind == "func" and any(g.mod is fn.mod and _grows(g, L, memo) for g in tg):
                out.append(n)
    for b in w.body:
        for n in ast.walk(b):
            if getattr(n, "_fn", None) is fn and isinstance(n, ast.AugAssign) and P.text(n.target) == L:
                out.append(n)
    return out


def _test_and_mark(call, fn, keys):
    """`call` calls a helper that tests whether its item is in a visited container, adds it if not, and returns whether it
    was new: `if x in V: return False; V.add(x); return True` (or the mirrored nesting), called with the popped item."""
    kind, p = P.resolve(call, fn, (P.model().mod,))
    if kind != "func" or len(p) != 1:
        return False
    g = p[0]
    amap = {pn: P.text(a) for pn, a in P.bind_args(call, g).items()}
    item = [pn for pn, a in amap.items() if a in keys]
    if len(item) != 1 or item[0] in P.stores_of(g):
        return False
    x = item[0]
    rets = [n for n in g.mod.nodes(g) if isinstance(n, ast.Return)]
    adds = [n for n in g.mod.nodes(g) if isinstance(n, ast.Call) and isinstance(n.func, ast.Attribute) and n.func.attr in ("add", "append")
            and n.args and P.text(n.args[0]) == x]
    if len(adds) != 1 or not rets or any(isinstance(n, (ast.For, ast.While, ast.Try, ast.With)) for n in g.mod.nodes(g)):
        return False
    V = P.text(adds[0].func.value)
    # the add happens only where `x not in V` is known, every return after it is true, every return where x was in V is false
    ka = P.know_at(adds[0], g)
    if ka.K.get(("in", x, V)) is not False:
        return False
    for r in rets:
        kr = P.know_at(r, g)
        val = r.value.value if isinstance(r.value, ast.Constant) else None
        seen_before = kr.K.get(("in", x, V))
        if seen_before is True:
            if val not in (False, None) or r.value is not None and not isinstance(r.value, ast.Constant):
                return False
        elif seen_before is False and P.pos(r) > P.pos(adds[0]):
            if val is not True:
                return False
        else:
            return False
    return True


def _helper_membership_test(w, fn, keys):
    """Name of a module helper called in the loop with the popped item whose body tests membership of that parameter."""
    for b in w.body:
        for n in ast.walk(b):
            if not isinstance(n, ast.Call) or getattr(n, "_fn", None) is not fn:
                continue
            kind, p = P.resolve(n, fn, (P.model().mod,))
            if kind != "func":
                continue
            for g in p:
                for pn, a in P.bind_args(n, g).items():
                    if P.text(a) in keys and any(isinstance(c, ast.Compare) and any(isinstance(o, (ast.In, ast.NotIn)) for o in c.ops)
                                                 and P.text(c.left) == pn for c in g.mod.nodes(g)):
                        return g.qual
    return None


def _walk_key(fn, comps_in_mod):
    """Construct key of a recursive element walk: by module and role, not by where the function is defined (closure of
    generate(), module-level helper, method of a helper class)."""
    base = f"{fn.mod.name}:recursive-element-walk"
    if comps_in_mod > 1:
        return f"{base}[{fn.node.name}]"
    return base


def rule_recursion(res, mods, und=None):
    res.rule("R-RECURSION", "every walk over element children in a generator (recursive function or pop/push work list) "
             "has an ancestry / visited guard, unless the validator makes child nesting acyclic", floor=3)
    acyclic = _validator_acyclic_elements()
    res.extra["validator_rejects_child_cycles"] = bool(acyclic)
    funcs = [f for m in mods for f in m.funcs.values()]
    comps = [[f for f in comp if _walks_elements(f)] for comp in P.sccs(funcs, (P.model().mod,))]
    per_mod = {}
    for comp in comps:
        for f in comp:
            per_mod[f.mod.name] = per_mod.get(f.mod.name, 0) + 1
    for comp_all, comp in zip(P.sccs(funcs, (P.model().mod,)), comps):
        for fn in comp:
            construct = _walk_key(fn, per_mod[fn.mod.name])
            where = f"{fn.mod.name}.{fn.qual}"
            g = _ancestry_guard(fn, comp_all)
            if g:
                res.ok("R-RECURSION", construct, {"file": _file(fn.mod), "line": fn.node.lineno, "guard": g, "function": where})
            elif acyclic:
                res.ok("R-RECURSION", construct, {"file": _file(fn.mod), "line": fn.node.lineno, "guard": f"validator line {acyclic}"})
            else:
                rec = [c for c in P.calls_in(fn) if P.resolve(c, fn)[0] == "func" and any(h in comp_all for h in P.resolve(c, fn)[1])]
                res.bad("R-RECURSION", construct, _file(fn.mod), rec[0].lineno,
                        f"{where} recurses into child elements (`{P.text(rec[0])[:70]}`) with no ancestry/visited test; the validator "
                        "accepts mutually recursive child declarations (the checked-in schema has body <-> frame), so a valid "
                        "schema whose cycle does not go through the skipped cases recurses until RecursionError")
    # work lists: a container that is popped where it is known to be non-empty, inside a loop that can refill it
    for mod in mods:
        for fn in mod.funcs.values():
            for w in mod.nodes(fn):
                if not isinstance(w, (ast.While, ast.For)):
                    continue
                pops = [n for b in w.body for n in ast.walk(b) if isinstance(n, ast.Call) and isinstance(n.func, ast.Attribute)
                        and n.func.attr in ("pop", "popleft") and getattr(n, "_fn", None) is fn
                        and next((L for L in P.loops_of(n)), None) is w]
                for pop in pops:
                    L = P.text(pop.func.value)
                    k = P.know_at(pop, fn)
                    k.forms.nodes.setdefault(L, pop.func.value)
                    if k.val(("truthy", L)) is not True:
                        continue                  # not a `while L:` drain (possibly via a flag / continue guard)
                    refills = _refills(w, L, fn)
                    if not refills:
                        continue                  # drained, never refilled inside the loop: terminates
                    construct = f"{mod.name}.{fn.qual}:while {L}"
                    st = P.stmt_of(pop)
                    if not (isinstance(st, ast.Assign) and st.value is pop and len(st.targets) == 1):
                        res.bad("R-RECURSION", construct, _file(mod), w.lineno, "work-list pop is not bound to a name")
                        continue
                    tgt = st.targets[0]
                    keys = {P.text(tgt)} | ({"(" + ", ".join(P.text(e) for e in tgt.elts) + ")"} if isinstance(tgt, ast.Tuple) else set())
                    for b in w.body:          # `a, b = item` right in the loop: (a, b) names the popped item as well
                        for n in ast.walk(b):
                            if isinstance(n, ast.Assign) and len(n.targets) == 1 and isinstance(n.targets[0], ast.Tuple) and \
                                    isinstance(n.value, ast.Name) and n.value.id in keys and getattr(n, "_fn", None) is fn and \
                                    all(isinstance(e, ast.Name) and len(P.stores_of(fn).get(e.id, [])) == 1 for e in n.targets[0].elts):
                                keys.add("(" + ", ".join(e.id for e in n.targets[0].elts) + ")")
                    # visited sets: containers V with `V.add(key)` in the loop body
                    marks = {}
                    for b in w.body:
                        for n in ast.walk(b):
                            if isinstance(n, ast.Call) and isinstance(n.func, ast.Attribute) and n.func.attr in ("add", "append") \
                                    and n.args and P.text(n.args[0]) in keys and getattr(n, "_fn", None) is fn:
                                marks.setdefault(P.text(n.func.value), []).append(n)
                    guard, why = None, "no visited set is marked with the popped item inside the loop"
                    # a test-and-mark helper: `if first_visit(V, key):` / `if not first_visit(..): continue`
                    tm = [n for b in w.body for n in ast.walk(b) if isinstance(n, ast.Call) and getattr(n, "_fn", None) is fn
                          and _test_and_mark(n, fn, keys)]
                    for c in tm:
                        t = P.text(c)
                        if all(P.know_at(r, fn).K.get(("truthy", t)) is True for r in refills if r is not c):
                            guard = f"every refill runs only where `{t}` (test-and-mark of the popped item) returned true"
                    helper_tests = not tm and _helper_membership_test(w, fn, keys)
                    for V, adds in ([] if guard else marks.items()):
                        unguarded = []
                        for r in refills:
                            kr = P.know_at(r, fn)
                            if not any(kr.K.get(("in", key, V)) is False for key in keys):
                                unguarded.append(r)
                        if not unguarded:
                            guard = f"every refill runs only where `{sorted(keys)[0]} not in {V}` holds; {V}.add(..) in the loop"
                            break
                        why = (f"`{P.text(unguarded[0])[:50]}` (line {unguarded[0].lineno}) can refill the list although the popped "
                               f"item may already be in `{V}`")
                    if guard:
                        res.ok("R-RECURSION", construct, {"file": _file(mod), "line": w.lineno, "guard": guard})
                    elif helper_tests and und is not None:
                        und.add("R-RECURSION", construct, _file(mod), w.lineno,
                                f"the popped item is handed to `{helper_tests}`, which tests membership: a visited-set test in a shape "
                                "the analyser does not interpret")
                    else:
                        res.bad("R-RECURSION", construct, _file(mod), w.lineno,
                                f"work list `{L}` is popped and refilled without a visited-set test ({why}): does not terminate "
                                "on cyclic references")


# ============================================================================ entry
def run(res, tier):
    mods = _mods()
    for m in mods:
        if "generate" not in m.funcs:
            raise AnalysisError(f"anchor vanished: {m.rel}: generate()")
    res.trusted = ["CPython ast (parsing only; nothing from /repo is imported or executed)",
                   "objects carrying schema field names are instances of mjcf_schema's own dataclasses"]
    rule_determinism(res, mods)
    rule_exhaust(res, mods)
    rule_member(res, mods)
    und = P.Undecided()
    rule_member_scan(res, mods, und)
    rule_project_agree(res, mods, und)
    rule_module_state(res, mods, und)
    literals = rule_guar(res, mods, und)
    rule_recursion(res, mods, und)
    res.count("modules", len(mods) + 1)
    res.count("functions", sum(len(m.funcs) for m in mods))
    und.finish(res)
    res.explanation = (
        "Static lint of the seven schema generators plus the parts of mjcf_schema.py they consume (ast only). Decided: all "
        "uses of set-typed values are order-free, no run-dependent reads; every dict lookup / if-elif chain / returning-if "
        "chain keyed by attribute type, cardinality or constraint kind covers the values that can reach it (vocabularies "
        "read from mjcf_schema.py: parse_type's return constraints, CARDINALITIES, CONSTRAINT_VERBS) or has a default/raise; "
        "attributes of Group/Element members are isinstance-narrowed; every schema.enums/groups/elements lookup key is a key "
        "of that table, a validator-checked field, guarded, or a hard-coded anchor name (listed); recursive and work-list "
        "element walks have an ancestry/visited guard; a scan of an element's members that keeps only Attr also handles Use "
        "(or covers the groups), so that what is derived from it agrees with what is emitted from the expansion.")
    res.not_decided = ("member scans that do not iterate `.members` in a for loop / comprehension (index loops, filter()); whether a "
                       "scan over groups and elements together is then used per declaration rather than as one aggregate; "
                       "faithfulness of the emitted text (types, arities, defaults, enum constants) for all schemas; lookups in "
                       "tables parsed from C headers (self.dims[...], struct fields); termination of generate_schema.py's "
                       "text scanner.")
    res.assumptions = ["generators are specified for schemas that declare the hard-coded anchor names: " +
                       "; ".join(f"{t}: {', '.join(sorted(v))}" for t, v in sorted(literals.items())),
                       "dict iteration is insertion-ordered (Python >= 3.7)",
                       "assert statements are enabled (generate_dmcontrol's cycle guard is an assert)"]


# ============================================================================ self-test (thorough tier)
SCHEMA_PY = DIR + "mjcf_schema.py"
TABLE_PY = DIR + "generate_mjcf_table.py"
XSD_PY = DIR + "generate_xsd.py"
DMC_PY = DIR + "generate_dmcontrol.py"

_EC_LOOP = """  while stack:
    name = stack.pop()
    if name in visited:
      continue
    visited.add(name)
    group = schema.groups[name]
    for member in group.members:
      if isinstance(member, mjcf_schema.Constraint):
        cons.append(member)
      elif isinstance(member, mjcf_schema.Use):
        stack.append(member.group)
"""
_EC_NESTED = """  while stack:
    name = stack.pop()
    if name not in visited:
      visited.add(name)
      for member in schema.groups[name].members:
        if isinstance(member, mjcf_schema.Constraint):
          cons.append(member)
        elif isinstance(member, mjcf_schema.Use):
          stack.append(member.group)
"""
_EC_FLAG = """  done = False
  while not done:
    if not stack:
      done = True
      continue
    name = stack.pop()
    if _seen(visited, name):
      continue
    visited.add(name)
    for member in schema.groups[name].members:
      if isinstance(member, mjcf_schema.Constraint):
        cons.append(member)
      elif isinstance(member, mjcf_schema.Use):
        stack.append(member.group)
"""
_EC_HEAD = "def _element_constraints(schema, element):\n"
_XSD_LOOP = """    self.pending = [('mujoco', False)]
    while self.pending:
      name, projected = self.pending.pop(0)
      if (name, projected) in self.emitted:
        continue
      self.emitted.add((name, projected))
      self.emit_complex_type(name, projected)
"""
_XSD_METHOD_CALL = "    self.emit_reachable_types()\n"
_XSD_GENERATE = "  def generate(self):\n    \"\"\"Return the complete XSD document as a string.\"\"\"\n"


def _xsd_method(test=True, refill_guarded=True):
    body = "  def emit_reachable_types(self):\n    self.pending = [('mujoco', False)]\n    while self.pending:\n      key = self.pending.pop(0)\n"
    if test and refill_guarded:
        body += "      if key not in self.emitted:\n        self.emitted.add(key)\n        self.emit_complex_type(*key)\n"
    elif test:
        body += "      if key not in self.emitted:\n        self.emitted.add(key)\n      self.emit_complex_type(*key)\n"
    else:
        body += "      self.emitted.add(key)\n      self.emit_complex_type(*key)\n"
    return [(XSD_PY, _XSD_LOOP, _XSD_METHOD_CALL), (XSD_PY, _XSD_GENERATE, body + "\n" + _XSD_GENERATE)]


_VISIT_CHILDREN = """    children = [c for c in element.children()
                if c.name != element.name
                and 'alias' not in schema.elements[c.name].facets]
    if project:
      # plugin configuration is not settable per-class
      children = [c for c in children if c.name != 'plugin']
"""
_ROW_CHILDREN = """def _row_children(schema, element, project: bool):
  children = []
  for child in element.children():
    if child.name == element.name:
      continue
    if 'alias' in schema.elements[child.name].facets:
      continue
    if project and child.name == 'plugin':
      continue
    children.append(child)
  return children


"""
_ROW_ATTRS_SET = "    row_attrs = {a.name for a in attrs}\n"
_ROW_TEST = "      if all(all(n in row_attrs for n in b) for b in con.bundles):\n"
_SCHEMA_CHILD_CHECK = ("      if child.name not in schema.elements:\n"
                       "        err(child.line, f'child references undeclared element {child.name!r}')\n")
_DMC_ASSERT = """    assert (
        element.name not in ancestry
        or (element.name == 'default' and parent == 'default')
    ), f'unexpected cycle at {element.name}'
"""

MUTANTS = [
    # ---- must fire
    {"id": "validator-drops-child-membership-test", "expect": ("R-ASSUME-GUAR", "schema.elements[child.name]"),
     "edits": [(SCHEMA_PY, _SCHEMA_CHILD_CHECK, "")]},
    {"id": "lookup-in-wrong-table", "expect": ("R-ASSUME-GUAR", "generate_mjcf_table.generate.visit:schema.groups[child.name]"),
     "edits": [(TABLE_PY, "      decl = schema.elements[child.name]\n", "      decl = schema.groups[child.name]\n")]},
    {"id": "worklist-drops-visited-test", "expect": ("R-RECURSION", "_element_constraints:while"),
     "edits": [(TABLE_PY, "    if name in visited:\n      continue\n", "")]},
    {"id": "xsd-worklist-drops-visited-test", "expect": ("R-RECURSION", "generate_xsd._Emitter.generate:while"),
     "edits": [(XSD_PY, "      if (name, projected) in self.emitted:\n        continue\n", "")]},
    {"id": "xsd-worklist-method-without-test", "expect": ("R-RECURSION", "emit_reachable_types:while"), "edits": _xsd_method(test=False)},
    {"id": "xsd-worklist-refill-outside-test", "expect": ("R-RECURSION", "emit_reachable_types:while"),
     "edits": _xsd_method(refill_guarded=False)},
    {"id": "walk-drops-ancestry-test", "expect": ("R-RECURSION", "generate_dmcontrol:recursive-element-walk"),
     "edits": [(DMC_PY, _DMC_ASSERT, "")]},
    {"id": "set-iterated-into-output", "expect": ("R-DETERMINISM", "generate_dmcontrol"),
     "edits": [(DMC_PY, "f'populates: {sorted(dangling)}')", "f'populates: {sorted(dangling)}')\n    for r in dangling:\n      self.out(0, str(r))")]},
    {"id": "set-passed-to-iterating-helper", "expect": ("R-DETERMINISM", "generate_mjcf_table"),
     "edits": [(TABLE_PY, _EC_HEAD, "def _names_line(names):\n  return ' '.join(n for n in names)\n\n\n" + _EC_HEAD),
               (TABLE_PY, _ROW_ATTRS_SET, _ROW_ATTRS_SET + "    constraints.append('// ' + _names_line(row_attrs))\n")]},
    {"id": "hash-in-output", "expect": ("R-DETERMINISM", "hash()"),
     "edits": [(TABLE_PY, "    row_index = count\n", "    row_index = count + hash(element.name) % 1\n")]},
    {"id": "type-table-misses-file", "expect": ("R-EXHAUST", "SCALAR_XSD"),
     "edits": [(XSD_PY, "    if attr.type in ('string', 'file', 'ref', 'id'):\n      return 'xs:string', []",
                "    if attr.type in ('string', 'ref', 'id'):\n      return 'xs:string', []"),
               (XSD_PY, "              'string': 'xs:string', 'file': 'xs:string'}", "              'string': 'xs:string'}")]},
    {"id": "children-helper-returns-uses", "expect": ("R-EXHAUST-MEMBER", "generate_mjcf_table"),
     "edits": [(TABLE_PY, _EC_HEAD, _ROW_CHILDREN.replace("for child in element.children():", "for child in element.members:") + _EC_HEAD),
               (TABLE_PY, _VISIT_CHILDREN, "    children = _row_children(schema, element, project)\n")]},
    # ---- controls: behaviour-preserving shapes (small versions of the stored refactors E-p1 .. E-p4)
    {"id": "ctl-worklist-test-nests-the-work", "expect": None, "edits": [(TABLE_PY, _EC_LOOP, _EC_NESTED)]},
    {"id": "ctl-worklist-flag-loop-and-seen-helper", "expect": None,
     "edits": [(TABLE_PY, _EC_LOOP, _EC_FLAG),
               (TABLE_PY, _EC_HEAD, "def _seen(visited, name):\n  return name in visited\n\n\n" + _EC_HEAD)]},
    {"id": "ctl-xsd-worklist-in-method-with-star-call", "expect": None, "edits": _xsd_method()},
    {"id": "ctl-children-filter-in-helper", "expect": None,
     "edits": [(TABLE_PY, _EC_HEAD, _ROW_CHILDREN + _EC_HEAD),
               (TABLE_PY, _VISIT_CHILDREN, "    children = _row_children(schema, element, project)\n")]},
    {"id": "ctl-set-passed-to-membership-helper", "expect": None,
     "edits": [(TABLE_PY, _EC_HEAD, "def _all_known(names, known):\n  return all(n in known for n in names)\n\n\n" + _EC_HEAD),
               (TABLE_PY, _ROW_TEST, "      if _all_known([n for b in con.bundles for n in b], row_attrs):\n")]},
    {"id": "ctl-table-alias-local", "expect": None,
     "edits": [(TABLE_PY, "      decl = schema.elements[child.name]\n", "      elements = schema.elements\n      decl = elements[child.name]\n")]},
]


_NS_LOOP = """  namespaces = set()
  for container in containers:
    for member in container.members:
      if isinstance(member, Attr) and member.type == 'id':
        namespaces.add(member.target)
"""
_NS_HELPER = """def _id_namespaces(containers):
  return {member.target
          for container in containers
          for member in container.members
          if isinstance(member, Attr) and member.type == 'id'}


"""
_V_HEAD = "def _validate(schema: Schema):\n"
_ORDERED = "    for tname in sorted(self.vector_types):"

MUTANTS += [
    {"id": "set-from-helper-iterated", "expect": ("R-DETERMINISM", "mjcf_schema._validate:namespaces"),
     "edits": [(SCHEMA_PY, _NS_LOOP, "  namespaces = _id_namespaces(containers)\n  for ns in namespaces:\n    str(ns)\n"),
               (SCHEMA_PY, _V_HEAD, _NS_HELPER + _V_HEAD)]},
    {"id": "helper-lists-a-set-unsorted", "expect": ("R-DETERMINISM", "generate_xsd._ordered"),
     "edits": [(XSD_PY, _ORDERED, "    for tname in _ordered(set(self.vector_types)):"),
               (XSD_PY, "class _Emitter:", "def _ordered(names):\n  return list(names)\n\n\nclass _Emitter:")]},
    {"id": "ctl-set-built-and-returned-by-helper", "expect": None,
     "edits": [(SCHEMA_PY, _NS_LOOP, "  namespaces = _id_namespaces(containers)\n"), (SCHEMA_PY, _V_HEAD, _NS_HELPER + _V_HEAD)]},
    {"id": "ctl-sorted-inside-helper", "expect": None,
     "edits": [(XSD_PY, _ORDERED, "    for tname in _ordered(set(self.vector_types)):"),
               (XSD_PY, "class _Emitter:", "def _ordered(names):\n  return sorted(names)\n\n\nclass _Emitter:")]},
    {"id": "ctl-ancestry-assert-in-helper", "expect": None,
     "edits": [(DMC_PY, _DMC_ASSERT, "    _check_acyclic(element, ancestry, parent)\n"),
               (DMC_PY, "class _Emitter:", "def _check_acyclic(element, ancestry, parent):\n  assert (\n      element.name not in ancestry\n"
                "      or (element.name == 'default' and parent == 'default')\n  ), f'unexpected cycle at {element.name}'\n\n\nclass _Emitter:")]},
    {"id": "ctl-visited-test-and-mark-helper", "expect": None,
     "edits": [(TABLE_PY, "    if name in visited:\n      continue\n    visited.add(name)\n", "    if not _first_visit(visited, name):\n      continue\n"),
               (TABLE_PY, _EC_HEAD, "def _first_visit(visited, name):\n  if name in visited:\n    return False\n  visited.add(name)\n  return True\n\n\n" + _EC_HEAD)]},
    {"id": "test-and-mark-helper-never-marks", "expect": ("R-RECURSION", "_element_constraints:while"),
     "edits": [(TABLE_PY, "    if name in visited:\n      continue\n    visited.add(name)\n", "    if not _first_visit(visited, name):\n      continue\n"),
               (TABLE_PY, _EC_HEAD, "def _first_visit(visited, name):\n  return True\n\n\n" + _EC_HEAD)]},
    {"id": "ctl-popped-item-unpacked-later", "expect": None,
     "edits": [(XSD_PY, "      name, projected = self.pending.pop(0)\n", "      item = self.pending.pop(0)\n      name, projected = item\n")]},
]


_FLAGS_SCAN = """    flags_targets = set()
    for element in schema.elements.values():
      for attr in schema.expanded_attrs(element):
        if attr.type == 'flags':
          flags_targets.add(attr.target)
"""
_OWN_ATTRS = """def _flag_attrs(element):
  out = []
  for member in element.members:
    if not isinstance(member, mjcf_schema.Attr):
      continue
    if member.type == 'flags':
      out.append(member)
  return out


"""
_EXPANDING_FOR = """def _flag_attrs(schema, element):
  out = []
  for member in element.members:
    if isinstance(member, mjcf_schema.Attr) and member.type == 'flags':
      out.append(member)
    elif isinstance(member, mjcf_schema.Use):
      out.extend(a for a in schema._group_attrs(member.group) if a.type == 'flags')
  return out


"""

MUTANTS += [
    # R-MEMBER-SCAN: what is defined (kwlist_<enum>) must be derived from the same attributes as what is referenced
    {"id": "flags-scan-own-members-comprehension", "expect": ("R-MEMBER-SCAN", "generate_xsd._Emitter.generate:element.members[Attr]"),
     "edits": [(XSD_PY, _FLAGS_SCAN, "    flags_targets = {member.target\n                     for element in schema.elements.values()\n"
                "                     for member in element.members\n                     if isinstance(member, mjcf_schema.Attr)\n"
                "                     and member.type == 'flags'}\n")]},
    {"id": "flags-scan-own-members-continue-filter", "expect": ("R-MEMBER-SCAN", "generate_xsd._Emitter.generate:element.members[Attr]"),
     "edits": [(XSD_PY, _FLAGS_SCAN, "    flags_targets = set()\n    for element in schema.elements.values():\n      for member in element.members:\n"
                "        if not isinstance(member, mjcf_schema.Attr):\n          continue\n        if member.type == 'flags':\n"
                "          flags_targets.add(member.target)\n")]},
    {"id": "flags-scan-own-members-in-helper", "expect": ("R-MEMBER-SCAN", "generate_xsd._flag_attrs:element.members[Attr]"),
     "edits": [(XSD_PY, "class _Emitter:", _OWN_ATTRS + "class _Emitter:"),
               (XSD_PY, _FLAGS_SCAN, "    flags_targets = {a.target for element in schema.elements.values() for a in _flag_attrs(element)}\n")]},
    {"id": "table-rows-from-own-members", "expect": ("R-MEMBER-SCAN", "generate_mjcf_table.generate.visit:element.members[Attr]"),
     "edits": [(TABLE_PY, "    attrs = [a for a in schema.expanded_attrs(element)]\n",
                "    attrs = [a for a in element.members if isinstance(a, mjcf_schema.Attr)]\n")]},
    {"id": "ctl-flags-scan-comprehension-over-expansion", "expect": None,
     "edits": [(XSD_PY, _FLAGS_SCAN, "    flags_targets = {attr.target\n                     for element in schema.elements.values()\n"
                "                     for attr in schema.expanded_attrs(element)\n                     if attr.type == 'flags'}\n")]},
    {"id": "ctl-flags-scan-helper-expands-groups-itself", "expect": None,
     "edits": [(XSD_PY, "class _Emitter:", _EXPANDING_FOR + "class _Emitter:"),
               (XSD_PY, _FLAGS_SCAN, "    flags_targets = {a.target for element in schema.elements.values() for a in _flag_attrs(schema, element)}\n")]},
    {"id": "ctl-flags-scan-over-all-declarations", "expect": None,
     "edits": [(XSD_PY, _FLAGS_SCAN, "    declarations = list(schema.groups.values()) + list(schema.elements.values())\n"
                "    flags_targets = {member.target\n                     for decl in declarations\n"
                "                     for member in decl.members\n                     if isinstance(member, mjcf_schema.Attr)\n"
                "                     and member.type == 'flags'}\n")]},
]


_DMC_FILTER = ("      attrs = [a for a in attrs if a.name not in ('name', 'class')\n"
               "               and not a.facets.get('nodefault')]\n")
_TABLE_FILTER = ("      attrs = [a for a in attrs\n               if a.name not in ('name', 'class')\n"
                 "               and not a.facets.get('nodefault')]\n")
_XSD_FILTER = ("      attrs = [a for a in attrs\n               if a.name not in ('name', 'class')\n"
               "               and not a.facets.get('nodefault')]\n")
_DEFAULTABLE_FN = ("def _defaultable(attr):\n  if attr.name == 'name':\n    return False\n  if attr.name == 'class':\n    return False\n"
                   "  return not attr.facets.get('nodefault')\n\n\n")

MUTANTS += [
    # R-PROJECT-AGREE: the default-context projections of the generators are one predicate
    {"id": "dmcontrol-projection-by-kind", "expect": ("R-PROJECT-AGREE", "generate_dmcontrol._Emitter.emit_element:default-projection"),
     "edits": [(DMC_PY, _DMC_FILTER, "      attrs = [a for a in attrs if a.type != 'id'\n               and not (a.type == 'ref' and a.target == 'default')\n"
                "               and not a.facets.get('nodefault')]\n")]},
    {"id": "dmcontrol-projection-keeps-class", "expect": ("R-PROJECT-AGREE", "generate_dmcontrol._Emitter.emit_element:default-projection"),
     "edits": [(DMC_PY, _DMC_FILTER, "      attrs = [a for a in attrs if a.name != 'name'\n               and not a.facets.get('nodefault')]\n")]},
    {"id": "table-projection-drops-childclass", "expect": ("R-PROJECT-AGREE", "generate_mjcf_table.generate.visit:default-projection"),
     "edits": [(TABLE_PY, _TABLE_FILTER, "      attrs = [a for a in attrs\n               if a.name not in ('name', 'class', 'childclass')\n"
                "               and not a.facets.get('nodefault')]\n")]},
    {"id": "ctl-table-projection-through-helper", "expect": None,
     "edits": [(TABLE_PY, "def generate(", _DEFAULTABLE_FN + "def generate("),
               (TABLE_PY, _TABLE_FILTER, "      attrs = [a for a in attrs if _defaultable(a)]\n")]},
    {"id": "ctl-dmcontrol-projection-reordered", "expect": None,
     "edits": [(DMC_PY, _DMC_FILTER, "      attrs = [a for a in attrs if not a.facets.get('nodefault')\n               and a.name != 'class' and a.name != 'name']\n")]},
]


_EC_DEF = "def _element_constraints(schema, element):\n  \"\"\"Element's own constraints plus those of transitively used groups.\"\"\"\n"
_EC_RENAMED = "def _collect_constraints(schema, element):\n  \"\"\"Element's own constraints plus those of transitively used groups.\"\"\"\n"


def _memo(store, key="(schema.path, element.name)", pre=""):
    """_element_constraints() split into a memoising front and the collecting walk (the shape of seed C42-stale-constraint-memo)."""
    front = (pre + "def _element_constraints(schema, element):\n" + f"  key = {key}\n" + store + "\n\n")
    return [(TABLE_PY, _EC_DEF, front + _EC_RENAMED)]


_MEMO_GLOBAL = ("  if key not in _CONSTRAINTS:\n    _CONSTRAINTS[key] = tuple(_collect_constraints(schema, element))\n"
                "  return list(_CONSTRAINTS[key])\n")
_VISIT_ROW = "    row_index = count\n"

MUTANTS += [
    # R-MODULE-STATE
    {"id": "module-memo-keyed-by-path-and-name", "expect": ("R-MODULE-STATE", "generate_mjcf_table._element_constraints:_CONSTRAINTS"),
     "edits": _memo(_MEMO_GLOBAL, pre="_CONSTRAINTS = {}\n\n\n")},
    {"id": "module-memo-setdefault-keyed-by-name", "expect": ("R-MODULE-STATE", "generate_mjcf_table._element_constraints:_CONSTRAINTS"),
     "edits": _memo("  return list(_CONSTRAINTS.setdefault(key, tuple(_collect_constraints(schema, element))))\n",
                    key="element.name", pre="_CONSTRAINTS = {}\n\n\n")},
    {"id": "lru-cache-on-path-and-name-helper", "expect": ("R-MODULE-STATE", "generate_mjcf_table._constraints_for:lru_cache"),
     "edits": [(TABLE_PY, "import os\n", "import functools\nimport os\n"),
               (TABLE_PY, _EC_DEF,
                "@functools.lru_cache(maxsize=None)\ndef _constraints_for(path, name):\n  schema = mjcf_schema.parse_file(path)\n"
                "  return tuple(_collect_constraints(schema, schema.elements[name]))\n\n\n"
                "def _element_constraints(schema, element):\n  return list(_constraints_for(schema.path, element.name))\n\n\n" + _EC_RENAMED)]},
    {"id": "module-list-appended-and-joined", "expect": ("R-MODULE-STATE", "generate_mjcf_table.generate.emit_entry:_LOG"),
     "edits": [(TABLE_PY, _EC_DEF, "_LOG = []\n\n\n" + _EC_DEF),
               (TABLE_PY, "    out.extend(lines)\n", "    out.extend(lines)\n    _LOG.append(len(lines))\n"),
               (TABLE_PY, "  body = '\\n'.join(out)\n", "  body = '\\n'.join(out) + '// ' + ' '.join(str(n) for n in _LOG)\n")]},
    {"id": "global-counter-rebound-per-call", "expect": ("R-MODULE-STATE", "generate_mjcf_table.generate.emit_entry:_ROWS"),
     "edits": [(TABLE_PY, _EC_DEF, "_ROWS = 0\n\n\n" + _EC_DEF),
               (TABLE_PY, "    out.extend(lines)\n", "    global _ROWS\n    out.extend(lines)\n    _ROWS = _ROWS + len(lines)\n"),
               (TABLE_PY, "  body = '\\n'.join(out)\n", "  body = '\\n'.join(out) + f'// {_ROWS}'\n")]},
    {"id": "mutable-default-used-as-memo", "expect": ("R-MODULE-STATE", "generate_mjcf_table._element_constraints:default[memo]"),
     "edits": [(TABLE_PY, _EC_DEF, "def _element_constraints(schema, element, memo={}):\n  if element.name not in memo:\n"
                "    memo[element.name] = tuple(_collect_constraints(schema, element))\n  return list(memo[element.name])\n\n\n" + _EC_RENAMED)]},
    {"id": "ctl-memo-in-per-call-local-dict", "expect": None,
     "edits": [(TABLE_PY, "  out = []\n  constraints = []\n  count = 0\n", "  out = []\n  constraints = []\n  count = 0\n  memo = {}\n"),
               (TABLE_PY, "    for con in _element_constraints(schema, element):\n",
                "    if element.name not in memo:\n      memo[element.name] = _element_constraints(schema, element)\n"
                "    for con in memo[element.name]:\n")]},
    {"id": "ctl-memo-on-the-emitter-object", "expect": None,
     "edits": [(XSD_PY, "    self.pending = []\n", "    self.pending = []\n    self.con_memo = {}\n"),
               (XSD_PY, "    for con in generate_mjcf_table._element_constraints(self.schema, element):\n",
                "    if element.name not in self.con_memo:\n      self.con_memo[element.name] = generate_mjcf_table._element_constraints(self.schema, element)\n"
                "    for con in self.con_memo[element.name]:\n")]},
    {"id": "ctl-module-constant-table-only-read", "expect": None,
     "edits": [(TABLE_PY, _EC_DEF, "_SEPARATORS = {'bundle': ' ', 'group': '|'}\n\n\n" + _EC_DEF),
               (TABLE_PY, "        spec = '|'.join(' '.join(b) for b in con.bundles)\n",
                "        spec = _SEPARATORS['group'].join(_SEPARATORS['bundle'].join(b) for b in con.bundles)\n")]},
    {"id": "ctl-module-memo-value-is-a-function-of-the-key", "expect": None,
     "edits": [(TABLE_PY, "def _wrap_row(", "_PAD = {}\n\n\ndef _pad(indent: int) -> str:\n  if indent not in _PAD:\n"
                "    _PAD[indent] = ' ' * indent\n  return _PAD[indent]\n\n\ndef _wrap_row("),
               (TABLE_PY, "  line = ' ' * indent + '{' + parts[0]\n", "  line = _pad(indent) + '{' + parts[0]\n")]},
]


def _schema_controls():
    """The behaviour-preserving reshapes of mjcf_schema.py used by C41's self-test must leave C42 unchanged as well (the
    validator guarantees and the name-keyed tables are read from that module)."""
    from . import c41
    return [dict(m, id="schema-" + m["id"]) for m in c41.MUTANTS if m["expect"] is None]


def selftest(res):
    from .. import r_misc
    r_misc.run_mutants("C42", res, MUTANTS + _schema_controls(), parts=("doc/generate",))
