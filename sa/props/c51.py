"""C51 First-party plugins honour their documented laws (PID actuator, cable elasticity).

Decided (clang AST of plugin/actuator/pid.cc, plugin/elasticity/cable.cc, elasticity.cc; anchors are the State /
PidConfig field names, mju_clip, and the mjpPlugin callback slots):
  R-MUSTPASS    in every Pid method that computes the error integral (a value computed from State.integral), on every
                path on which config.i_max may hold a value, that value passes through
                `mju_clip(v, -*i_max, *i_max)` before any use; in every Pid method that reads State.previous_ctrl, the
                returned setpoint passes through
                `mju_clip(v, previous_ctrl - *slew_max*timestep, previous_ctrl + *slew_max*timestep)` on every path
                on which slew_max has a value and previous_ctrl_exists.  Decided on the canonical view of each method
                (cxx3.View: free helper functions of the TU and lambdas are analysed inside the method, reference
                parameters are aliases), the integral is followed as a value through copies, `?:` and helper results;
                a value handed to plugin code that cannot be followed is ANALYSIS-ERROR.
  R-SIBLING     the integral expression, its complete guard (nested view: early exits folded into if/else) and the
                clip are identical (modulo local names) in all those methods (ActDot / Compute).
  R-TABLE       the activation-slot layout, decided symbolically: every registered callback that reaches d->act /
                d->act_dot is interpreted abstractly (SlotInterp: integers are linear forms over actuator_actadr[id],
                actuator_actnum[id], ...; running indices, locals, helper functions, methods, pointers into d->act,
                ?:, switch, early returns are all evaluated, not matched) for every combination of the configuration
                predicates the code tests (integral gain nonzero, slewmax present, imax present) and every mjtDyn
                enumerator.  The size contract is derived, not assumed: the accepting paths of Pid::Create pin
                actuator_actnum; the count demanded for dyntype none is the number of the plugin's OWN slots, the
                surplus for another dyntype is the native slot the engine appends, and for those dyntypes
                mj_fwdActuation (the engine function that afterwards calls the actuator_act_dot callbacks) must write
                act_dot at an index counted from the end of the block (actadr + actnum - 1; the site is cited).
                Demanded for every combination Create accepts: each State field loaded from d->act and each d->act_dot
                write uses slot actadr + k with 0 <= k < own (in particular never the native slot actadr+actnum-1),
                different State fields use different slots, a State field is loaded from one slot only, the slot a
                derivative is written to is the slot its State field is loaded from (the write's role is the State
                field its value is computed from, followed through calls), a raw d->act[j] read inside the write is the
                slot written, and every loaded slot is advanced by some act_dot write.  The ORDER of the own slots is
                not demanded (no documented contract fixes it; loader and writer agreeing is what matters).
                Setpoint slot (constructs pid:setpoint-slot:<dyntype>): every read of d->act / d->act_dot that is not a
                controller state (its value never reaches a State field: the setpoint GetCtrl takes from the native
                activation, its rate in Compute) lies, for every combination Create accepts, inside the actuator's block
                [actadr, actadr+actnum), outside the plugin's own slots, at actadr+actnum-1, and for that dyntype ALL
                act_dot writes of mj_fwdActuation land at actadr+actnum-1 (a dyntype whose states the engine lays out
                from act_first — pid, dcmotor — has no single native state there).  Dyntypes Create refuses have no
                accepted combination and are not examined (a loop body that rejects on every path leaves only the
                no-actuator-visited continuation, which accepts nothing about that actuator).
  R-WHO-WRITES  the mjData / mjModel fields each registered callback can write (field-level mod events over the
                callback lambda and everything it calls inside the plugin TU; mjData passed whole only to engine
                functions with a listed effect) are within the allowed set of that callback.
  R-INDEXDIM    an index into an array whose row dimension (X-macro tables) is nu / nout / na is derived from the
                matching address array (actuator_ctrladr / actuator_outadr / actuator_actadr, read from
                MJMODEL_REFERENCES in engine_io.c) or from a loop bounded by that dimension; an array of nactuator
                rows is not indexed by a loop bounded by another dimension.
  R-BOUNDS-AGREE  cable: in the difference omega - omega0 (found by role: a difference of two vector elements of which
                one is a bounded rotation vector) both operands have the same least upper bound of the norm.  The
                bounds come from an interval interpretation (NormInterp) of the plugin code and of the bodies of the
                engine functions that produce the operands (mju_quat2Vel; mju_subQuat -> mji_quat2Vel for the member
                the constructor fills), with summaries only for the leaf primitives in _LEAF; affine maps with constant
                factors and threshold conditionals on one variable are evaluated exactly, anything else is marked
                inexact; the difference may sit in a loop (what the loop assigns or hands to a call is unknown at
                every iteration, the rest keeps its bound); writers of the member are followed through local pointer
                aliases.  Bounds that differ and are both exact are a VIOLATION (a rotation angle in between yields a
                non-zero stress in the stress-free configuration); bounds that differ but are inexact, or an operand
                that cannot be bounded, are ANALYSIS-ERROR.
  R-STATELESS   force-producing callbacks (compute, actuator_act_dot; found from RegisterPlugin) and the methods of the
                plugin class they reach: every read of an element of a data member that this closure also writes is
                dominated, in the same call, by a write of the same element (same member, same index as a linear form
                with single-assignment locals substituted and hoisted pointers followed; out-parameters of callees count
                as writes, const parameters as reads, accumulating engine calls as both), on the straight-line path of
                the same loop iteration or earlier in the function.  An undominated read is stale — VIOLATION
                `<plugin>:<method>:<member>:read-before-write` — when every write of the member in the closure provably
                cannot have produced the element yet in this call: same index but on another branch / after the read,
                or, in a counted loop, an index that a LATER iteration writes (distance bounded from the literal value
                sets of int members such as next[] and the guards of the read).  A write whose relation to the read is
                not decided (earlier loop, other function, smaller index = possible recurrence, unresolved pointer) is
                ANALYSIS-ERROR.  Members no force callback writes (configuration, constructor-filled tables) and reads
                in other callbacks (visualize) are free.
The setpoint functions of R-MUSTPASS are found by role (Pid methods that read State.previous_ctrl and return a value); a
procedure that reads it (the act_dot callback forming the slew state's derivative) is not one.
Not decided: the arithmetic of the PID law; that the two curvature maps are the same map beyond their norm bound (zero
force of the cable in its stress-free configuration in full); the order of the plugin's own activation slots;
numerical effects of clipping.
"""
from __future__ import annotations

import itertools
import os
import re

from .. import cfront, cir, cxx3, modref, xmacro
from ..cfront import AnalysisError

PID_TU = "plugin/actuator/pid.cc"
CABLE_TU = "plugin/elasticity/cable.cc"
ELAST_TU = "plugin/elasticity/elasticity.cc"
ENGINE_IO = "src/engine/engine_io.c"

STATE_INTEGRAL = "integral"
STATE_PREV = "previous_ctrl"
STATE_PREV_EXISTS = "previous_ctrl_exists"
CFG_IMAX = "i_max"
CFG_SLEW = "slew_max"
CLIP = "mju_clip"

# what each callback may write, and why (derived from the property text "write only their own state and force
# slices" and from the callback documentation in include/mujoco/mjplugin.h)
ALLOWED = {
    "pid": {
        "init": {"mjData.plugin_data": "init stores the instance pointer in its own plugin_data slot (mjplugin.h: 'called "
                                       "when a new mjData is being created')"},
        "destroy": {"mjData.plugin_data": "destroy frees and clears its own plugin_data slot"},
        "reset": {},
        "actuator_act_dot": {"mjData.act_dot": "mjplugin.h: 'updates the actuator plugin's entries in act_dot'"},
        "compute": {"mjData.actuator_force": "actuator capability: the plugin's force output slice"},
        "advance": {},
        "nstate": {},
    },
    "cable": {
        "init": {"mjData.plugin_data": "init stores the instance pointer in its own plugin_data slot",
                 "mjData.qpos": "scratch forward kinematics at qpos0 on the not yet initialised mjData: every caller of "
                                "mj_initPlugin (mj_makeData, mj_copyData, mjCModel::MakeData) resets or overwrites "
                                "mjData right after",
                 "mjData.mocap_quat": "same scratch kinematics (zeroed before mj_kinematics)",
                 "mjData.<mj_kinematics outputs>": "same scratch kinematics"},
        "destroy": {"mjData.plugin_data": "destroy frees and clears its own plugin_data slot"},
        "compute": {"mjData.qfrc_passive": "passive capability: the plugin's force slice (through mj_applyFT's "
                                           "qfrc_target)"},
        "visualize": {"mjModel.geom_rgba": "stress colour map of the plugin's own geoms when the vmax attribute is set "
                                           "(visualisation only, mjv_updateScene)"},
        "nstate": {},
    },
}
# engine functions the plugins hand the whole mjData to, and what they write there
ENGINE_EFFECTS = {
    "mj_applyFT": (set(), "writes only through its qfrc_target argument (recorded as a field pass); mjData is used for "
                          "the Jacobian scratch on the arena stack"),
    "mj_kinematics": ({"<mj_kinematics outputs>"}, "position-stage kinematics outputs"),
}

FLOOR_CALLBACKS = 11
FLOOR_INDEX = 20


# ---------------------------------------------------------------------------------------------------------------


class TU:
    def __init__(self, rel, repo):
        if not os.path.exists(os.path.join(repo, rel)):
            raise AnalysisError(f"{rel} vanished")
        self.rel = rel
        self.ir = cfront.load_tu(rel, repo)
        self.index = cxx3.FuncIndex(repo).add_ir(self.ir)
        self.resolver = cxx3.Resolver(self.index, None)
        self.unit = cir.Unit(self.ir)
        self._views = {}

    def fns(self, qual=None):
        return [f for f in self.index.fns if f.file == self.rel and (qual is None or f.qual == qual)]

    def fn(self, qual, name):
        r = self.index.by_qual.get((qual, name)) or []
        if not r:
            raise AnalysisError(f"{qual}::{name} not found in {self.rel} (anchor moved)")
        return r[0]

    def view(self, f):
        """Canonical view of a function of this TU: free helper functions of the TU and lambdas are analysed inside it
        (methods stay calls: the rules find them by their role and analyse them on their own)."""
        v = self._views.get(id(f.node))
        if v is None:
            v = cxx3.View(f.node, [g.node for g in self.fns()], self.rel, pred=lambda h: h.get("k") == "FunctionDecl")
            self._views[id(f.node)] = v
        return v


def _is_state_member(n, name):
    """MemberExpr `.name` on an object of the plugin's State struct."""
    if n is None or n.get("k") != "MemberExpr" or n.get("n") != name:
        return False
    b = cir.kids(n)
    bt = cxx3.base_type(cir.strip(b[0], casts=False).get("t")) if b and b[0] is not None else None
    return bt == "State"


def _reads_state(n, name):
    return any(_is_state_member(x, name) for x in cir.walk(n))


def _lhs_ids(fn):
    """id()s of DeclRefExpr nodes that are the whole left operand of a plain assignment (pure writes)."""
    out = set()
    for n in cir.walk(fn):
        if n.get("k") == "BinaryOperator" and n.get("op") == "=":
            l = cir.strip(cir.kids(n)[0])
            if l is not None and l.get("k") == "DeclRefExpr":
                out.add(id(l))
    return out


def _var_id(n):
    n = cir.strip(n)
    if n is not None and n.get("k") == "DeclRefExpr":
        return (n.get("ref") or {}).get("id")
    return None


def _is_clip_of(call, var_id):
    """mju_clip(var, lo, hi) -> (lo, hi) else None."""
    call = cir.strip(call)
    if call is None or not cir.is_call(call) or cir.callee(call) != CLIP:
        return None
    a = cir.args(call)
    if len(a) != 3 or _var_id(a[0]) != var_id:
        return None
    return a[1], a[2]


def _neg_of(n):
    n = cir.strip(n)
    if n is not None and n.get("k") == "UnaryOperator" and n.get("op") == "-":
        return cir.kids(n)[0]
    return None


def _is_imax_deref(n):
    ch = cxx3.optional_deref(n)
    return bool(ch) and ch[-1] == CFG_IMAX


# ---------------------------------------------------------------------------------------------------------------
# R-MUSTPASS: integral clip
#
# The rules run on the canonical view of each Pid method (TU.view): free helper functions of the TU and lambdas are
# analysed inside the method, so a clip that sits in a helper the integral flows through is the method's clip.  The
# integral is followed as a *value* (copies between locals keep its status), not as one named variable.


def _imax_test(cond):
    """True / False if `cond` is (the negation of) a has-value test of config.i_max, else None."""
    s = cir.strip(cond)
    pol = True
    while s is not None and s.get("k") == "UnaryOperator" and s.get("op") == "!":
        pol = not pol
        s = cir.strip(cir.kids(s)[0])
    ch = cxx3.optional_test(s) if s is not None else None
    if ch and ch[-1] == CFG_IMAX:
        return pol
    return None


def _local_target(node):
    """(decl id, rhs) if `node` defines a local: VarDecl with initialiser or `v = rhs`; else None."""
    k = node.get("k")
    if k == "VarDecl" and node.get("id"):
        init = [c for c in cir.kids(node) if c is not None and not (c.get("k") or "").endswith("Attr")]
        return (node["id"], init[-1]) if init else None
    if k == "BinaryOperator" and node.get("op") == "=":
        l = cir.strip(cir.kids(node)[0])
        if l is not None and l.get("k") == "DeclRefExpr" and not _is_reference(l):
            return (l.get("ref") or {}).get("id"), cir.kids(node)[1]
    return None


def _is_reference(declref):
    """The variable named is a reference: assigning to it stores into whatever it is bound to."""
    return ((declref.get("ref") or {}).get("t") or "").rstrip().endswith("&")


def _prev_ids(fn):
    """Locals that hold a plain copy of State.integral (the stored value, e.g. a helper parameter bound to it)."""
    out = set()
    for n in cxx3.walk_outer(fn):
        t = _local_target(n)
        if t and _is_state_member(cir.strip(t[1]), STATE_INTEGRAL):
            out.add(t[0])
    return out


def _reads_integral(e, prev):
    for x in cir.walk(e):
        if _is_state_member(x, STATE_INTEGRAL):
            return True
        if x.get("k") == "DeclRefExpr" and (x.get("ref") or {}).get("id") in prev:
            return True
    return False


class _ClipRule(cxx3.XRule):
    """state: (vals, imax).  vals: frozenset of (decl id, status) with status 'prev' (copy of State.integral), 'raw'
    (computed from it, not clipped to ±i_max), 'clipped'; imax: None | True | False (does config.i_max hold a value)."""

    use_kinds = frozenset({"DeclRefExpr"})

    def __init__(self, fn, helpers=(), opaque_args=()):
        self.helpers = helpers          # names of TU functions that return their argument clipped to ±i_max
        self.opaque_args = opaque_args  # id()s of DeclRefExpr arguments of TU functions that could not be followed
        self.bad_bounds = []
        self.clips = 0
        self.exempt = set()             # id()s of DeclRefExpr nodes that are not uses of the value
        for n in cxx3.walk_outer(fn):
            k = n.get("k")
            if k == "BinaryOperator" and n.get("op") == "=":
                l = cir.strip(cir.kids(n)[0])
                if l is not None and l.get("k") == "DeclRefExpr" and not _is_reference(l):
                    self.exempt.add(id(l))              # a pure write
                    self._copy_sources(cir.kids(n)[1])
            elif k == "VarDecl":
                t = _local_target(n)
                if t:
                    self._copy_sources(t[1])
            elif cir.is_call(n) and (cir.callee(n) == CLIP or cir.callee(n) in helpers):
                a = cir.args(n)
                for x in (a[:1] if cir.callee(n) == CLIP else a):
                    x = cir.strip(x)
                    if x is not None and x.get("k") == "DeclRefExpr":
                        self.exempt.add(id(x))          # the value handed to the clip

    def _copy_sources(self, rhs):
        s = cir.strip(rhs)
        if s is None:
            return
        if s.get("k") == "DeclRefExpr":
            self.exempt.add(id(s))                      # `a = b`: the value moves, it is not consumed
        elif s.get("k") == "ConditionalOperator":
            self._copy_sources(cir.kids(s)[1])
            self._copy_sources(cir.kids(s)[2])

    def initial(self, fn):
        return (frozenset(), None)

    def _status(self, e, vals, imax, node):
        s = cir.strip(e)
        if s is None:
            return None
        k = s.get("k")
        if k == "ConditionalOperator":
            c, a, b = cir.kids(s)
            pol = _imax_test(c)
            if pol is not None and imax is not None:
                return self._status(a if imax == pol else b, vals, imax, node)
            sa, sb = self._status(a, vals, imax, node), self._status(b, vals, imax, node)
            if sa == sb:
                return sa
            return "raw" if "raw" in (sa, sb) else None
        if cir.is_call(s) and cir.callee(s) == CLIP and len(cir.args(s)) == 3:
            x, lo, hi = cir.args(s)
            inner = self._status(x, vals, imax, node)
            if inner in ("raw", "clipped"):
                nlo = _neg_of(lo)
                if nlo is not None and _is_imax_deref(nlo) and _is_imax_deref(hi):
                    self.clips += 1
                    return "clipped"
                self.bad_bounds.append((node.get("line"), cir.text(s)))
                return inner
            return None
        if cir.is_call(s) and cir.callee(s) in self.helpers:
            if any(self._status(a, vals, imax, node) in ("raw", "clipped") for a in cir.args(s)):
                self.clips += 1
                return "clipped"
            return None
        if k == "DeclRefExpr":
            return vals.get((s.get("ref") or {}).get("id"))
        if _is_state_member(s, STATE_INTEGRAL):
            return "prev"
        for x in cir.walk(s):
            if _is_state_member(x, STATE_INTEGRAL):
                return "raw"
            if x.get("k") == "DeclRefExpr" and vals.get((x.get("ref") or {}).get("id")) == "prev":
                return "raw"
        return None

    def assign(self, st, node, ctx):
        t = _local_target(node)
        if t is None:
            if node.get("k") == "CompoundAssignOperator":
                vid = _var_id(cir.kids(node)[0])
                vals = dict(st[0])
                if vid in vals and self._status(cir.kids(node)[1], vals, st[1], node) in ("raw", "prev"):
                    vals[vid] = "raw"
                    return (frozenset(vals.items()), st[1])
            return st
        vid, rhs = t
        vals = dict(st[0])
        s = self._status(rhs, vals, st[1], node)
        if s is None:
            if vid not in vals:
                return st
            del vals[vid]
        else:
            vals[vid] = s
        return (frozenset(vals.items()), st[1])

    def branch(self, st, cond, taken, ctx):
        pol = _imax_test(cond)
        if pol is not None:
            has = taken if pol else (not taken)
            if st[1] is not None and st[1] != has:
                return None
            return (st[0], has)
        return st

    def use(self, st, node, ctx):
        if id(node) in self.exempt or not st[0] or st[1] is False:
            return st
        vid = (node.get("ref") or {}).get("id")
        for v, status in st[0]:
            if v == vid and status == "raw":
                if id(node) in self.opaque_args:
                    raise AnalysisError(f"{ctx.fn.get('n')}: the unclipped error integral is handed to a function of the "
                                        f"plugin (line {node.get('line')}) that could not be analysed inside its caller — "
                                        f"cannot decide whether it is clipped there")
                ctx.report(node, "the error integral is used without having been clipped to ±i_max on a path where i_max "
                                 "may hold a value")
        return st


class _HelperRule(cxx3.XRule):
    """Is this function `x -> i_max ? mju_clip(x, -*i_max, *i_max) : x` on all paths?  state: i_max U(nknown)|T|F.
    (Summary for helpers that are left as calls, e.g. methods; free helpers are analysed inside their callers.)"""

    def __init__(self, param_id):
        self.p = param_id
        self.ok = True
        self.returns = 0

    def initial(self, fn):
        return "U"

    def assign(self, st, node, ctx):
        if node.get("k") == "BinaryOperator" and _var_id(cir.kids(node)[0]) == self.p:
            self.ok = False
        return st

    def branch(self, st, cond, taken, ctx):
        pol = _imax_test(cond)
        if pol is not None:
            return "T" if (taken if pol else not taken) else "F"
        return st

    def ret(self, st, node, ctx):
        self.returns += 1
        c = [x for x in cir.kids(node) if x is not None]
        if not c:
            self.ok = False
            return
        b = _is_clip_of(c[0], self.p)
        if b is not None:
            nlo = _neg_of(b[0])
            if not (nlo is not None and _is_imax_deref(nlo) and _is_imax_deref(b[1])):
                self.ok = False
            return
        if _var_id(c[0]) == self.p and st == "F":
            return
        self.ok = False


def _clip_helpers(pid):
    out = set()
    for f in pid.fns():
        ps = cir.params(f.node)
        for p_ in ps:
            if (p_.get("t") or "") not in ("mjtNum", "double"):
                continue
            if not any(cir.is_call(n) and cir.callee(n) == CLIP for n in cir.walk(f.node)):
                continue
            rule = _HelperRule(p_.get("id"))
            try:
                cxx3.xexplore(rule, pid.unit, f.node)
            except AnalysisError:
                continue
            if rule.ok and rule.returns:
                out.add(f.name)
    return out


def _integral_sites(fn, prev):
    """[(var id, var name, rhs node, defining node)] for `X = ... state.integral ...` (more than a plain copy of the stored
    value) in the executed part of a view."""
    out = []
    for n in cxx3.walk_outer(fn):
        t = _local_target(n)
        if not t:
            continue
        vid, rhs = t
        if n.get("k") == "VarDecl" and "State" in (n.get("t") or ""):
            continue
        s = cir.strip(rhs)
        if _is_state_member(s, STATE_INTEGRAL) or (s is not None and s.get("k") == "DeclRefExpr"):
            continue
        if _reads_integral(rhs, prev):
            name = n.get("n") if n.get("k") == "VarDecl" else (cir.strip(cir.kids(n)[0]).get("ref") or {}).get("n")
            out.append((vid, name, rhs, n))
    return out


def _is_indirect_call(n):
    """A call through a callable object, function pointer or std::function (its target is not known statically)."""
    if not cir.is_call(n) or n.get("lam"):
        return False
    info = cxx3.callee_info(n)
    if info is None or info[0] == "indirect":
        return True
    return n.get("k") == "CXXOperatorCallExpr" and info[1] == "operator()"


def _integral_family(fn, seeds):
    """Locals the integral value moves through: the site variables and what is copied / clipped from them."""
    fam = set(seeds)
    changed = True
    while changed:
        changed = False
        for n in cxx3.walk_outer(fn):
            t = _local_target(n)
            if not t or t[0] in fam:
                continue

            def src(e):
                s = cir.strip(e)
                if s is None:
                    return False
                if s.get("k") == "DeclRefExpr":
                    return (s.get("ref") or {}).get("id") in fam
                if s.get("k") == "ConditionalOperator":
                    return src(cir.kids(s)[1]) or src(cir.kids(s)[2])
                if cir.is_call(s) and cir.callee(s) == CLIP and cir.args(s):
                    return src(cir.args(s)[0])
                return False
            if src(t[1]):
                fam.add(t[0])
                changed = True
    return fam


def clip_rules(res, pid):
    res.rule("R-MUSTPASS", "PID: the error integral is clipped to ±i_max before any use whenever i_max has a value; the "
             "setpoint is slew-limited to previous ± slew_max*timestep whenever slew_max has a value and a previous "
             "ctrl exists", floor=3)
    res.rule("R-SIBLING", "PID: integral expression, guards and clip are identical in all methods that compute it",
             floor=1)
    sib = []
    covered = set()
    for f in pid.fns("Pid"):
        v = pid.view(f)
        for x in cxx3.walk_outer(v.fn):
            if _is_state_member(x, STATE_INTEGRAL):
                covered.add(x.get("line"))
        prev = _prev_ids(v.fn)
        sites = _integral_sites(v.fn, prev)
        if sites:
            sib.append((f, v, prev, sites))
    if not sib:
        raise AnalysisError(f"no Pid method computes the error integral (anchor State::{STATE_INTEGRAL} moved)")
    for f in pid.fns():
        for x in cir.walk(f.node):
            if _is_state_member(x, STATE_INTEGRAL) and x.get("line") not in covered:
                raise AnalysisError(f"State::{STATE_INTEGRAL} is read in {f.key} (line {x.get('line')}), in code that is not "
                                    f"analysed inside a Pid method (a lambda or helper that could not be followed)")
    helpers = _clip_helpers(pid)
    res.extra["integral_views"] = {f.key: v.inlined for f, v, _p, _s in sib}
    sigs = {}
    for f, v, prev, sites in sib:
        # calls into the plugin's own code that were not expanded, and calls through callable objects / pointers:
        # the value cannot be followed through them
        unfollowed = [c for c, _h in v.residual_targets() if cir.callee(c) not in helpers]
        unfollowed += [c for c in cxx3.walk_outer(v.fn) if _is_indirect_call(c)]
        opaque = set()
        for call in unfollowed:
            for a in cir.args(call):
                for x in cir.walk(a):
                    if x.get("k") == "DeclRefExpr":
                        opaque.add(id(x))
        for _vid, _name, rhs, dn in sites:
            inside = {id(x) for x in cir.walk(rhs)}
            left = [cir.callee(c) or cir.text(cir.kids(c)[0]) for c in unfollowed if id(c) in inside]
            if left:
                raise AnalysisError(f"{f.key}: the stored integral is handed to {left[0]}() (line {dn.get('line')}), which "
                                    f"could not be analysed inside its caller — cannot decide where the clip happens")
        rule = _ClipRule(v.fn, helpers, opaque)
        ctx = cxx3.xexplore(rule, pid.unit, v.fn)
        c = f"{f.key}:integral-clip"
        if rule.bad_bounds:
            ln, tx = rule.bad_bounds[0]
            res.bad("R-MUSTPASS", c, f.file, ln, f"the integral is clipped by `{tx}`, not by ±*i_max")
        elif ctx.reports:
            r = ctx.reports[0]
            res.bad("R-MUSTPASS", c, r["file"], r["line"], f"{f.key}: {r['msg']}")
        else:
            res.ok("R-MUSTPASS", c, {"clips": rule.clips, "inlined": v.inlined})
        # sibling signature, on the nested view (early exits folded into if/else): the complete guard of a statement
        nv = v.nested
        decls = cxx3.decl_nodes(nv)
        nsites = _integral_sites(nv, prev)
        if not nsites:
            raise AnalysisError(f"{f.key}: the integral computation is lost in the nested view")
        exprs = sorted({cxx3.alpha_text(s[2], decls) for s in nsites})
        g_raw = sorted({cxx3.guard_atoms(nv, s[3], decls) or () for s in nsites})
        fam = _integral_family(nv, {s[0] for s in nsites})
        clip_sig = set()
        for cn in cxx3.walk_outer(nv):
            if not cir.is_call(cn):
                continue
            if cir.callee(cn) == CLIP and cir.args(cn):
                a0 = cir.strip(cir.args(cn)[0])
                if not ((a0 is not None and a0.get("k") == "DeclRefExpr" and (a0.get("ref") or {}).get("id") in fam)
                        or _reads_integral(cir.args(cn)[0], prev)):
                    continue
            elif cir.callee(cn) in helpers:
                if not any(_var_id(a) in fam for a in cir.args(cn)):
                    continue
            else:
                continue
            clip_sig.add((cxx3.guard_atoms(nv, cn, decls) or (), cxx3.alpha_text(cn, decls)))
        sigs[f.key] = {"expr": tuple(exprs), "guards": tuple(g_raw), "clip": tuple(sorted(clip_sig)),
                       "line": sites[0][3].get("line"), "file": f.file}
    keys = sorted(sigs)
    ref = sigs[keys[0]]
    c = "~".join(keys) + ":integral"
    diffs = []
    if len(keys) == 1:
        res.extra["integral_single_implementation"] = keys[0]
    for k in keys[1:]:
        for part in ("expr", "guards", "clip"):
            if sigs[k][part] != ref[part]:
                diffs.append(f"{part}: {keys[0]} has {ref[part]!r}, {k} has {sigs[k][part]!r}")
    if diffs:
        res.bad("R-SIBLING", c, sigs[keys[1]]["file"], sigs[keys[1]]["line"],
                "the sibling computations of the error integral differ — " + "; ".join(diffs))
    else:
        res.ok("R-SIBLING", c, {"expr": list(ref["expr"]), "guards": [[g for g, _ in gs] for gs in ref["guards"]]})
    res.count("integral_siblings", len(sib))

    # ---- slew limit
    # the setpoint functions, by role: the Pid methods that read the previous setpoint and *return a value*.  A method
    # that returns nothing and reads State.previous_ctrl (the act_dot callback forming the slew state's derivative
    # from it) yields no setpoint; it is only required not to build the setpoint itself from d->ctrl (then the rule
    # would have nothing to follow: cannot decide).
    users = []
    for f in pid.fns("Pid"):
        v = pid.view(f)
        if any(_is_state_member(x, STATE_PREV) for x in cxx3.walk_outer(v.fn)) and not _writes_state(v.fn, STATE_PREV):
            if _returns_value(f.node):
                users.append((f, v))
            elif any((modref.root_field(x) or (None, None))[:2] == ("mjData", "ctrl") for x in cxx3.walk_outer(v.fn)
                     if x.get("k") in ("ArraySubscriptExpr", "MemberExpr")):
                raise AnalysisError(f"{f.key} reads d->ctrl and State::{STATE_PREV} but returns nothing: the setpoint is "
                                    f"formed in a procedure, the slew limit cannot be followed there")
    if not users:
        raise AnalysisError(f"no Pid method that returns a value reads State::{STATE_PREV} (anchor moved)")
    for f in pid.fns():
        for x in cir.walk(f.node):
            if _is_state_member(x, STATE_PREV) and not any(x.get("line") == y.get("line") for g in pid.fns("Pid")
                                                           for y in cxx3.walk_outer(pid.view(g).fn)
                                                           if _is_state_member(y, STATE_PREV)):
                raise AnalysisError(f"State::{STATE_PREV} is used in {f.key} (line {x.get('line')}), in code that is not "
                                    f"analysed inside a Pid method")
    for f, v in users:
        rule = _SlewRule(v)
        ctx = cxx3.xexplore(rule, pid.unit, v.fn)
        c = f"{f.key}:slew-limit"
        if rule.returns == 0:
            raise AnalysisError(f"{f.key} reads {STATE_PREV} but returns no tracked setpoint")
        if ctx.reports:
            r = ctx.reports[0]
            res.bad("R-MUSTPASS", c, r["file"], r["line"], f"{f.key}: {r['msg']}")
        else:
            res.ok("R-MUSTPASS", c, {"returns": rule.returns, "clips": rule.clips})


def _returns_value(fn_node):
    """The function's return type is not void (read from its type string `R (params)`)."""
    t = (fn_node.get("t") or "").split("(")[0].strip()
    return bool(t) and t != "void"


def _writes_state(fn, name):
    for n in cir.walk(fn):
        if n.get("k") == "BinaryOperator" and n.get("op") == "=" and _is_state_member(cir.strip(cir.kids(n)[0]), name):
            return True
    return False


def _chain_ends(n, *names):
    ch = cxx3.member_chain(n)
    return bool(ch) and tuple(ch[-len(names):]) == names


class _SlewRule(cxx3.XRule):
    """state: (clipped, slew, prev).  The tracked variable is the setpoint the function returns: `return v`, or
    `return mju_clip(v, lo, hi)` / `return c ? mju_clip(v, lo, hi) : v` (a return of the clipped value is the clip)."""

    def __init__(self, view):
        fn = view.fn
        self.fn = fn
        self.view = view
        self.defs = cxx3.local_defs(fn)
        rv = set()
        self.other_returns = []
        for n in cxx3.walk_outer(fn):
            if n.get("k") == "ReturnStmt":
                c = [x for x in cir.kids(n) if x is not None]
                if not c:
                    continue
                vs = self._returned_vars(c[0])
                if vs is None:
                    self.other_returns.append(n)
                else:
                    rv |= vs
        if len(rv) != 1:
            raise AnalysisError("setpoint function does not return a single local variable")
        self.var = next(iter(rv))
        for n in self.other_returns:
            left = [cir.callee(c) or "?" for c, _h in view.residual_targets(n)]
            if left:
                raise AnalysisError(f"the setpoint is returned through {left[0]}() (line {n.get('line')}), which could not "
                                    f"be analysed inside its caller")
        self.returns = 0
        self.clips = 0

    def _returned_vars(self, e):
        """Variables a return expression yields (possibly through mju_clip / ?:), None for any other expression."""
        s = cir.strip(e)
        if s is None:
            return None
        if s.get("k") == "DeclRefExpr" and (s.get("ref") or {}).get("k") in ("VarDecl", "ParmVarDecl"):
            return {(s.get("ref") or {}).get("id")}
        if s.get("k") == "ConditionalOperator":
            a, b = self._returned_vars(cir.kids(s)[1]), self._returned_vars(cir.kids(s)[2])
            return None if a is None or b is None else a | b
        if cir.is_call(s) and cir.callee(s) == CLIP and len(cir.args(s)) == 3:
            return self._returned_vars(cir.args(s)[0])
        return None

    def initial(self, fn):
        return (False, None, None)

    def _resolve(self, n):
        """Follow a local with a single definition to its defining expression."""
        s = cir.strip(n)
        seen = 0
        while s is not None and s.get("k") == "DeclRefExpr" and seen < 5:
            d = self.defs.get((s.get("ref") or {}).get("id")) or []
            if len(d) != 1:
                break
            s = cir.strip(d[0])
            seen += 1
        return s

    def _bound(self, n, op):
        """n == previous_ctrl <op> (*slew_max * timestep)   (factors in either order)."""
        s = self._resolve(n)
        if s is None or s.get("k") != "BinaryOperator" or s.get("op") != op:
            return False
        a, b = cir.kids(s)
        if not _is_state_member(cir.strip(a), STATE_PREV):
            return False
        p = self._resolve(b)
        if p is None or p.get("k") != "BinaryOperator" or p.get("op") != "*":
            return False
        x, y = cir.kids(p)

        def is_slew(e):
            ch = cxx3.optional_deref(self._resolve(e))
            return bool(ch) and ch[-1] == CFG_SLEW

        def is_dt(e):
            return _chain_ends(self._resolve(e), "opt", "timestep")
        return (is_slew(x) and is_dt(y)) or (is_slew(y) and is_dt(x))

    def _truth(self, cond, st):
        """Truth of a condition under the tracked predicates of a state, None if it is not determined by them."""
        s = cir.strip(cond)
        if s is None:
            return None
        k = s.get("k")
        if k == "UnaryOperator" and s.get("op") == "!":
            v = self._truth(cir.kids(s)[0], st)
            return None if v is None else not v
        if k == "BinaryOperator" and s.get("op") in ("&&", "||"):
            a, b = (self._truth(x, st) for x in cir.kids(s))
            if s["op"] == "&&":
                return False if (a is False or b is False) else (True if (a and b) else None)
            return True if (a is True or b is True) else (False if (a is False and b is False) else None)
        ch = cxx3.optional_test(s)
        if ch and ch[-1] == CFG_SLEW:
            return st[1]
        if _is_state_member(s, STATE_PREV_EXISTS):
            return st[2]
        return None

    def _value(self, st, e):
        """Is the value of `e` the slew-limited setpoint in state st?  True / False; None: `e` is not the setpoint."""
        s = cir.strip(e)
        if s is None:
            return None
        if s.get("k") == "ConditionalOperator":
            c, a, b = cir.kids(s)
            t = self._truth(c, st)
            if t is not None:
                return self._value(st, a if t else b)
            va, vb = self._value(st, a), self._value(st, b)
            if va is None and vb is None:
                return None
            return bool(va) and bool(vb)
        if _var_id(s) == self.var:
            return st[0]
        b = _is_clip_of(s, self.var)
        if b is not None:
            if self._bound(b[0], "-") and self._bound(b[1], "+"):
                self.clips += 1
                return True
            return False
        return None

    def assign(self, st, node, ctx):
        t = _local_target(node)
        if t is None or t[0] != self.var:
            return st
        v = self._value(st, t[1])
        return (bool(v), st[1], st[2])

    def branch(self, st, cond, taken, ctx):
        ch = cxx3.optional_test(cond)
        if ch and ch[-1] == CFG_SLEW:
            if st[1] is not None and st[1] != taken:
                return None
            return (st[0], taken, st[2])
        if _is_state_member(cir.strip(cond), STATE_PREV_EXISTS):
            if st[2] is not None and st[2] != taken:
                return None
            return (st[0], st[1], taken)
        return st

    def ret(self, st, node, ctx):
        c = [x for x in cir.kids(node) if x is not None]
        if not c:
            return
        self.returns += 1
        v = self._value(st, c[0])
        if not v and st[1] is not False and st[2] is not False:
            ctx.report(node, "the setpoint is returned without the slew clip (previous_ctrl ± *slew_max * timestep) on a "
                             "path where slew_max may hold a value and a previous ctrl may exist")


# ---------------------------------------------------------------------------------------------------------------
# R-TABLE: state slots


def _attr_map(pid):
    """{attribute constant name: PidConfig field} from the assignments of PidConfig::FromModel."""
    f = pid.fn("PidConfig", "FromModel")
    defs = cxx3.local_defs(f.node)
    consts = set()
    out = {}

    def attrs(e, seen):
        found = set()
        for x in cir.walk(e):
            if x.get("k") == "DeclRefExpr":
                r = x.get("ref") or {}
                if r.get("k") == "VarDecl" and "char" in (r.get("t") or "") and r.get("id") not in defs:
                    found.add(r.get("n"))
                elif r.get("k") == "VarDecl" and r.get("id") in defs and r["id"] not in seen:
                    seen.add(r["id"])
                    for d in defs[r["id"]]:
                        found |= attrs(d, seen)
        return found
    for n in cir.walk(f.node):
        if n.get("k") in ("BinaryOperator", "CXXOperatorCallExpr"):
            c = cir.kids(n)
            lhs = rhs = None
            if n["k"] == "BinaryOperator" and n.get("op") == "=":
                lhs, rhs = c[0], c[1]
            elif n["k"] == "CXXOperatorCallExpr" and len(c) == 3 and (cir.strip(c[0]).get("ref") or {}).get("n") == "operator=":
                lhs, rhs = c[1], c[2]
            if lhs is None:
                continue
            ch = cxx3.member_chain(lhs)
            if ch and len(ch) == 2:
                for a in attrs(rhs, set()):
                    out.setdefault(a, ch[1])
    if len(out) < 3:
        raise AnalysisError("cannot read the attribute -> PidConfig field map from PidConfig::FromModel")
    return out


# ---- symbolic evaluation of the activation-slot layout
#
# The plugin keeps its controller states in the actuator's activation block d->act[actadr .. actadr+actnum).  Which
# slot holds which state is decided here by *evaluating* the code, not by matching how it is written: every callback
# that reaches d->act / d->act_dot is interpreted abstractly (integers as linear forms over actuator_actadr[id],
# actuator_actnum[id], ...; the configuration through the predicates "field is nonzero" / "optional has a value", which
# are enumerated; the actuator's dyntype enumerated over mjtDyn), through locals, running indices, helper functions,
# methods, ?:, switch and early returns alike.  The size contract comes from the plugin's own validator (the accepting
# paths of Pid::Create pin actuator_actnum) and from the engine (mj_fwdActuation: where the native dyntype state lives).


class LF:
    """Integer linear form: sum(coeff * symbol) + const.  Symbols are hashable tuples."""
    __slots__ = ("t", "c", "_k")

    def __init__(self, t=None, c=0):
        self.t = {s: v for s, v in (t or {}).items() if v}
        self.c = c
        self._k = (frozenset(self.t.items()), c)

    def __eq__(self, o):
        return isinstance(o, LF) and self._k == o._k

    def __hash__(self):
        return hash(self._k)

    def plus(self, o, k=1):
        t = dict(self.t)
        for s, v in o.t.items():
            t[s] = t.get(s, 0) + k * v
        return LF(t, self.c + k * o.c)

    def times(self, k):
        return LF({s: v * k for s, v in self.t.items()}, self.c * k)

    @property
    def const(self):
        return self.c if not self.t else None

    def subst(self, sym, val):
        if sym not in self.t:
            return self
        t = dict(self.t)
        k = t.pop(sym)
        return LF(t, self.c).plus(val, k)

    def fmt(self):
        parts = []
        for s, v in sorted(self.t.items(), key=lambda x: _sym_text(x[0])):
            txt = _sym_text(s)
            parts.append(("- " if v < 0 else "+ ") + (txt if abs(v) == 1 else f"{abs(v)}*{txt}"))
        if self.c or not parts:
            parts.append(("- " if self.c < 0 else "+ ") + str(abs(self.c)))
        out = " ".join(parts)
        return out[2:] if out.startswith("+ ") else "-" + out[2:]


def _sym_text(s):
    if s[0] == "id":
        return "id"
    if s[0] == "arr":
        return f"{s[1]}[{s[2].fmt()}]"
    return ":".join(str(x) for x in s)


ID = LF({("id",): 1})            # the actuator under consideration (an element of the plugin's actuator list)


class _Unk:
    def __repr__(self):
        return "UNK"


UNK = _Unk()
NULL = ("null",)


class Enum:
    def __init__(self, name):
        self.name = name

    def __eq__(self, o):
        return isinstance(o, Enum) and o.name == self.name

    def __hash__(self):
        return hash(("enum", self.name))


class Cfg:
    """A configuration value: kind 'val' (a number: the attribute's value_or(0) / a double PidConfig field) or 'opt'
    (the optional attribute / an optional PidConfig field)."""

    def __init__(self, kind, field):
        self.kind, self.field = kind, field

    def __eq__(self, o):
        return isinstance(o, Cfg) and (o.kind, o.field) == (self.kind, self.field)

    def __hash__(self):
        return hash(("cfg", self.kind, self.field))


class Attr:
    def __init__(self, name):
        self.name = name

    def __eq__(self, o):
        return isinstance(o, Attr) and o.name == self.name

    def __hash__(self):
        return hash(("attr", self.name))


class Num:
    """A floating-point value; deps: the d->act slots it was computed from, as (linear form | None, tag, read id) with tag None
    (read directly), '@direct' (read inside the statement that writes act_dot) or the State field it was loaded through."""

    def __init__(self, deps=frozenset()):
        self.deps = frozenset(deps)

    def __eq__(self, o):
        return isinstance(o, Num) and o.deps == self.deps

    def __hash__(self):
        return hash(("num", self.deps))


class Cmp:
    """An undecided `==` / `!=` between two linear forms: diff <op> 0."""

    def __init__(self, diff, op):
        self.diff, self.op = diff, op

    def neg(self):
        return Cmp(self.diff, "!=" if self.op == "==" else "==")


class Struct:
    def __init__(self, tname, f=None):
        self.tname = tname
        self.f = dict(f or {})

    def copy(self):
        return Struct(self.tname, {k: (v.copy() if isinstance(v, Struct) else v) for k, v in self.f.items()})


class Ptr:
    """A pointer into d->act / d->act_dot: field and offset (linear form, None when it could not be evaluated)."""

    def __init__(self, fld, off):
        self.fld, self.off = fld, off

    def __eq__(self, o):
        return isinstance(o, Ptr) and (o.fld, o.off) == (self.fld, self.off)

    def __hash__(self):
        return hash(("ptr", self.fld, self.off))

    def shift(self, d, k=1):
        return Ptr(self.fld, self.off.plus(d, k) if isinstance(self.off, LF) and isinstance(d, LF) else None)


class _NeedPred(Exception):
    def __init__(self, pred):
        self.pred = pred


_INT_TYPES = {"int", "unsigned int", "unsigned", "long", "unsigned long", "long long", "unsigned long long", "short",
              "size_t", "std::size_t", "std::vector::size_type", "int64_t", "uint64_t", "int32_t", "uint32_t",
              "uintptr_t", "mjtByte", "unsigned char", "char", "mjtSize"}
_FLT_TYPES = {"double", "float", "mjtNum"}


def _plain_t(t):
    t = (t or "").replace("const ", "").replace("volatile ", "").strip()
    while t.endswith("&") or t.endswith(" const"):
        t = t[:-1].strip() if t.endswith("&") else t[:-6].strip()
    return t


def _is_int_t(t):
    return _plain_t(t) in _INT_TYPES


def _is_flt_t(t):
    return _plain_t(t) in _FLT_TYPES


def _join_val(a, b):
    if a is b:
        return a
    if isinstance(a, Num) and isinstance(b, Num):
        return Num(a.deps | b.deps)
    if isinstance(a, Struct) and isinstance(b, Struct):
        out = Struct(a.tname)
        for k in set(a.f) | set(b.f):
            out.f[k] = _join_val(a.f.get(k, Num()), b.f.get(k, Num()))
        return out
    if isinstance(a, (LF, Enum, Cfg, Attr, Ptr)) and a == b:
        return a
    if isinstance(a, bool) and isinstance(b, bool) and a == b:
        return a
    if isinstance(a, Num) or isinstance(b, Num):
        # a number on one path, something opaque on the other: keep what is known about its sources
        return a if isinstance(a, Num) else b
    return UNK


class SlotInterp:
    """Abstract interpreter over the C++ IR of the plugin TU (see the section comment)."""

    ACT_FIELDS = ("act", "act_dot")

    def __init__(self, pid, a2f, assign, dyn):
        self.pid = pid
        self.a2f = a2f
        self.assign = assign          # {(kind, field): bool}
        self.dyn = dyn                # enumerator name of the actuator's dyntype
        self.loads = []               # (State field, LF | None, node, function key)
        self.writes = []              # (field, LF | None, deps, node, function key)
        self.reads = {}               # read id -> (field, LF | None, direct?, node, function key): reads of act / act_dot
        self.state_rids = set()       # ids of the reads whose value was stored into a State field
        self.stack = []
        self.fresh = 0
        self.direct_depth = None

    # ---- helpers
    def _sym(self, tag):
        self.fresh += 1
        return LF({("tmp", tag, self.fresh): 1})

    def _fork(self, env):
        return {k: (v.copy() if isinstance(v, Struct) else v) for k, v in env.items()}

    def _join_envs(self, envs):
        if len(envs) == 1:
            return envs[0]
        out = {}
        keys = set(envs[0])
        for e in envs[1:]:
            keys &= set(e)
        for k in keys:
            if k == "$pc":
                continue
            v = envs[0][k]
            for e in envs[1:]:
                v = _join_val(v, e[k])
            out[k] = v
        pcs = [e.get("$pc", ()) for e in envs]
        out["$pc"] = tuple(c for c in pcs[0] if all(c in p for p in pcs[1:]))
        return out

    def truth(self, v):
        if isinstance(v, bool):
            return v
        if isinstance(v, LF):
            return None if v.const is None else bool(v.const)
        if v is NULL:
            return False
        if isinstance(v, Cfg):
            pred = (v.kind, v.field)
            if pred not in self.assign:
                raise _NeedPred(pred)
            return self.assign[pred]
        return None

    def _here(self):
        return self.stack[-1] if self.stack else "?"

    # ---- statements: every handler returns [(kind, env, value)] with kind N(ext) R(eturn) B(reak) C(ontinue)
    def block(self, stmts, env):
        live, done = [env], []
        for s in stmts:
            if s is None:
                continue
            nxt = []
            for e in live:
                for kind, e2, v in self.stmt(s, e):
                    if kind == "N":
                        nxt.append(e2)
                    else:
                        done.append((kind, e2, v))
            live = [self._join_envs(nxt)] if len(nxt) > 1 else nxt
            if not live:
                break
        return done + [("N", e, None) for e in live]

    def stmt(self, n, env):
        k = n.get("k")
        if k == "CompoundStmt":
            return self.block(cir.kids(n), env)
        if k == "DeclStmt":
            for v in cir.kids(n):
                if v is not None and v.get("k") == "VarDecl" and v.get("id"):
                    self._declare(v, env)
            return [("N", env, None)]
        if k == "IfStmt":
            return self._if(n, env)
        if k == "ReturnStmt":
            c = [x for x in cir.kids(n) if x is not None]
            return [("R", env, self.eval(c[0], env) if c else None)]
        if k == "BreakStmt":
            return [("B", env, None)]
        if k == "ContinueStmt":
            return [("C", env, None)]
        if k in ("NullStmt",):
            return [("N", env, None)]
        if k in ("AttributedStmt", "LabelStmt"):
            c = [x for x in cir.kids(n) if x is not None]
            return self.stmt(c[-1], env) if c else [("N", env, None)]
        if k == "CXXTryStmt":
            c = [x for x in cir.kids(n) if x is not None]
            return self.stmt(c[0], env) if c else [("N", env, None)]
        if k == "ForStmt":
            c = list(cir.kids(n)) + [None] * 5
            return self._loop(n, env, c[0], c[2], c[3], c[4])
        if k == "WhileStmt":
            c = list(cir.kids(n))
            return self._loop(n, env, None, c[0] if len(c) > 1 else None, None, c[-1])
        if k == "DoStmt":
            c = list(cir.kids(n))
            return self._loop(n, env, None, c[1] if len(c) > 1 else None, None, c[0])
        if k == "CXXForRangeStmt":
            c = list(cir.kids(n))
            var = None
            for d in c[:-1]:
                if d is not None and d.get("k") == "DeclStmt":
                    for v in cir.kids(d):
                        if v is not None and v.get("k") == "VarDecl" and not (v.get("n") or "").startswith("__"):
                            var = v
            return self._loop(n, env, None, None, None, c[-1], rangevar=var)
        if k == "SwitchStmt":
            return self._switch(n, env)
        if k in ("GotoStmt", "GCCAsmStmt", "CoreturnStmt"):
            raise AnalysisError(f"{self._here()}: statement {k} (line {n.get('line')}) is not interpreted")
        self.eval(n, env)
        return [("N", env, None)]

    def _declare(self, v, env):
        init = [c for c in cir.kids(v) if c is not None and not (c.get("k") or "").endswith("Attr")]
        t = v.get("t") or ""
        if init:
            val = self.eval(init[-1], env)
            if isinstance(val, Struct) and not t.rstrip().endswith("&"):
                val = val.copy()
            if isinstance(val, bool) and _is_int_t(t) and _plain_t(t) != "bool":
                val = LF(c=int(val))
        elif _is_int_t(t):
            val = UNK
        elif _is_flt_t(t):
            val = Num()
        else:
            val = Struct(cxx3.base_type(t) or t)
        env[v["id"]] = val

    def _if(self, n, env):
        c = list(cir.kids(n))
        idx = 0
        if n.get("hasInit"):
            for _k, env, _v in self.stmt(c[0], env):
                pass
            idx = 1
        if n.get("hasVar"):
            for _k, env, _v in self.stmt(c[idx], env):
                pass
            idx += 1
        cond = c[idx]
        then = c[idx + 1] if len(c) > idx + 1 else None
        els = c[idx + 2] if len(c) > idx + 2 else None
        v = self.eval(cond, env)
        t = self.truth(v)
        outs = []
        if t is True:
            outs = self.stmt(then, env) if then is not None else [("N", env, None)]
        elif t is False:
            outs = self.stmt(els, env) if els is not None else [("N", env, None)]
        else:
            e1, e2 = self._fork(env), self._fork(env)
            if isinstance(v, Cmp):
                e1["$pc"] = e1.get("$pc", ()) + ((v.diff, v.op),)
                e2["$pc"] = e2.get("$pc", ()) + ((v.neg().diff, v.neg().op),)
            outs = (self.stmt(then, e1) if then is not None else [("N", e1, None)]) + \
                   (self.stmt(els, e2) if els is not None else [("N", e2, None)])
        nxt = [e for kind, e, _ in outs if kind == "N"]
        rest = [o for o in outs if o[0] != "N"]
        if len(nxt) > 1:
            nxt = [self._join_envs(nxt)]
        return rest + [("N", e, None) for e in nxt]

    def _modified(self, *nodes):
        out = {}
        for root in nodes:
            for x in cir.walk(root):
                k = x.get("k")
                if (k == "BinaryOperator" and x.get("op") == "=") or k == "CompoundAssignOperator" or \
                        (k == "UnaryOperator" and x.get("op") in ("++", "--")):
                    l = cir.strip(cir.kids(x)[0])
                    if l is not None and l.get("k") == "DeclRefExpr":
                        r = l.get("ref") or {}
                        out[r.get("id")] = r.get("t")
        return out

    def _havoc(self, env, mod, tag):
        for vid, t in mod.items():
            if vid in env and not isinstance(env[vid], Struct):
                env[vid] = self._sym(tag) if _is_int_t(t) else (Num() if _is_flt_t(t) else UNK)

    def _loop(self, n, env, init, cond, inc, body, rangevar=None):
        """One symbolic iteration: variables the loop changes are unknown on entry to the body and after the loop; the
        element a loop over the plugin's actuator list visits is the symbol `id`.  Path conditions that hold on every
        way through the body hold for every actuator visited (they are kept after the loop)."""
        if init is not None:
            for _k, env, _v in self.stmt(init, env):
                pass
        mod = self._modified(cond, inc, body)
        self._havoc(env, mod, "loop")
        before = self._fork(env)
        if rangevar is not None:
            env[rangevar["id"]] = ID if _is_int_t(rangevar.get("t")) else UNK
        if cond is not None:
            self.eval(cond, env)
        outs = self.stmt(body, env) if body is not None else [("N", env, None)]
        res = [o for o in outs if o[0] == "R"]
        cont = [e for kind, e, _ in outs if kind != "R"]
        if inc is not None:
            for e in cont:
                self.eval(inc, e)
        if cont:
            pcs = [e.get("$pc", ()) for e in cont]
            keep = tuple(c for c in pcs[0] if all(c in p for p in pcs[1:]))
            after = self._join_envs(cont + [before])
            after["$pc"] = keep
        else:
            after = before
            if res:
                after["$novisit"] = True
        self._havoc(after, mod, "after")
        return res + [("N", after, None)]

    def _switch(self, n, env):
        c = [x for x in cir.kids(n) if x is not None]
        subj, body = self.eval(c[0], env), c[-1]
        flat = []

        def add(st):
            if st is None:
                return
            if st.get("k") in ("CaseStmt", "DefaultStmt"):
                flat.append(("label", st))
                add(cir.kids(st)[-1] if cir.kids(st) else None)
            else:
                flat.append(("stmt", st))
        for st in (cir.kids(body) if body.get("k") == "CompoundStmt" else [body]):
            add(st)
        labels = [(i, st) for i, (t, st) in enumerate(flat) if t == "label"]

        def run_from(i, e):
            live, done = [e], []
            for t, st in flat[i:]:
                if t == "label" or not live:
                    continue
                nxt = []
                for e1 in live:
                    for kind, e2, v in self.stmt(st, e1):
                        if kind == "N":
                            nxt.append(e2)
                        elif kind == "B":
                            done.append(("N", e2, None))
                        else:
                            done.append((kind, e2, v))
                live = [self._join_envs(nxt)] if len(nxt) > 1 else nxt
            return done + [("N", e1, None) for e1 in live]

        decided = None
        if isinstance(subj, (Enum, LF)) and (isinstance(subj, Enum) or subj.const is not None):
            decided = "default"
            for i, st in labels:
                if st.get("k") != "CaseStmt":
                    continue
                lab = self.eval(cir.kids(st)[0], self._fork(env))
                if isinstance(lab, type(subj)) and lab == subj:
                    decided = i
                    break
                if not isinstance(lab, type(subj)):
                    decided = None
                    break
        if decided is not None:
            if decided == "default":
                d = [i for i, st in labels if st.get("k") == "DefaultStmt"]
                return run_from(d[0], env) if d else [("N", env, None)]
            return run_from(decided, env)
        outs = []
        for i, _st in labels:
            outs += run_from(i, self._fork(env))
        if not any(st.get("k") == "DefaultStmt" for _i, st in labels):
            outs.append(("N", env, None))
        nxt = [e for kind, e, _ in outs if kind == "N"]
        rest = [o for o in outs if o[0] != "N"]
        return rest + ([("N", self._join_envs(nxt), None)] if nxt else [])

    # ---- expressions
    def _data_field(self, n):
        """('mjData' | 'mjModel', field) if n is `p->field` on a pointer to one of the two structs."""
        n = cir.strip(n)
        if n is None or n.get("k") != "MemberExpr" or not n.get("arrow"):
            return None
        b = cir.kids(n)
        bt = cxx3.base_type(cir.strip(b[0], casts=False).get("t")) if b and b[0] is not None else None
        if bt in ("mjData", "mjData_"):
            return "mjData", n.get("n")
        if bt in ("mjModel", "mjModel_"):
            return "mjModel", n.get("n")
        return None

    def _cfg_member(self, n):
        """Cfg for a member of a PidConfig object (config_.x, config.x, this->config_.x)."""
        if n.get("k") != "MemberExpr":
            return None
        b = cir.kids(n)
        bb = cir.strip(b[0], casts=False) if b and b[0] is not None else None
        if bb is None or cxx3.base_type(bb.get("t")) != "PidConfig":
            return None
        return Cfg("opt" if "optional" in (n.get("t") or "") else "val", n.get("n"))

    def _index(self, n, env):
        v = self.eval(n, env)
        return v if isinstance(v, LF) else None

    def _slot_access(self, fld, idx, n, lvalue):
        """A read (value) or the designation (lvalue) of slot `idx` of d->act / d->act_dot."""
        if lvalue:
            return ("slot", fld, idx)
        if idx is None:
            raise AnalysisError(f"{self._here()}: d->{fld} is read at an index that could not be evaluated "
                                f"(line {n.get('line')}: `{cir.text(n)}`)")
        direct = fld == "act" and self.direct_depth == len(self.stack)
        rid = len(self.reads)
        self.reads[rid] = (fld, idx, direct, n, self._here())
        if fld == "act":
            return Num({(idx, "@direct" if direct else None, rid)})
        return Num()

    def _subscript(self, n, env, lvalue=False):
        c = cir.kids(n)
        df = self._data_field(c[0])
        if df is not None and df[0] == "mjModel":
            idx = self._index(c[1], env)
            if df[1] == "actuator_dyntype":
                return Enum(self.dyn) if idx == ID else UNK
            if _is_int_t(n.get("t")):
                return LF({("arr", df[1], idx): 1}) if idx is not None else UNK
            return Num() if _is_flt_t(n.get("t")) else UNK
        base = self.eval(c[0], env)
        idx = self._index(c[1], env)
        if isinstance(base, Ptr):
            return self._slot_access(base.fld, base.shift(idx).off if idx is not None else None, n, lvalue)
        return Num() if _is_flt_t(n.get("t")) else UNK

    def _store(self, lhs, val, env, node):
        l = cir.strip(lhs)
        if l is None:
            return
        k = l.get("k")
        if k == "DeclRefExpr":
            vid = (l.get("ref") or {}).get("id")
            if isinstance(val, Struct):
                val = val.copy()
            env[vid] = val
            return
        if k == "MemberExpr":
            b = cir.strip(cir.kids(l)[0]) if cir.kids(l) else None
            if b is not None and b.get("k") == "DeclRefExpr":
                obj = env.get((b.get("ref") or {}).get("id"))
                if isinstance(obj, Struct):
                    obj.f[l.get("n")] = val
                    if obj.tname == "State" and isinstance(val, Num):
                        for form, tag, rid in val.deps:
                            if tag in (None, "@direct"):
                                self.loads.append((l.get("n"), form, node, self._here()))
                                self.state_rids.add(rid)
                    return
            df = self._data_field(l)
            if df and df[0] == "mjData" and df[1] in self.ACT_FIELDS:
                raise AnalysisError(f"{self._here()}: d->{df[1]} itself is assigned (line {node.get('line')})")
            return
        if k == "ArraySubscriptExpr" or (k == "UnaryOperator" and l.get("op") == "*"):
            r = self._lvalue_slot(l, env)
            if r is not None:
                deps = val.deps if isinstance(val, Num) else frozenset()
                self.writes.append((r[1], r[2], deps, node, self._here()))
            return
        self.eval(l, env)

    def _lvalue_slot(self, l, env):
        """('slot', field, index) if the lvalue designates a slot of d->act / d->act_dot, else None."""
        if l.get("k") == "ArraySubscriptExpr":
            r = self._subscript(l, env, lvalue=True)
        else:
            v = self.eval(cir.kids(l)[0], env)
            r = ("slot", v.fld, v.off) if isinstance(v, Ptr) else None
        return r if isinstance(r, tuple) and r and r[0] == "slot" else None

    def eval(self, n, env):
        n = cir.strip(n)
        if n is None:
            return UNK
        k = n.get("k")
        if k == "IntegerLiteral":
            try:
                return LF(c=int(str(n.get("v")), 0))
            except ValueError:
                return UNK
        if k == "CXXBoolLiteralExpr":
            return str(n.get("v")).lower() in ("true", "1")
        if k == "FloatingLiteral":
            try:
                return LF(c=0) if float(n.get("v")) == 0 else Num()
            except (TypeError, ValueError):
                return Num()
        if k in ("CXXNullPtrLiteralExpr", "GNUNullExpr"):
            return NULL
        if k == "DeclRefExpr":
            r = n.get("ref") or {}
            if r.get("k") == "EnumConstantDecl":
                return Enum(r.get("n"))
            if r.get("k") in ("VarDecl", "ParmVarDecl"):
                vid = r.get("id")
                if vid in env:
                    return env[vid]
                if r.get("n") in self.a2f:
                    return Attr(r.get("n"))
                if _is_int_t(r.get("t")):
                    env[vid] = LF({("var", r.get("n"), vid): 1})
                    return env[vid]
                return Num() if _is_flt_t(r.get("t")) else UNK
            return UNK
        if k == "MemberExpr":
            cfg = self._cfg_member(n)
            if cfg is not None:
                return cfg
            df = self._data_field(n)
            if df is not None:
                if df[0] == "mjData" and df[1] in self.ACT_FIELDS:
                    return Ptr(df[1], LF())
                if _is_int_t(n.get("t")):
                    return LF({("m", df[1]): 1})
                return Num() if _is_flt_t(n.get("t")) else UNK
            b = cir.strip(cir.kids(n)[0]) if cir.kids(n) else None
            if b is not None and b.get("k") == "DeclRefExpr":
                obj = env.get((b.get("ref") or {}).get("id"))
                if isinstance(obj, Struct):
                    v = obj.f.get(n.get("n"))
                    if v is None:
                        v = Num() if _is_flt_t(n.get("t")) else UNK
                    if obj.tname == "State" and isinstance(v, Num):
                        v = Num({(f, n.get("n") if t in (None, "@direct") else t, r) for f, t, r in v.deps})
                    return v
            if b is not None:
                self.eval(b, env)
            return Num() if _is_flt_t(n.get("t")) else UNK
        if k == "ArraySubscriptExpr":
            return self._subscript(n, env)
        if k == "UnaryOperator":
            return self._unary(n, env)
        if k == "BinaryOperator":
            return self._binary(n, env)
        if k == "CompoundAssignOperator":
            a, b = cir.kids(n)
            rv = self.eval(b, env)
            l = cir.strip(a)
            if l is not None and (l.get("k") == "ArraySubscriptExpr" or
                                  (l.get("k") == "UnaryOperator" and l.get("op") == "*")):
                r = self._lvalue_slot(l, env)
                if r is not None:
                    self.writes.append((r[1], r[2], rv.deps if isinstance(rv, Num) else frozenset(), n, self._here()))
                return UNK
            cur = self.eval(a, env)
            op = (n.get("op") or "")[:-1]
            val = self._arith(op, cur, rv, n.get("t"))
            self._store(a, val, env, n)
            return val
        if k == "ConditionalOperator":
            c, a, b = cir.kids(n)
            t = self.truth(self.eval(c, env))
            if t is True:
                return self.eval(a, env)
            if t is False:
                return self.eval(b, env)
            return _join_val(self.eval(a, env), self.eval(b, env))
        if k in cxx3.CTOR_KINDS:
            c = [x for x in cir.kids(n) if x is not None]
            if len(c) == 1:
                v = self.eval(c[0], env)
                return v.copy() if isinstance(v, Struct) else v
            for x in c:
                self.eval(x, env)
            if not c and not _is_int_t(n.get("t")) and not _is_flt_t(n.get("t")) and "optional" not in (n.get("t") or ""):
                return Struct(cxx3.base_type(n.get("t")) or "")
            return UNK
        if cir.is_call(n):
            return self._call(n, env)
        if k == "CXXDefaultArgExpr":
            c = [x for x in cir.kids(n) if x is not None]
            return self.eval(c[0], env) if c else UNK
        if k in ("LambdaExpr", "StringLiteral", "CXXThisExpr", "CXXNewExpr", "CXXDeleteExpr", "InitListExpr",
                 "UnaryExprOrTypeTraitExpr", "CharacterLiteral", "ImplicitValueInitExpr", "CXXScalarValueInitExpr"):
            if k == "InitListExpr":
                for x in cir.kids(n):
                    if x is not None:
                        self.eval(x, env)
            return UNK
        for x in cir.kids(n):
            if x is not None and x.get("k") not in ("CompoundStmt",):
                self.eval(x, env)
        return Num() if _is_flt_t(n.get("t")) else UNK

    def _unary(self, n, env):
        op = n.get("op")
        a = cir.kids(n)[0]
        if op in ("++", "--"):
            cur = self.eval(a, env)
            if isinstance(cur, Ptr):
                new = cur.shift(LF(c=1), 1 if op == "++" else -1)
            else:
                new = cur.plus(LF(c=1), 1 if op == "++" else -1) if isinstance(cur, LF) else UNK
            self._store(a, new, env, n)
            return cur if n.get("isPostfix") else new
        if op == "&":
            l = cir.strip(a)
            if l is not None and l.get("k") == "ArraySubscriptExpr":
                r = self._lvalue_slot(l, env)
                return Ptr(r[1], r[2]) if r is not None else UNK
            self.eval(a, env)
            return UNK
        v = self.eval(a, env)
        if op == "*" and isinstance(v, Ptr):
            return self._slot_access(v.fld, v.off, n, False)
        if op == "!":
            if isinstance(v, Cmp):
                return v.neg()
            t = self.truth(v)
            return UNK if t is None else (not t)
        if op == "-":
            if isinstance(v, LF):
                return v.times(-1)
            return v if isinstance(v, Num) else (Num() if _is_flt_t(n.get("t")) else UNK)
        if op == "+":
            return v
        return Num() if _is_flt_t(n.get("t")) else UNK

    def _arith(self, op, a, b, t):
        a = LF(c=int(a)) if isinstance(a, bool) else a
        b = LF(c=int(b)) if isinstance(b, bool) else b
        if isinstance(a, Ptr) and op in ("+", "-"):
            return a.shift(b if isinstance(b, LF) else None, 1 if op == "+" else -1)
        if isinstance(b, Ptr) and op == "+":
            return b.shift(a if isinstance(a, LF) else None)
        if isinstance(a, LF) and isinstance(b, LF) and not _is_flt_t(t):
            if op == "+":
                return a.plus(b)
            if op == "-":
                return a.plus(b, -1)
            if op == "*":
                if a.const is not None:
                    return b.times(a.const)
                if b.const is not None:
                    return a.times(b.const)
            if op in ("/", "%") and a.const is not None and b.const:
                return LF(c=(abs(a.const) // abs(b.const)) * (1 if (a.const >= 0) == (b.const >= 0) else -1)) \
                    if op == "/" else UNK
            return UNK
        deps = frozenset()
        for x in (a, b):
            if isinstance(x, Num):
                deps |= x.deps
        if _is_flt_t(t) or isinstance(a, (Num, Cfg)) or isinstance(b, (Num, Cfg)):
            return Num(deps)
        return UNK

    def _compare(self, op, a, b):
        if isinstance(a, LF) and isinstance(b, LF):
            d = a.plus(b, -1)
            if d.const is not None:
                v = d.const
                return {"==": v == 0, "!=": v != 0, "<": v < 0, "<=": v <= 0, ">": v > 0, ">=": v >= 0}[op]
            return Cmp(d, op) if op in ("==", "!=") else UNK
        if isinstance(a, Enum) and isinstance(b, Enum) and op in ("==", "!="):
            return (a == b) if op == "==" else (a != b)
        for x, y in ((a, b), (b, a)):
            if isinstance(x, Cfg) and x.kind == "val" and isinstance(y, LF) and y.const == 0 and op in ("==", "!="):
                t = self.truth(x)
                return t if op == "!=" else (not t)
        if (a is NULL or b is NULL) and op in ("==", "!="):
            if a is NULL and b is NULL:
                return op == "=="
        return UNK

    def _binary(self, n, env):
        op = n.get("op")
        a, b = cir.kids(n)
        if op == "=":
            l = cir.strip(a)
            is_slot = l is not None and l.get("k") == "ArraySubscriptExpr" and \
                (self._data_field(cir.kids(l)[0]) or (None, None))[0] == "mjData" and \
                self._data_field(cir.kids(l)[0])[1] == "act_dot"
            if is_slot:
                old = self.direct_depth
                self.direct_depth = len(self.stack)
                try:
                    v = self.eval(b, env)
                finally:
                    self.direct_depth = old
            else:
                v = self.eval(b, env)
            self._store(a, v, env, n)
            return v
        if op == ",":
            self.eval(a, env)
            return self.eval(b, env)
        if op in ("&&", "||"):
            va = self.eval(a, env)
            ta = self.truth(va)
            if op == "&&" and ta is False:
                return False
            if op == "||" and ta is True:
                return True
            vb = self.eval(b, self._fork(env) if ta is None else env)
            tb = self.truth(vb)
            if ta is not None:
                return vb if tb is None else tb
            if op == "&&" and tb is False:
                return False
            if op == "||" and tb is True:
                return True
            return UNK
        va, vb = self.eval(a, env), self.eval(b, env)
        if op in ("==", "!=", "<", "<=", ">", ">="):
            return self._compare(op, va, vb)
        if op in ("+", "-", "*", "/", "%"):
            return self._arith(op, va, vb, n.get("t"))
        return Num() if _is_flt_t(n.get("t")) else UNK

    def _call(self, n, env):
        c = cir.kids(n)
        f = cir.strip(c[0]) if c else None
        name = cir.callee(n)
        # ---- std::optional / container idioms on evaluated objects
        if n.get("k") == "CXXMemberCallExpr" and f is not None and f.get("k") == "MemberExpr":
            objn = cir.kids(f)[0] if cir.kids(f) else None
            ot = (cir.strip(objn, casts=False).get("t") or "") if objn is not None and cir.strip(objn, casts=False) else ""
            if "optional" in ot:
                obj = self.eval(objn, env)
                argv = [self.eval(a, env) for a in c[1:]]
                if name in ("has_value", "operator bool"):
                    if isinstance(obj, Cfg) and obj.kind == "opt":
                        return self.truth(obj)
                    return UNK
                if name == "value_or":
                    if isinstance(obj, Cfg) and obj.kind == "opt" and argv and isinstance(argv[0], LF) and argv[0].const == 0:
                        return Cfg("val", obj.field)
                    return Num()
                return Num() if name == "value" else UNK
        if n.get("k") == "CXXOperatorCallExpr" and f is not None and f.get("k") == "DeclRefExpr":
            opn = (f.get("ref") or {}).get("n")
            ot = (cir.strip(c[1], casts=False).get("t") or "") if len(c) > 1 and c[1] is not None else ""
            if opn == "operator*" and "optional" in ot:
                self.eval(c[1], env)
                return Num()
            if opn == "operator[]" and re.search(r"(vector|array)<\s*int\b", ot):
                for a in c[2:]:
                    self.eval(a, env)
                return ID
            if opn == "operator*" and re.search(r"iterator|__normal_iterator<\s*(const )?int", ot):
                return ID if "int" in ot else UNK
        # ---- functions of the plugin TU: interpreted
        info = cxx3.callee_info(n)
        tg = [g for g in (self.pid.resolver.targets(info, self.pid.rel, cxx3.call_nargs(n)) if info else [])
              if g.file == self.pid.rel and cir.body(g.node) is not None]
        args = cir.args(n)
        if n.get("k") == "CXXOperatorCallExpr":
            args = list(c[2:]) if tg and tg[0].qual else list(c[1:])
        if len(tg) == 1 and info[0] in ("free", "method"):
            argv = [self.eval(a, env) for a in args]
            return self._invoke(tg[0], argv, n)
        argv = [self.eval(a, env) for a in args]
        if f is not None and f.get("k") == "MemberExpr" and cir.kids(f):
            self.eval(cir.kids(f)[0], env)
        if len(tg) > 1:
            raise AnalysisError(f"{self._here()}: call of {name}() (line {n.get('line')}) has several targets in the "
                                f"plugin TU")
        # ---- external: attribute readers return the configuration value; numeric results keep their sources
        rt = n.get("t") or ""
        if any(isinstance(a, Ptr) for a in argv):
            raise AnalysisError(f"{self._here()}: a pointer into d->act / d->act_dot is handed to {name}() (line "
                                f"{n.get('line')}): the slots it touches cannot be evaluated")
        attrs = [a for a in argv if isinstance(a, Attr)]
        if attrs and "optional" in rt:
            return Cfg("opt", self.a2f[attrs[0].name])
        if name == "move" and argv:
            return argv[0]
        deps = frozenset()
        for a in argv:
            if isinstance(a, Num):
                deps |= a.deps
        if _is_flt_t(rt):
            return Num(deps)
        return UNK

    def _invoke(self, g, argv, node):
        if len(self.stack) > 12 or g.key in self.stack:
            raise AnalysisError(f"{self._here()}: recursive or too deep call of {g.key} (line {node.get('line')})")
        ps = cir.params(g.node)
        env = {}
        attrs = [a for a in argv if isinstance(a, Attr)]
        rt = (g.sig or "").split("(")[0].strip()
        if attrs and "optional" in rt:
            return Cfg("opt", self.a2f[attrs[0].name])     # an attribute reader: the configuration value itself
        for p_, v in zip(ps, argv):
            if isinstance(v, Struct) and not (p_.get("t") or "").rstrip().endswith(("&", "*")):
                v = v.copy()
            if p_.get("id"):
                env[p_["id"]] = v
        self.stack.append(g.key)
        try:
            outs = self.block(cir.kids(cir.body(g.node)), env)
        finally:
            self.stack.pop()
        rets = [v for kind, _e, v in outs if kind == "R"]
        if not rets:
            return UNK
        val = rets[0]
        for v in rets[1:]:
            val = _join_val(val, v) if not (v is None or val is None) else UNK
        return UNK if val is None else val


def _mjdata_act_reach(pid, root):
    """Does the code reachable from `root` inside the plugin TU mention d->act / d->act_dot?"""
    seen, todo = set(), [root]
    while todo:
        node = todo.pop()
        if id(node) in seen:
            continue
        seen.add(id(node))
        for x in cir.walk(node):
            if x.get("k") == "MemberExpr" and x.get("arrow") and x.get("n") in SlotInterp.ACT_FIELDS:
                b = cir.kids(x)
                if b and b[0] is not None and cxx3.base_type(cir.strip(b[0], casts=False).get("t")) in ("mjData", "mjData_"):
                    return True
            if cir.is_call(x):
                info = cxx3.callee_info(x)
                for g in (pid.resolver.targets(info, pid.rel, cxx3.call_nargs(x)) if info else []):
                    if g.file == pid.rel:
                        todo.append(g.node)
    return False


def _engine_native_slots(repo):
    """Where the engine keeps the native (dyntype) activation state: for each mjtDyn enumerator the index forms of the
    writes to d->act_dot in the function that afterwards calls the plugins' actuator_act_dot callback, as linear forms
    over m->actuator_actadr[i] / m->actuator_actnum[i].  {enumerator: [(line, form dict)]}, host function name."""
    from .. import ctypeinfo, engine, linform, norm
    tu = "src/engine/engine_forward.c"
    u = engine.unit(tu, repo)
    hosts = [name for name, fn in u.funcs.items()
             if any(cir.is_call(x) and (cir.callee_expr(x) or {}).get("k") == "MemberExpr" and
                    cir.callee_expr(x).get("n") == "actuator_act_dot" for x in cir.walk(fn))]
    if len(hosts) != 1:
        raise AnalysisError(f"expected one engine function calling the actuator_act_dot plugin callback in {tu}, found "
                            f"{hosts}")
    fn = norm.canon(u, hosts[0], inline_helpers=False, propagate=False, nested=True)
    defs = linform.single_defs(fn)
    enums = [e for e, _v in ctypeinfo.enum_values("mjtDyn", repo)]

    def is_dyn(text):
        d = defs.get(text)
        return "actuator_dyntype" in text or (d is not None and "actuator_dyntype" in cir.text(d))
    out = {e: [] for e in enums}
    for n in cir.walk(fn):
        if not ((n.get("k") == "BinaryOperator" and n.get("op") == "=") or n.get("k") == "CompoundAssignOperator"):
            continue
        l = cir.strip(cir.kids(n)[0])
        if l is None or l.get("k") != "ArraySubscriptExpr":
            continue
        rf = modref.root_field(l)
        if not rf or rf[0] != "mjData" or rf[1] != "act_dot":
            continue
        g = norm.guards(fn, n)
        live, constrained = norm.enum_cases(g, set(enums), subject=is_dyn)
        if not constrained:
            continue
        form = linform.linform(cir.kids(l)[1], defs)
        for e in live:
            out[e].append((n.get("line"), form, _ends_at_last(fn, n, form, defs, linform)))
    return hosts[0], tu, out


def _ends_at_last(fn, write, form, defs, linform):
    """Is the slot written actadr + actnum - 1, the last of the block?  Either the index is exactly that, or the write
    sits in a counted loop `for (j...; j < c; ...)` and the index is actadr + actnum - c + j (a block of c native states
    that ends at the last slot)."""
    ka = [t for t in form if "actuator_actadr[" in t]
    kn = [t for t in form if "actuator_actnum[" in t]
    if len(ka) != 1 or len(kn) != 1 or form[ka[0]] != 1 or form[kn[0]] != 1:
        return False
    rest = {t: c for t, c in form.items() if t not in (ka[0], kn[0])}
    rest["1"] = rest.get("1", 0) + 1
    rest = {t: c for t, c in rest.items() if c}
    if not rest:
        return True
    for loop in cir.walk(fn):
        if loop.get("k") != "ForStmt" or not any(x is write for x in cir.walk(loop)):
            continue
        c = list(cir.kids(loop)) + [None] * 5
        cond = cir.strip(c[2]) if c[2] is not None else None
        if cond is None or cond.get("k") != "BinaryOperator" or cond.get("op") != "<":
            continue
        var = cir.strip(cir.kids(cond)[0])
        if var is None or var.get("k") != "DeclRefExpr":
            continue
        bound = linform.linform(cir.kids(cond)[1], defs)
        # at the last iteration var = bound - 1
        r2 = dict(rest)
        coeff = r2.pop((var.get("ref") or {}).get("n"), 0)
        for t, cf in bound.items():
            r2[t] = r2.get(t, 0) + coeff * cf
        r2["1"] = r2.get("1", 0) - coeff
        if coeff == 1 and not {t: c_ for t, c_ in r2.items() if c_}:
            return True
    return False


def _tail_anchored(form):
    """The index is counted from the end of the actuator's activation block: actadr + actnum + ..."""
    a = [c for t, c in form.items() if "actuator_actadr[" in t]
    b = [c for t, c in form.items() if "actuator_actnum[" in t]
    return a == [1] and b == [1]


A_SYM = ("arr", "actuator_actadr", ID)
N_SYM = ("arr", "actuator_actnum", ID)


def _slot_text(form):
    return "unknown" if form is None else form.fmt().replace("actuator_", "")


def table_rule(res, pid, repo, cbs):
    res.rule("R-TABLE", "PID: for every configuration (integral / slew state enabled or not) and dyntype the plugin "
             "accepts, each controller state is loaded from and advanced in one activation slot actadr + k with "
             "0 <= k < (number of own slots Pid::Create demands), distinct states use distinct slots, and no state "
             "uses the engine's native slot actadr + actnum - 1", floor=3)
    a2f = _attr_map(pid)
    create = pid.fn("Pid", "Create")
    from .. import ctypeinfo
    dyns = [e for e, _v in ctypeinfo.enum_values("mjtDyn", repo)]
    if "mjDYN_NONE" not in dyns:
        raise AnalysisError("mjtDyn has no enumerator mjDYN_NONE")
    entries = [(slot, node) for slot, (kind, node, _line) in sorted(cbs.items())
               if kind == "lambda" and _mjdata_act_reach(pid, node)]
    if not entries:
        raise AnalysisError("no registered callback of the PID plugin reaches d->act / d->act_dot (anchor moved)")

    def analyse(assign, dyn):
        it = SlotInterp(pid, a2f, assign, dyn)
        it.stack.append(create.key)
        outs = it.block(cir.kids(cir.body(create.node)), {})
        it.stack.pop()
        nums = set()
        accepted = False
        for kind, env, val in outs:
            if kind != "R" or val is NULL or env.get("$novisit"):
                continue        # refused, or accepted only because no actuator of this kind was visited
            accepted = True
            eqs = [d for d, op in env.get("$pc", ()) if op == "==" and N_SYM in d.t]
            if not eqs:
                raise AnalysisError(f"{create.key}: a path that accepts the model does not pin actuator_actnum of the "
                                    f"plugin's actuators — the number of own activation slots cannot be derived")
            for d in eqs:
                k = d.t[N_SYM]
                rest = LF({s: v for s, v in d.t.items() if s != N_SYM}, d.c)
                if abs(k) != 1 or rest.const is None:
                    raise AnalysisError(f"{create.key}: actuator_actnum is pinned by `{d.fmt()} == 0`, not by a constant")
                nums.add(-rest.const * k)
        if not accepted:
            return None
        if len(nums) != 1:
            raise AnalysisError(f"{create.key}: accepting paths pin actuator_actnum to different values {sorted(nums)}")
        it.loads, it.writes, it.reads, it.state_rids = [], [], {}, set()
        for slot, node in entries:
            it.stack.append(f"callback:{slot}")
            it.block(cir.kids(node) if node.get("k") == "CompoundStmt" else [node], {})
            it.stack.pop()
        return nums.pop(), it.loads, it.writes, (it.reads, it.state_rids)

    preds = []
    while True:
        try:
            table = {}
            for vals in itertools.product((False, True), repeat=len(preds)):
                assign = dict(zip(preds, vals))
                for dyn in dyns:
                    table[(vals, dyn)] = analyse(assign, dyn)
            break
        except _NeedPred as e:
            if e.pred in preds or len(preds) > 7:
                raise AnalysisError(f"configuration predicates of the PID plugin could not be enumerated ({e.pred})")
            preds.append(e.pred)

    host, etu, native = _engine_native_slots(repo)
    # ---- the size contract
    extra_of = {}
    for vals in itertools.product((False, True), repeat=len(preds)):
        base = table[(vals, "mjDYN_NONE")]
        if base is None:
            continue
        for dyn in dyns:
            r = table[(vals, dyn)]
            if r is None:
                continue
            extra_of.setdefault(dyn, set()).add(r[0] - base[0])
    for dyn, ex in sorted(extra_of.items()):
        if len(ex) != 1 or min(ex) < 0:
            raise AnalysisError(f"{create.key}: the activation slots demanded beyond the dyntype-none count are not a "
                                f"fixed non-negative number for {dyn}: {sorted(ex)}")
    extra_of = {d: min(ex) for d, ex in extra_of.items()}
    cite, quirks = {}, []
    for dyn, ex in sorted(extra_of.items()):
        # the dyntype's native state is the single last slot: every act_dot write of the engine for it lands there
        # (a dyntype with further writes counted from act_first keeps a block of states the plugin does not provide for)
        last = [ln for ln, _f, at_last in native.get(dyn, ()) if at_last]
        if last and len(last) == len(native.get(dyn, ())) and dyn != "mjDYN_NONE":
            cite[dyn] = last[0]
        if not ex and last and dyn != "mjDYN_NONE":
            quirks.append(dyn)
    res.extra["slot_contract"] = {
        "predicates": [f"{k}:{f}" for k, f in preds],
        "native_slots_granted_by_Create": {d: e for d, e in sorted(extra_of.items())},
        "engine_native_write": {d: f"{etu}:{ln}" for d, ln in sorted(cite.items())},
        "accepted_dyntypes_with_engine_last_slot_write_but_no_extra_slot": quirks,
        "refused_dyntypes": sorted(d for d in dyns if d not in extra_of),
    }
    res.ok("R-TABLE", "pid:actnum-contract", {"extra": {d: e for d, e in sorted(extra_of.items())}, "engine": host})

    # ---- the slots
    bad = {}      # construct -> (line, message)   (first finding per construct)
    seen_fields, seen_writes = set(), 0
    setpoint_dyns = set()

    def report(c, node, msg):
        bad.setdefault(c, (node.get("line") if node is not None else create.line, msg))

    def describe(vals, dyn, own, num):
        on = [f for (k, f), v in zip(preds, vals) if v]
        return (f"with {{{', '.join(on) or 'no optional state'}}} configured and dyntype {dyn} ({create.key} demands "
                f"actnum = {num}: {own} own slot(s){' + 1 native' if num > own else ''})")

    for vals in itertools.product((False, True), repeat=len(preds)):
        base = table[(vals, "mjDYN_NONE")]
        if base is None:
            continue
        own = base[0]
        for dyn in dyns:
            r = table[(vals, dyn)]
            if r is None:
                continue
            num, loads, writes, (reads, state_rids) = r
            inline_reads = set()
            where = describe(vals, dyn, own, num)

            def offset(form, c, node, what):
                if form is None:
                    raise AnalysisError(f"{what} (line {node.get('line')}): the slot index could not be evaluated")
                rel = form.subst(N_SYM, LF(c=num)).plus(LF({A_SYM: 1}), -1)
                if rel.const is None:
                    if all(s[0] in ("arr", "id", "m") for s in rel.t):
                        report(c, node, f"{what} uses slot `{_slot_text(form)}`, which is not at a fixed offset from the "
                                        f"actuator's own actuator_actadr {where}")
                        return None
                    raise AnalysisError(f"{what} (line {node.get('line')}): slot `{_slot_text(form)}` depends on values "
                                        f"that could not be evaluated")
                k = rel.const
                if num > own and k == num - 1:
                    report(c, node, f"{what} uses slot `{_slot_text(form)}` = actadr + {k} {where}: that is the engine's "
                                    f"native activation slot actadr + actnum - 1 ({host} writes act_dot there for {dyn}, "
                                    f"{etu}:{cite.get(dyn)}); the plugin's own slots are [actadr, actadr + {own})")
                elif k < 0 or k >= own:
                    report(c, node, f"{what} uses slot `{_slot_text(form)}` = actadr + {k} {where}: outside the plugin's "
                                    f"own slots [actadr, actadr + {own})")
                return k

            by_field = {}
            for fld, form, node, fk in loads:
                seen_fields.add(fld)
                k = offset(form, f"pid:state-slot:{fld}", node, f"{fk} loads State.{fld} from d->act: it")
                by_field.setdefault(fld, set()).add((k, form))
            for fld, ks in by_field.items():
                if len(ks) > 1:
                    report(f"pid:state-slot:{fld}", None, f"State.{fld} is loaded from different slots "
                                                           f"{sorted(_slot_text(f) for _k, f in ks)} {where}")
            owner = {}
            for fld, ks in sorted(by_field.items()):
                for k, form in ks:
                    if k is None:
                        continue
                    if k in owner and owner[k] != fld:
                        report(f"pid:state-slot:{fld}", None, f"State.{fld} and State.{owner[k]} are both loaded from slot "
                                                               f"actadr + {k} {where}")
                    owner.setdefault(k, fld)
            wrote = {}
            for fld_, form, deps, node, fk in writes:
                if fld_ != "act_dot":
                    continue
                seen_writes += 1
                tags = {t for _f, t, _r in deps if t not in (None, "@direct")}
                role = STATE_INTEGRAL if STATE_INTEGRAL in tags else (next(iter(tags)) if len(tags) == 1 else None)
                c = f"pid:state-slot:{role}" if role else f"pid:state-slot:{fk}:act_dot"
                what = f"{fk} advances " + (f"State.{role}" if role else "a state") + " through d->act_dot: it"
                k = offset(form, c, node, what)
                if k is None:
                    continue
                if k in wrote and wrote[k] and role and wrote[k] != role:
                    report(c, node, f"{fk} writes the derivatives of State.{wrote[k]} and of State.{role} to the same slot "
                                    f"d->act_dot[actadr + {k}] {where}")
                wrote[k] = wrote.get(k) or role
                if role:
                    for f2, t, _r in deps:
                        if t == role and f2 is not None and f2 != form:
                            report(c, node, f"{fk} writes the derivative computed from State.{role} to slot "
                                            f"`{_slot_text(form)}`, but State.{role} is loaded from slot "
                                            f"`{_slot_text(f2)}` {where}")
                for f2, t, rid in deps:
                    if t == "@direct" and f2 is not None and f2 != form:
                        k2 = f2.subst(N_SYM, LF(c=num)).plus(LF({A_SYM: 1}), -1).const
                        if k2 is None or not 0 <= k2 < own:
                            inline_reads.add(rid)        # a raw read of a slot that is not the plugin's: a setpoint read
                        if k2 is not None and 0 <= k2 < own:
                            report(c, node, f"{fk} computes the derivative of slot `{_slot_text(form)}` from the current "
                                            f"value of another own slot `{_slot_text(f2)}` {where}")
            if writes or loads:
                for k, fld in sorted(owner.items()):
                    if k not in wrote and 0 <= k < own and any(w[0] == "act_dot" for w in writes):
                        report(f"pid:state-slot:{fld}", None, f"State.{fld} is loaded from slot actadr + {k} but no "
                                                               f"callback writes that slot's act_dot {where}: the state "
                                                               f"never advances")
            # ---- the reads that are not controller states: the setpoint (and its rate) taken from the native slot
            c_sp = f"pid:setpoint-slot:{dyn}"
            if dyn != "mjDYN_NONE":
                setpoint_dyns.add(dyn)
            for rid, (fld_, form, direct, node, fk) in sorted(reads.items()):
                if rid in state_rids or (direct and rid not in inline_reads):
                    continue
                what = (f"{fk} reads d->{fld_}[{_slot_text(form)}] (not a controller state: the setpoint or its rate, "
                        f"line {node.get('line')})")
                rel = form.subst(N_SYM, LF(c=num)).plus(LF({A_SYM: 1}), -1)
                if rel.const is None:
                    if all(s_[0] in ("arr", "id", "m") for s_ in rel.t):
                        report(c_sp, node, f"{what}: not at a fixed offset from the actuator's own actuator_actadr {where}")
                        continue
                    raise AnalysisError(f"{what}: the slot depends on values that could not be evaluated")
                k = rel.const
                if 0 <= k < own:
                    report(c_sp, node, f"{what} = actadr + {k} {where}: that is one of the plugin's own state slots "
                                       f"[actadr, actadr + {own}) — a controller state is taken for the setpoint")
                elif k < 0 or k >= num:
                    report(c_sp, node, f"{what} = actadr + {k} {where}: outside the actuator's activation block "
                                       f"[actadr, actadr + {num})")
                elif k != num - 1 or dyn not in cite:
                    ws = ", ".join(f"{etu}:{ln}" for ln, _f, _l in native.get(dyn, ())) or "none"
                    report(c_sp, node, f"{what} = actadr + {k} {where}, but {host} does not keep the native state of {dyn} "
                                       f"in that slot: its act_dot writes for {dyn} ({ws}) are "
                                       f"{'not all at actadr + actnum - 1' if native.get(dyn) else 'absent'} (the engine lays "
                                       f"that dyntype's states out from the start of the block), so the slot read is not "
                                       f"that dyntype's single native state")
    if STATE_INTEGRAL not in seen_fields or len(seen_fields) < 2 or not seen_writes:
        raise AnalysisError(f"state-slot accesses not found: State fields loaded from d->act {sorted(seen_fields)}, "
                            f"act_dot writes {seen_writes} (anchor moved)")
    constructs = {f"pid:state-slot:{f}" for f in seen_fields} | {f"pid:setpoint-slot:{d}" for d in setpoint_dyns} | set(bad)
    for c in sorted(constructs):
        if c in bad:
            res.bad("R-TABLE", c, pid.rel, bad[c][0], bad[c][1])
        else:
            res.ok("R-TABLE", c, {"combinations": len(table)})
    res.count("slot_combinations", len(table))


# ---------------------------------------------------------------------------------------------------------------
# R-WHO-WRITES


def _callbacks(tu, register_fn):
    """{slot name: node} for `plugin.<slot> = <lambda or function>` in RegisterPlugin."""
    out = {}
    for n in cir.walk(register_fn.node):
        if n.get("k") == "BinaryOperator" and n.get("op") == "=":
            lhs = cir.strip(cir.kids(n)[0])
            if lhs is not None and lhs.get("k") == "MemberExpr":
                b = cir.strip(cir.kids(lhs)[0])
                if b is not None and cxx3.base_type(b.get("t")) in ("mjpPlugin", "mjpPlugin_"):
                    rhs = cir.kids(n)[1]
                    lam = [x for x in cir.walk(rhs) if x.get("k") == "LambdaExpr"]
                    fref = [x for x in cir.walk(rhs) if x.get("k") == "DeclRefExpr" and
                            (x.get("ref") or {}).get("k") in ("FunctionDecl", "CXXMethodDecl")]
                    if lam:
                        body = [c for c in cir.kids(lam[0]) if c is not None and c.get("k") == "CompoundStmt"]
                        out[lhs.get("n")] = ("lambda", body[-1] if body else lam[0], n.get("line"))
                    elif fref and "(" in (lhs.get("t") or ""):
                        out[lhs.get("n")] = ("function", fref[0], n.get("line"))
    return out


def _closure_writes(tu, root_node):
    """Fields written by a callback: mod events of its body and of every TU function it can reach."""
    writes = {}      # "mjData.field" -> (file, line, via)
    problems = []
    seen = set()
    todo = [(root_node, "callback")]
    while todo:
        node, via = todo.pop()
        if id(node) in seen:
            continue
        seen.add(id(node))
        for e in modref.events(node, structs={"mjData", "mjModel"}):
            if e["kind"] == "alias" and not _alias_written(node, e.get("var")):
                continue        # a local pointer into the field that is only read through
            key = f"{e['struct']}.{e['field']}"
            writes.setdefault(key, (tu.rel, e["line"], via, e["kind"]))
        for call in cir.calls(node):
            info = cxx3.callee_info(call)
            tg = [g for g in (tu.resolver.targets(info, tu.rel, cxx3.call_nargs(call)) if info else []) if g.file == tu.rel]
            for g in tg:
                todo.append((g.node, g.key))
            if tg:
                continue
            # external callee: does it receive the whole mjData / mjModel non-const?
            name = info[1] if info else None
            ce = cir.callee_expr(call)
            ptypes = modref._param_types((ce.get("ref") or {}).get("t") if ce is not None and ce.get("k") == "DeclRefExpr"
                                         else None)
            for i, a in enumerate(cir.args(call)):
                s = cir.strip(a)
                if s is None or s.get("k") != "DeclRefExpr":
                    continue
                st = modref._struct_of(s.get("t"))
                if st not in ("mjData", "mjModel") or "*" not in (s.get("t") or ""):
                    continue
                pt = ptypes[i] if i < len(ptypes) else None
                if pt is not None and modref._const_pointee(pt):
                    continue
                if name in ENGINE_EFFECTS:
                    for fld in ENGINE_EFFECTS[name][0]:
                        writes.setdefault(f"{st}.{fld}", (tu.rel, call.get("line"), via, "engine:" + name))
                else:
                    problems.append((call.get("line"), f"passes the whole {st} (non-const) to {name}(), whose effect on "
                                                       f"it is not listed"))
        # constructors invoked from the callback (Cable::Create -> Cable::Cable)
        for x in cir.walk(node):
            if x.get("k") in cxx3.CTOR_KINDS:
                info = cxx3.callee_info(x)
                for g in tu.resolver.targets(info, tu.rel, cxx3.call_nargs(x)):
                    if g.file == tu.rel:
                        todo.append((g.node, g.key))
    return writes, problems


def _alias_written(fn_node, var):
    """Is anything written through the local pointer `var` (element/deref assignment, ++/--, passed or copied as a
    pointer to non-const)?"""
    if not var:
        return True
    for n in cir.walk(fn_node):
        k = n.get("k")
        if (k == "BinaryOperator" and n.get("op") == "=") or k == "CompoundAssignOperator" or \
                (k == "UnaryOperator" and n.get("op") in ("++", "--")):
            lhs = cir.strip(cir.kids(n)[0])
            if lhs is not None and lhs.get("k") in ("ArraySubscriptExpr", "UnaryOperator", "MemberExpr") and \
                    cir.base_var(lhs) == var:
                return True
            if k == "BinaryOperator" and lhs is not None and "*" in (lhs.get("t") or "") and \
                    not modref._const_pointee(lhs.get("t")) and cir.base_var(cir.kids(n)[1]) == var:
                return True
        elif cir.is_call(n):
            ce = cir.callee_expr(n)
            pts = modref._param_types((ce.get("ref") or {}).get("t") if ce is not None and ce.get("k") == "DeclRefExpr"
                                      else None)
            for i, a in enumerate(cir.args(n)):
                s = cir.strip(a)
                if s is None or "*" not in (s.get("t") or "") or cir.base_var(s) != var:
                    continue
                pt = pts[i] if i < len(pts) else None
                if pt is None or not modref._const_pointee(pt):
                    return True
        elif k == "VarDecl" and n.get("n") != var and "*" in (n.get("t") or "") and not modref._const_pointee(n.get("t")):
            init = [c for c in cir.kids(n) if c is not None]
            if init and cir.base_var(init[-1]) == var:
                return True
    return False


def who_writes_rule(res, tus):
    res.rule("R-WHO-WRITES", "each registered plugin callback writes only the mjData/mjModel fields allowed for it "
             "(own state, own force slice, own plugin_data slot)", floor=FLOOR_CALLBACKS)
    n = 0
    for plugin, tu, cls in (("pid", tus["pid"], "Pid"), ("cable", tus["cable"], "Cable")):
        reg = tu.fn(cls, "RegisterPlugin")
        cbs = _callbacks(tu, reg)
        if len(cbs) < 4:
            raise AnalysisError(f"{cls}::RegisterPlugin: only {len(cbs)} callback assignments found")
        for slot, (kind, node, line) in sorted(cbs.items()):
            n += 1
            c = f"{plugin}:{slot}"
            allowed = ALLOWED[plugin].get(slot)
            if allowed is None:
                res.bad("R-WHO-WRITES", c, tu.rel, line, f"callback slot `{slot}` has no entry in the allowed-writes table")
                continue
            if kind == "function":
                g = tu.resolver.targets(("method" if (node.get("ref") or {}).get("k") == "CXXMethodDecl" else "free",
                                         (node.get("ref") or {}).get("n"), None, (node.get("ref") or {}).get("t")), tu.rel)
                if not g:
                    raise AnalysisError(f"{c}: callback function not found in the TU")
                root = g[0].node
            else:
                root = node
            writes, problems = _closure_writes(tu, root)
            extra = sorted(k for k in writes if k not in allowed)
            if problems:
                res.bad("R-WHO-WRITES", c, tu.rel, problems[0][0], problems[0][1])
            elif extra:
                k = extra[0]
                f_, ln, via, kind_ = writes[k]
                res.bad("R-WHO-WRITES", f"{c}:{k}", f_, ln,
                        f"callback `{slot}` of the {plugin} plugin can write {k} ({kind_} in {via}); it may write only "
                        f"{sorted(allowed) or 'nothing'}")
                for k in extra[1:]:
                    f_, ln, via, kind_ = writes[k]
                    res.bad("R-WHO-WRITES", f"{c}:{k}", f_, ln,
                            f"callback `{slot}` of the {plugin} plugin can write {k} ({kind_} in {via}); it may write only "
                            f"{sorted(allowed) or 'nothing'}")
            else:
                res.ok("R-WHO-WRITES", c, {"writes": sorted(writes)})
    # elasticity.cc: shared helpers, no callback; they must not touch mjData / mjModel at all
    el = tus["elast"]
    for f in el.fns():
        ev = modref.events(f.node, structs={"mjData", "mjModel"})
        n += 1
        c = f"elasticity:{f.key}"
        if ev:
            res.bad("R-WHO-WRITES", c, f.file, ev[0]["line"], f"helper {f.key} writes {ev[0]['struct']}.{ev[0]['field']}")
        else:
            res.ok("R-WHO-WRITES", c)
    res.count("callbacks_and_helpers", n)


# ---------------------------------------------------------------------------------------------------------------
# R-INDEXDIM


def _references(repo):
    """Rows of MJMODEL_REFERENCES in engine_io.c: {address array: (domain dim, codomain dim, count array)}."""
    p = os.path.join(repo, ENGINE_IO)
    try:
        text = open(p).read()
    except OSError:
        raise AnalysisError(f"{ENGINE_IO} vanished")
    m = re.search(r"#define\s+MJMODEL_REFERENCES\b((?:.*\\\n)*.*\n)", text)
    if not m:
        raise AnalysisError("MJMODEL_REFERENCES not found in engine_io.c")
    out = {}
    for r in re.finditer(r"X\(\s*(\w+)\s*,\s*(\w+)\s*,\s*(\w+)\s*,\s*([^)]*?)\s*\)", m.group(1)):
        cnt = re.sub(r"^m->", "", r.group(4).strip())
        out[r.group(1)] = (r.group(2), r.group(3), cnt if re.fullmatch(r"[A-Za-z_]\w*", cnt) else None)
    if "actuator_outadr" not in out or "actuator_ctrladr" not in out or "actuator_actadr" not in out:
        raise AnalysisError("actuator address arrays not found in MJMODEL_REFERENCES")
    return out


class _Prov:
    """Index-space provenance of integer expressions inside one TU."""

    def __init__(self, tu, adr_dim, count_arrays, dims):
        self.tu = tu
        self.adr_dim = adr_dim            # address array -> codomain dimension
        self.count_arrays = count_arrays
        self.dims = dims                  # array field -> row dimension
        self.fn_defs = {}
        self.loop_bounds = {}
        self.range_vars = {}
        self.callsites = None

    def _prep(self, f):
        if id(f.node) in self.fn_defs:
            return
        self.fn_defs[id(f.node)] = cxx3.local_defs(f.node)
        lb, rv = {}, {}
        for n in cir.walk(f.node):
            if n.get("k") == "ForStmt":
                c = list(cir.kids(n)) + [None] * 5
                cond = cir.strip(c[2]) if c[2] is not None else None
                if cond is not None and cond.get("k") == "BinaryOperator" and cond.get("op") in ("<", "<="):
                    v = _var_id(cir.kids(cond)[0])
                    bound = cir.strip(cir.kids(cond)[1])
                    if v:
                        ch = cxx3.member_chain(bound)
                        if ch and len(ch) == 2 and bound.get("arrow") is not None:
                            lb[v] = ch[-1]                       # m->nu
                        else:
                            lb[v] = "?" + cir.text(bound)        # e.g. actuators_.size()
            elif n.get("k") == "CXXForRangeStmt":
                c = list(cir.kids(n))
                rng = None
                for d in c:
                    if d is not None and d.get("k") == "DeclStmt":
                        for v in cir.kids(d):
                            if v is not None and v.get("k") == "VarDecl" and (v.get("n") or "").startswith("__range"):
                                init = [x for x in cir.kids(v) if x is not None]
                                rng = cir.text(init[-1]) if init else None
                loopvar = None
                for d in c[:-1]:
                    if d is not None and d.get("k") == "DeclStmt":
                        for v in cir.kids(d):
                            if v is not None and v.get("k") == "VarDecl" and not (v.get("n") or "").startswith("__"):
                                loopvar = v
                if loopvar is not None:
                    rv[loopvar.get("id")] = rng
        self.loop_bounds[id(f.node)] = lb
        self.range_vars[id(f.node)] = rv

    def _callsites(self):
        if self.callsites is None:
            self.callsites = {}
            for f in self.tu.index.fns:
                if f.file != self.tu.rel:
                    continue
                for call in cir.calls(f.node):
                    info = cxx3.callee_info(call)
                    for g in (self.tu.resolver.targets(info, self.tu.rel, cxx3.call_nargs(call)) if info else []):
                        self.callsites.setdefault(id(g.node), []).append((f, call))
        return self.callsites

    def prov(self, e, f, seen=None):
        """Set of provenance tags: 'nu','nout','na','nactuator' (dimension), 'elem:<container>', 'param:<n>',
        'val:<array>' ; empty set = pure constant/offset."""
        seen = seen if seen is not None else set()
        self._prep(f)
        s = cir.strip(e)
        if s is None:
            return set()
        k = s.get("k")
        if k in ("IntegerLiteral", "CharacterLiteral"):
            return set()
        if k == "BinaryOperator" and s.get("op") in ("+", "-", "*"):
            a, b = cir.kids(s)
            return self.prov(a, f, seen) | self.prov(b, f, seen)
        if k == "UnaryOperator" and s.get("op") in ("++", "--", "+", "-"):
            return self.prov(cir.kids(s)[0], f, seen)
        if k == "ConditionalOperator":
            c = cir.kids(s)
            return self.prov(c[1], f, seen) | self.prov(c[2], f, seen)
        if k == "ArraySubscriptExpr":
            rf = modref.root_field(s)
            if rf and rf[0] in ("mjModel", "mjData"):
                fld = rf[1]
                if fld in self.adr_dim:
                    return {self.adr_dim[fld]}
                if fld in self.count_arrays:
                    return set()             # a count: an offset inside the block
                return {"val:" + fld}
            return {"val:" + cir.text(cir.kids(s)[0])}
        if k == "CXXOperatorCallExpr":
            c = cir.kids(s)
            fnn = (cir.strip(c[0]).get("ref") or {}).get("n") if c else None
            if fnn == "operator[]" and len(c) == 3:
                return {"elem:" + cir.text(c[1])}
            if fnn == "operator*" and len(c) == 2:
                return {"elem:" + cir.text(c[1])}
            return {"val:" + cir.text(s)}
        if k == "MemberExpr":
            ch = cxx3.member_chain(s)
            if ch and ch[-1] in ("nu", "nout", "na", "nactuator"):
                return set()
            return {"val:" + cir.text(s)}
        if k == "DeclRefExpr":
            r = s.get("ref") or {}
            vid = r.get("id")
            if r.get("k") == "EnumConstantDecl":
                return set()
            if (id(f.node), vid) in seen:
                return set()
            seen = seen | {(id(f.node), vid)}
            out = set()
            lb = self.loop_bounds[id(f.node)].get(vid)
            if lb is not None:
                out.add(lb)
            rv = self.range_vars[id(f.node)]
            if vid in rv:
                out.add("elem:" + (rv[vid] or "?"))
                return out
            if r.get("k") == "ParmVarDecl":
                ps = cir.params(f.node)
                idx = next((i for i, p in enumerate(ps) if p.get("id") == vid), None)
                sites = self._callsites().get(id(f.node), [])
                if idx is None or not sites:
                    return {"param:" + str(r.get("n"))}
                for cf, call in sites:
                    a = cir.args(call)
                    if idx < len(a):
                        out |= self.prov(a[idx], cf, seen)
                return out
            defs = self.fn_defs[id(f.node)].get(vid) or []
            for d in defs:
                if lb is not None and cir.strip(d) is not None and cir.strip(d).get("k") == "IntegerLiteral":
                    continue
                out |= self.prov(d, f, seen)
            if not defs and lb is None:
                out.add("val:" + str(r.get("n")))
            return out
        if cir.is_call(s):
            # a helper of this TU: the provenance of what it returns (its parameters resolve through its call sites)
            info = cxx3.callee_info(s)
            tg = [g for g in (self.tu.resolver.targets(info, self.tu.rel, cxx3.call_nargs(s)) if info else [])
                  if g.file == self.tu.rel]
            if tg and len(seen) < 40:
                out = set()
                for g in tg:
                    key = (id(g.node), "ret")
                    if key in seen:
                        continue
                    for r in cir.walk(g.node):
                        if r.get("k") == "ReturnStmt":
                            c = [x for x in cir.kids(r) if x is not None]
                            if c:
                                out |= self.prov(c[0], g, seen | {key})
                return out
            return {"val:" + cir.text(s)[:40]}
        return {"val:" + cir.text(s)[:40]}


def indexdim_rule(res, tus, repo):
    res.rule("R-INDEXDIM", "plugins index nu/nout/na-dimensioned arrays through the matching address array (or a loop "
             "over that dimension); nactuator-dimensioned arrays are not indexed by a loop over another dimension",
             floor=FLOOR_INDEX)
    refs = _references(repo)
    # block address arrays of actuators: rows with a count array (first address + number of entries per actuator);
    # plain cross-references (actuator_plugin -> nplugin, trnid ...) are not index spaces of the actuator I/O family
    adr_dim = {a: cod for a, (dom, cod, cnt) in refs.items() if dom == "nactuator" and cnt}
    count_arrays = {cnt for a, (dom, cod, cnt) in refs.items() if dom == "nactuator" and cnt}
    io_dims = set(adr_dim.values())           # {'na','nu','nout'}
    if not {"nu", "nout", "na"} <= io_dims:
        raise AnalysisError(f"actuator I/O dimensions not all present in MJMODEL_REFERENCES: {sorted(io_dims)}")
    dims = {}
    for table in ("MJMODEL_POINTERS", "MJDATA_POINTERS"):
        rows = xmacro.pointers(table, repo)
        if not rows:
            raise AnalysisError(f"X-macro table {table} is empty")
        for r in rows:
            dims[r["name"]] = r["nr"]
    for need in ("actuator_force", "actuator_length", "actuator_velocity", "ctrl", "act", "act_dot"):
        if need not in dims:
            raise AnalysisError(f"{need} not in the X-macro pointer tables")
    res.extra["row_dimensions"] = {k: dims[k] for k in ("actuator_force", "actuator_length", "actuator_velocity", "ctrl",
                                                        "act", "act_dot", "actuator_ctrlrange", "actuator_ctrllimited",
                                                        "actuator_plugin") if k in dims}
    res.extra["address_arrays"] = adr_dim
    want_adr = {d: a for a, d in adr_dim.items()}
    nsites = 0
    for name in ("pid", "cable"):
        tu = tus[name]
        pv = _Prov(tu, adr_dim, count_arrays, dims)
        for f in tu.fns():
            sites = []
            for n in cir.walk(f.node):
                if n.get("k") == "ArraySubscriptExpr":
                    base = cir.strip(cir.kids(n)[0])
                    if base is not None and base.get("k") == "MemberExpr" and base.get("arrow"):
                        st = modref._struct_of(cir.strip(cir.kids(base)[0]).get("t")) if cir.kids(base) else None
                        if st in ("mjModel", "mjData") and dims.get(base.get("n")) in io_dims | {"nactuator"}:
                            sites.append((n, base.get("n"), cir.kids(n)[1]))
                elif n.get("k") == "BinaryOperator" and n.get("op") == "+" and "*" in (n.get("t") or ""):
                    a, b = cir.kids(n)
                    base = cir.strip(a)
                    if base is not None and base.get("k") == "MemberExpr" and base.get("arrow"):
                        st = modref._struct_of(cir.strip(cir.kids(base)[0]).get("t")) if cir.kids(base) else None
                        if st in ("mjModel", "mjData") and dims.get(base.get("n")) in io_dims | {"nactuator"}:
                            sites.append((n, base.get("n"), b))
            per = {}
            for n, fld, idx in sites:
                nsites += 1
                d = dims[fld]
                p = pv.prov(idx, f)
                good = None
                if d in io_dims:
                    if p and p <= {d}:
                        good = True
                    else:
                        good = False
                        why = (f"`{cir.text(n)}`: {fld} has {d} rows (X-macro) but the index is "
                               f"{'an actuator id / unrelated value' if p else 'a constant'} (provenance {sorted(p) or ['constant']}); "
                               f"it must come from m->{want_adr[d]}[id] or a loop over m->{d}. With an earlier actuator "
                               f"whose block in that index space is not of size 1 the plugin reads/writes another "
                               f"actuator's slot")
                else:   # nactuator rows: flag only a definite contradiction
                    wrong = p & io_dims
                    if wrong:
                        good = False
                        why = (f"`{cir.text(n)}`: {fld} has nactuator rows but the index runs over "
                               f"{sorted(wrong)} — actuators are missed or rows past the end are read when that "
                               f"dimension differs from nactuator")
                    else:
                        good = True
                cur = per.setdefault(fld, [True, None, None])
                if not good and cur[0]:
                    per[fld] = [False, n.get("line"), why]
            for fld, (good, line, why) in sorted(per.items()):
                c = f"{f.key}:{fld}"
                if good:
                    res.ok("R-INDEXDIM", c, {"rows": dims[fld]})
                else:
                    res.bad("R-INDEXDIM", c, f.file, line, why)
    res.count("index_sites", nsites)


# ---------------------------------------------------------------------------------------------------------------
# R-BOUNDS-AGREE: the two operands of the cable's curvature difference have the same norm bound
#
# The cable's stress is stiffness * (omega - omega0): omega is the rotation vector of the current relative orientation,
# omega0 the rotation vector of the reference orientation, stored once by the constructor.  The force vanishes in the
# reference configuration only if both are obtained by the same map quaternion -> rotation vector, for EVERY reference
# orientation the compiler can produce.  A necessary condition that needs no arithmetic reasoning about that map: both
# maps have the same least upper bound of the vector norm (the rotation angle): if sup|omega| > sup|omega0| there is an
# orientation whose run-time curvature has a norm the reference curvature can never have, so their difference — the
# stress in the stress-free configuration — is not zero.  The bounds are computed by interval abstract interpretation
# of the code that produces each operand (the plugin functions and, from the engine sources, the bodies of the
# engine functions they call), with summaries only for the leaf primitives listed in _LEAF.  Single-variable affine
# maps and threshold conditionals are evaluated exactly (the interval is split at the threshold), so a difference of
# the bounds is definite; anything else (products of two unknowns, loops over the operand) is "cannot decide".

_INF = float("inf")
_PI = 3.141592653589793
SPATIAL_TUS = ("src/engine/engine_util_spatial.c", "src/engine/engine_util_blas.c")


class Iv:
    """Closed interval of a floating-point value.  exact: the interval is the exact range of the value when the unknown
    inputs (quaternion components, ...) range over all reals independently — only then is its supremum attained."""
    __slots__ = ("lo", "hi", "exact")

    def __init__(self, lo, hi=None, exact=True):
        self.lo, self.hi, self.exact = lo, (lo if hi is None else hi), exact

    def hull(self, o):
        return Iv(min(self.lo, o.lo), max(self.hi, o.hi), self.exact and o.exact)

    def scale(self, k):
        a, b = (0.0 if self.lo == 0 else self.lo * k), (0.0 if self.hi == 0 else self.hi * k)
        if k == 0:
            a = b = 0.0
        return Iv(min(a, b), max(a, b), self.exact)

    def abs(self):
        if self.lo >= 0:
            return Iv(self.lo, self.hi, self.exact)
        if self.hi <= 0:
            return Iv(-self.hi, -self.lo, self.exact)
        return Iv(0.0, max(-self.lo, self.hi), self.exact)

    @property
    def point(self):
        return self.lo if self.lo == self.hi else None

    def __repr__(self):
        return f"[{self.lo:.6g}, {self.hi:.6g}]" + ("" if self.exact else "~")


class Vec:
    """A 3-vector known only by an interval for its Euclidean norm (None: nothing known)."""

    def __init__(self, norm=None):
        self.norm = norm


_LEAF = {
    # name: summary (engine_util_blas.c / engine_inline.h; mju_atan2 is the macro for atan2)
    "mju_normalize3": "normalize3", "mji__normalize3": "normalize3", "mji_normalize3": "normalize3",
    "mju_scl3": "scl3", "mji_scl3": "scl3",
    "mju_zero3": "zero", "mji_zero3": "zero", "mju_zero": "zero",
    "mju_copy3": "copy", "mji_copy3": "copy",
    "atan2": "atan2", "mju_atan2": "atan2",
}


class _Stop(Exception):
    pass


class NormInterp:
    """Interval interpreter for straight-line numeric code with threshold conditionals (C and C++ IR alike)."""

    def __init__(self, bodies):
        self.bodies = bodies          # {function name: function node with a body}   (engine + plugin TU)
        self.depth = 0
        self.branch = 0               # > 0 inside a conditional: a fresh unknown read there may be correlated with the
        self.stop = None              #       condition, its "any real" range is then not exact
        self.snapshot = None

    def _any(self):
        return Iv(-_INF, _INF, self.branch == 0)

    # ---- values
    def _copy_env(self, env):
        return {k: (Vec(v.norm) if isinstance(v, Vec) else v) for k, v in env.items()}

    def _join_into(self, env, envs, before=None):
        """Join the forked environments back into `env` (Vec objects of env are updated in place: they may be aliased).
        before: the environment at the fork of an *unmodelled* condition — whatever a branch changed is inexact."""
        for k in list(env):
            vals = [e.get(k) for e in envs]
            cur = env[k]
            if isinstance(cur, Vec):
                norms = [v.norm if isinstance(v, Vec) else None for v in vals]
                if any(x is None for x in norms):
                    cur.norm = None
                else:
                    h = norms[0]
                    for x in norms[1:]:
                        h = h.hull(x)
                    if before is not None and any(x is not before[k].norm for x in norms):
                        h = Iv(h.lo, h.hi, False)
                    cur.norm = h
            elif all(isinstance(v, Iv) for v in vals):
                h = vals[0]
                for x in vals[1:]:
                    h = h.hull(x)
                if before is not None and any(x is not before.get(k) for x in vals):
                    h = Iv(h.lo, h.hi, False)
                env[k] = h
            else:
                env[k] = None
        for e in envs:
            for k, v in e.items():
                if k not in env:
                    env[k] = v

    def _vec_of(self, n, env):
        """The tracked vector an expression designates (array / pointer variable), else None."""
        s = cir.strip(n)
        if s is not None and s.get("k") == "DeclRefExpr":
            v = env.get((s.get("ref") or {}).get("id"))
            return v if isinstance(v, Vec) else None
        return None

    # ---- expressions: always an Iv
    def eval(self, n, env):
        s = cir.strip(n)
        if s is None:
            return self._any()
        k = s.get("k")
        if k in ("IntegerLiteral", "FloatingLiteral"):
            try:
                return Iv(float(int(str(s.get("v")), 0)) if k == "IntegerLiteral" else float(s.get("v")))
            except (TypeError, ValueError):
                return self._any()
        if k == "DeclRefExpr":
            v = env.get((s.get("ref") or {}).get("id"))
            return v if isinstance(v, Iv) else self._any()
        if k == "ArraySubscriptExpr":
            v = self._vec_of(cir.kids(s)[0], env)
            self.eval(cir.kids(s)[1], env)
            if v is not None and v.norm is not None:
                return Iv(-v.norm.hi, v.norm.hi, False)
            return self._any()
        if k == "UnaryOperator":
            v = self.eval(cir.kids(s)[0], env)
            if s.get("op") == "-":
                return v.scale(-1)
            if s.get("op") == "+":
                return v
            return self._any()
        if k == "BinaryOperator":
            op = s.get("op")
            if op == "=":
                return self._assign(s, env)
            a, b = (self.eval(x, env) for x in cir.kids(s))
            return self._arith(op, a, b)
        if k == "CompoundAssignOperator":
            l = cir.strip(cir.kids(s)[0])
            b = self.eval(cir.kids(s)[1], env)
            if l is not None and l.get("k") == "DeclRefExpr":
                vid = (l.get("ref") or {}).get("id")
                cur = env.get(vid)
                if not isinstance(cur, Vec):
                    env[vid] = self._arith((s.get("op") or "")[:-1], cur if isinstance(cur, Iv) else self._any(), b)
                    return env[vid]
            self._clobber(l, env)
            return self._any()
        if k == "ConditionalOperator":
            c, a, b = cir.kids(s)
            self.eval(c, env)
            self.branch += 1
            try:
                va, vb = self.eval(a, env), self.eval(b, env)
            finally:
                self.branch -= 1
            h = va.hull(vb)
            return Iv(h.lo, h.hi, False)
        if cir.is_call(s):
            return self._call(s, env)
        for x in cir.kids(s):
            if x is not None and x.get("k") != "CompoundStmt":
                self.eval(x, env)
        return self._any()

    def _arith(self, op, a, b):
        if op in ("+", "-"):
            k = 1 if op == "+" else -1
            o = b if k > 0 else b.scale(-1)
            ok = a.exact and b.exact and (a.point is not None or b.point is not None)
            return Iv(a.lo + o.lo, a.hi + o.hi, ok)
        if op == "*":
            if a.point is not None and a.exact:
                return b.scale(a.point)
            if b.point is not None and b.exact:
                return a.scale(b.point)
            if _INF not in (abs(a.lo), abs(a.hi), abs(b.lo), abs(b.hi)):
                c = [a.lo * b.lo, a.lo * b.hi, a.hi * b.lo, a.hi * b.hi]
                return Iv(min(c), max(c), False)        # sound, but the factors may be correlated: not exact
        if op == "/":
            if b.point and b.exact:
                return a.scale(1.0 / b.point)
        return Iv(-_INF, _INF, False)

    def _clobber(self, lhs, env):
        """An element of a tracked vector is assigned: its norm is no longer known."""
        l = cir.strip(lhs)
        while l is not None and l.get("k") in ("ArraySubscriptExpr", "UnaryOperator"):
            l = cir.strip(cir.kids(l)[0])
        v = self._vec_of(l, env) if l is not None else None
        if v is not None:
            v.norm = None

    def _assign(self, s, env):
        a, b = cir.kids(s)
        v = self.eval(b, env)
        l = cir.strip(a)
        if l is not None and l.get("k") == "DeclRefExpr":
            vid = (l.get("ref") or {}).get("id")
            if not isinstance(env.get(vid), Vec):
                env[vid] = v
        else:
            self._clobber(l, env)
        return v

    def _call(self, s, env):
        name = cir.callee(s)
        args = cir.args(s)
        kind = _LEAF.get(name)
        if kind == "atan2" and len(args) == 2:
            y, x = self.eval(args[0], env), self.eval(args[1], env)
            ok = y.exact and x.exact
            if y.lo >= 0:
                if x.lo >= 0:
                    return Iv(0.0, _PI / 2, ok)
                if x.hi <= 0:
                    return Iv(_PI / 2, _PI, ok)
                return Iv(0.0, _PI, ok)
            if y.hi <= 0:
                return Iv(-_PI, 0.0, ok)
            return Iv(-_PI, _PI, ok)
        if kind == "normalize3" and len(args) == 1:
            v = self._vec_of(args[0], env)
            ret = Iv(0.0, _INF, self.branch == 0)
            if v is not None:
                if v.norm is not None:
                    ret = v.norm
                v.norm = Iv(1.0, 1.0, True)
            return ret
        if kind == "scl3" and len(args) == 3:
            r, v = self._vec_of(args[0], env), self._vec_of(args[1], env)
            k = self.eval(args[2], env)
            if r is not None:
                src = v.norm if v is not None else None
                if src is None:
                    r.norm = None
                else:
                    ka = k.abs()
                    hi = 0.0 if (ka.hi == 0 or src.hi == 0) else (_INF if _INF in (ka.hi, src.hi) else src.hi * ka.hi)
                    lo = 0.0 if (ka.lo == 0 or src.lo == 0) else (_INF if _INF in (ka.lo, src.lo) else src.lo * ka.lo)
                    r.norm = Iv(lo, hi, src.exact and k.exact and (src.point is not None or k.point is not None))
            return self._any()
        if kind == "zero":
            r = self._vec_of(args[0], env) if args else None
            for a in args[1:]:
                self.eval(a, env)
            if r is not None:
                r.norm = Iv(0.0, 0.0, True)
            return self._any()
        if kind == "copy" and len(args) == 2:
            r, v = self._vec_of(args[0], env), self._vec_of(args[1], env)
            if r is not None:
                r.norm = None if v is None or v.norm is None else Iv(v.norm.lo, v.norm.hi, v.norm.exact)
            return self._any()
        h = self.bodies.get(name)
        if h is not None and cir.body(h) is not None and self.depth < 6 and len(cir.params(h)) == len(args):
            vals = []
            for a in args:
                v = self._vec_of(a, env)
                vals.append(v if v is not None else self.eval(a, env))
            r = self.run(h, vals)
            return r if r is not None else self._any()
        # unknown callee: whatever tracked vector it may write is unknown afterwards
        ce = cir.callee_expr(s)
        pts = modref._param_types((ce.get("ref") or {}).get("t") if ce is not None and ce.get("k") == "DeclRefExpr" else None)
        for i, a in enumerate(args):
            v = self._vec_of(a, env)
            if v is not None and not (i < len(pts) and modref._const_pointee(pts[i])):
                v.norm = None
            elif v is None:
                self.eval(a, env)
        return Iv(-_INF, _INF, False)

    # ---- statements
    def run(self, fn, vals, stop=None):
        """Interpret a function; vals: per parameter a Vec (aliased) or an Iv.  Returns the interval of the value
        returned (None when void / unknown).  With `stop` (a node): the environment when the statement containing that
        node is reached is kept in self.snapshot and interpretation ends (_Stop)."""
        env = {}
        for p_, v in zip(cir.params(fn), vals):
            if p_.get("id"):
                ptr = "*" in (p_.get("t") or "") or "[" in (p_.get("t") or "")
                if ptr and not isinstance(v, Vec):
                    v = Vec(None)
                env[p_["id"]] = v
        self.depth += 1
        old = self.stop
        if stop is not None:
            self.stop = stop
        try:
            rets = []
            self.block(cir.kids(cir.body(fn)), env, rets)
        finally:
            self.depth -= 1
            self.stop = old
        if rets and all(isinstance(r, Iv) for r in rets):
            h = rets[0]
            for r in rets[1:]:
                h = h.hull(r)
            return h
        return None

    _NESTING = ("CompoundStmt", "IfStmt", "ForStmt", "WhileStmt", "DoStmt", "CXXForRangeStmt", "SwitchStmt")

    def block(self, stmts, env, rets):
        for st in stmts:
            if st is None:
                continue
            if self.stop is not None and self.depth == 1 and st.get("k") not in self._NESTING and \
                    any(x is self.stop for x in cir.walk(st)):
                self.snapshot = env
                raise _Stop()
            if self.stmt(st, env, rets):
                return True
        return False

    def stmt(self, n, env, rets):
        """Returns True when control certainly left the function (return on every path)."""
        k = n.get("k")
        if k == "CompoundStmt":
            return self.block(cir.kids(n), env, rets)
        if k == "DeclStmt":
            for v in cir.kids(n):
                if v is None or v.get("k") != "VarDecl" or not v.get("id"):
                    continue
                t = v.get("t") or ""
                init = [c for c in cir.kids(v) if c is not None and not (c.get("k") or "").endswith("Attr")]
                if "[" in t or "*" in t:
                    if init:
                        src = self._vec_of(init[-1], env)
                        if src is not None and "*" in t:
                            env[v["id"]] = src          # a pointer to a tracked vector: alias
                            continue
                        s0 = cir.strip(init[-1])
                        for x in cir.kids(s0) if s0 is not None else ():
                            if x is not None:
                                self.eval(x, env)
                        env[v["id"]] = Vec(Iv(0.0, _INF, self.branch == 0)
                                           if s0 is not None and s0.get("k") == "InitListExpr" else None)
                    else:
                        env[v["id"]] = Vec(None)
                else:
                    env[v["id"]] = self.eval(init[-1], env) if init else self._any()
            return False
        if k == "ReturnStmt":
            c = [x for x in cir.kids(n) if x is not None]
            rets.append(self.eval(c[0], env) if c else None)
            return True
        if k == "IfStmt":
            return self._if(n, env, rets)
        if k in ("ForStmt", "WhileStmt", "DoStmt", "CXXForRangeStmt", "SwitchStmt"):
            inside = self.stop is not None and self.depth == 1 and any(x is self.stop for x in cir.walk(n))
            if inside and k == "SwitchStmt":
                raise AnalysisError("the curvature difference sits inside a switch of its function: the operands' bounds "
                                    "cannot be evaluated there")
            if inside and k == "ForStmt" and cir.kids(n) and cir.kids(n)[0] is not None:
                self.stmt(cir.kids(n)[0], env, rets)        # the loop's own declarations
            # conservative: everything the construct assigns or hands to a call is unknown afterwards (when the
            # difference sits in the loop: also at the start of every iteration — what the loop leaves alone, e.g. the
            # operands computed before a per-component loop, keeps its bound)
            for x in cir.walk(n):
                kk = x.get("k")
                if (kk == "BinaryOperator" and x.get("op") == "=") or kk == "CompoundAssignOperator" or \
                        (kk == "UnaryOperator" and x.get("op") in ("++", "--")):
                    l = cir.strip(cir.kids(x)[0])
                    if l is not None and l.get("k") == "DeclRefExpr":
                        vid = (l.get("ref") or {}).get("id")
                        if isinstance(env.get(vid), Vec):
                            env[vid].norm = None
                        else:
                            env[vid] = Iv(-_INF, _INF, False)
                    else:
                        self._clobber(l, env)
                elif cir.is_call(x):
                    for a in cir.args(x):
                        v = self._vec_of(a, env)
                        if v is not None:
                            v.norm = None
            if inside:
                body = cir.kids(n)[0] if k == "DoStmt" else cir.kids(n)[-1]
                self.branch += 1
                try:
                    self.stmt(body, env, [])        # ends with _Stop at the statement that holds the difference
                finally:
                    self.branch -= 1
            return False
        if k in ("NullStmt", "BreakStmt", "ContinueStmt"):
            return False
        self.eval(n, env)
        return False

    def _threshold(self, cond, env):
        """(var id, op, constant) for `v <op> c` / `c <op> v` on a scalar variable compared with a constant."""
        s = cir.strip(cond)
        if s is None or s.get("k") != "BinaryOperator" or s.get("op") not in ("<", "<=", ">", ">="):
            return None
        a, b = (cir.strip(x) for x in cir.kids(s))
        flip = {"<": ">", "<=": ">=", ">": "<", ">=": "<="}
        for x, y, op in ((a, b, s["op"]), (b, a, flip[s["op"]])):
            if x is not None and x.get("k") == "DeclRefExpr":
                vid = (x.get("ref") or {}).get("id")
                c = self.eval(y, self._copy_env(env))
                if isinstance(env.get(vid), Iv) and c.point is not None and c.exact:
                    return vid, op, c.point
        return None

    def _if(self, n, env, rets):
        c = list(cir.kids(n))
        idx = (1 if n.get("hasInit") else 0) + (1 if n.get("hasVar") else 0)
        for pre in c[:idx]:
            if pre is not None:
                self.stmt(pre, env, rets)
        cond = c[idx]
        then = c[idx + 1] if len(c) > idx + 1 else None
        els = c[idx + 2] if len(c) > idx + 2 else None
        th = self._threshold(cond, env)
        if th is None:
            self.eval(cond, env)
        e1, e2 = self._copy_env(env), self._copy_env(env)
        before = None
        if th is not None:
            vid, op, cst = th
            cur = env[vid]
            if op in (">", ">="):
                t_iv = Iv(max(cur.lo, cst), cur.hi, cur.exact) if cur.hi >= cst else None
                f_iv = Iv(cur.lo, min(cur.hi, cst), cur.exact) if cur.lo <= cst else None
            else:
                t_iv = Iv(cur.lo, min(cur.hi, cst), cur.exact) if cur.lo <= cst else None
                f_iv = Iv(max(cur.lo, cst), cur.hi, cur.exact) if cur.hi >= cst else None
            if t_iv is not None:
                e1[vid] = t_iv
            if f_iv is not None:
                e2[vid] = f_iv
            branches = [(then, e1, t_iv is not None), (els, e2, f_iv is not None)]
        else:
            before = self._copy_env(env)
            e1, e2 = self._copy_env(before), self._copy_env(before)
            branches = [(then, e1, True), (els, e2, True)]
        live = []
        self.branch += 1
        try:
            for body, e, feasible in branches:
                if not feasible:
                    continue
                left = self.stmt(body, e, rets) if body is not None else False
                if not left:
                    live.append(e)
        finally:
            self.branch -= 1
        if not live:
            return True
        self._join_into(env, live, before)
        return False


def _engine_bodies(repo):
    from .. import engine
    out = {}
    for tu in SPATIAL_TUS:
        if not os.path.exists(os.path.join(repo, tu)):
            raise AnalysisError(f"{tu} vanished")
        u = engine.unit(tu, repo)
        for name, fn in u.funcs.items():
            if cir.body(fn) is not None:
                out.setdefault(name, fn)
    return out


def _ptr_base(n):
    """The variable / member an array-element or pointer expression is based on: DeclRefExpr node, ('member', name) or
    None.  x[i], x + k, &x[i], x.data() + k, this->x[i]."""
    s = cir.strip(n)
    while s is not None:
        k = s.get("k")
        if k == "ArraySubscriptExpr":
            s = cir.strip(cir.kids(s)[0])
        elif k == "UnaryOperator" and s.get("op") in ("&", "*"):
            s = cir.strip(cir.kids(s)[0])
        elif k == "BinaryOperator" and s.get("op") in ("+", "-"):
            a, b = (cir.strip(x) for x in cir.kids(s))
            pa = a is not None and ("*" in (a.get("t") or "") or "[" in (a.get("t") or ""))
            s = a if pa else b
        elif k == "CXXMemberCallExpr":
            f = cir.strip(cir.kids(s)[0])
            if f is not None and f.get("k") == "MemberExpr" and f.get("n") in ("data", "begin") and cir.kids(f):
                s = cir.strip(cir.kids(f)[0])
            else:
                return None
        elif k == "CXXOperatorCallExpr":
            c = cir.kids(s)
            f = cir.strip(c[0]) if c else None
            if f is not None and (f.get("ref") or {}).get("n") == "operator[]" and len(c) >= 2:
                s = cir.strip(c[1])
            else:
                return None
        elif k == "MemberExpr":
            b = cir.strip(cir.kids(s)[0]) if cir.kids(s) else None
            if b is not None and b.get("k") == "CXXThisExpr":
                return ("member", s.get("n"))
            return None
        elif k == "DeclRefExpr":
            return s
        else:
            return None
    return None


_ALIAS_CACHE = {}


def _pointer_aliases(fnode):
    """{decl id of a local pointer variable: what it points into} — ('member', name), a DeclRefExpr node (another
    variable), None (unknown), or 'conflict' when the variable is re-pointed to something else."""
    key = id(fnode)
    if key in _ALIAS_CACHE:
        return _ALIAS_CACHE[key][1]
    m = {}
    for x in cir.walk(fnode):
        if x.get("k") == "VarDecl" and x.get("id") and "*" in (x.get("t") or ""):
            init = [c for c in cir.kids(x) if c is not None and not (c.get("k") or "").endswith("Attr")]
            m[x["id"]] = _ptr_base(init[-1]) if init else None
    for x in cir.walk(fnode):
        if x.get("k") == "BinaryOperator" and x.get("op") == "=":
            l = cir.strip(cir.kids(x)[0])
            if l is not None and l.get("k") == "DeclRefExpr" and (l.get("ref") or {}).get("id") in m:
                vid = l["ref"]["id"]
                b = _ptr_base(cir.kids(x)[1])
                same = (b == m[vid]) if isinstance(b, tuple) or isinstance(m[vid], tuple) else \
                    (b is not None and m[vid] is not None and not isinstance(m[vid], str) and
                     (b.get("ref") or {}).get("id") == (m[vid].get("ref") or {}).get("id"))
                if m[vid] is None and not any(True for _ in ()):
                    m[vid] = b if b is not None else "conflict"
                elif not same:
                    m[vid] = "conflict"
    _ALIAS_CACHE[key] = (fnode, m)
    return m


def _resolved_base(expr, fnode):
    """_ptr_base with local pointer aliases followed: ('member', name), a DeclRefExpr (array / parameter / pointer of
    unknown target) or None."""
    b = _ptr_base(expr)
    al = _pointer_aliases(fnode)
    for _ in range(6):
        if b is None or isinstance(b, tuple):
            return b
        vid = (b.get("ref") or {}).get("id")
        if vid not in al:
            return b
        nb = al[vid]
        if nb is None or nb == "conflict":
            return None
        b = nb
    return None


def bounds_rule(res, cable, repo):
    res.rule("R-BOUNDS-AGREE", "cable: in every difference of two vector elements of which one is a bounded rotation "
             "vector (the curvature omega and the stored reference curvature omega0), both operands have the same least "
             "upper bound of the norm — computed by interval interpretation of the plugin code and of the engine "
             "functions that produce them", floor=1)
    bodies = _engine_bodies(repo)
    tu_fns = {f.name: f for f in cable.fns() if cir.body(f.node) is not None}
    all_bodies = dict(bodies)
    for name, f in tu_fns.items():
        all_bodies.setdefault(name, f.node)

    # call sites of the TU's functions
    sites = {}
    for f in cable.fns():
        for call in cir.calls(f.node):
            info = cxx3.callee_info(call)
            for g in (cable.resolver.targets(info, cable.rel, cxx3.call_nargs(call)) if info else []):
                if g.file == cable.rel:
                    sites.setdefault(id(g.node), []).append((f, call))

    member_bound = {}

    def bound_of_member(name):
        """Norm bound of a member vector: join over everything in the TU that writes it (None: unknown)."""
        if name in member_bound:
            return member_bound[name]
        member_bound[name] = None
        norms, unknown, writers = [], False, 0
        for f in cable.fns():
            for x in cxx3.walk_outer(f.node):
                if cir.is_call(x):
                    ce = cir.callee_expr(x)
                    # methods of the container itself: (re)sizing with zeros is neutral, anything else is unknown
                    if x.get("k") == "CXXMemberCallExpr" and ce is not None and ce.get("k") == "MemberExpr" and \
                            cir.kids(ce) and _resolved_base(cir.kids(ce)[0], f.node) == ("member", name):
                        m = ce.get("n")
                        if m in ("assign", "resize"):
                            a = cir.args(x)
                            fill = NormInterp({}).eval(a[1], {}) if len(a) > 1 else Iv(0)
                            writers += 1
                            if fill is not None and fill.point == 0:
                                norms.append(Iv(0, 0))
                            else:
                                unknown = True
                        elif m in ("data", "size", "begin", "end", "empty", "at"):
                            pass
                        else:
                            writers += 1
                            unknown = True
                        continue
                    pts = modref._param_types((ce.get("ref") or {}).get("t") if ce is not None and
                                              ce.get("k") == "DeclRefExpr" else None)
                    for i, a in enumerate(cir.args(x)):
                        rb = _resolved_base(a, f.node)
                        if rb is None and re.fullmatch(r"(mjtNum|double) ?\*", ((cir.strip(a) or {}).get("t") or "")) and \
                                not (i < len(pts) and modref._const_pointee(pts[i])) and _ptr_base(a) is not None:
                            # a pointer of unknown target handed to a writer: it may point into the member
                            writers += 1
                            unknown = True
                            continue
                        if rb != ("member", name) or "*" not in (cir.strip(a).get("t") or "*"):
                            continue
                        if i < len(pts) and modref._const_pointee(pts[i]):
                            continue
                        writers += 1
                        it = NormInterp(all_bodies)
                        target = Vec(None)
                        env = {"$t": target}
                        fake = {"k": "DeclRefExpr", "ref": {"id": "$t"}, "t": "mjtNum *"}
                        call = dict(x)
                        kids_ = list(cir.kids(x))
                        off = len(kids_) - len(cir.args(x))
                        kids_[off + i] = fake
                        call["i"] = kids_
                        it.depth = 1
                        it._call(call, env)
                        if target.norm is None:
                            unknown = True
                        else:
                            norms.append(target.norm)
                elif (x.get("k") == "BinaryOperator" and x.get("op") == "=") or x.get("k") == "CompoundAssignOperator":
                    l = cir.strip(cir.kids(x)[0])
                    if l is not None and l.get("k") in ("ArraySubscriptExpr", "CXXOperatorCallExpr", "UnaryOperator") and \
                            _resolved_base(l, f.node) == ("member", name):
                        writers += 1
                        unknown = True
        if writers and not unknown and norms:
            h = norms[0]
            for x in norms[1:]:
                h = h.hull(x)
            member_bound[name] = h
        return member_bound[name]

    def param_binding(f, idx, seen=()):
        """The member vector every call site binds parameter idx of f to (None: several / unknown)."""
        cs = sites.get(id(f.node)) or []
        got = set()
        for caller, call in cs:
            a = cir.args(call)
            if idx >= len(a):
                return None
            b = _resolved_base(a[idx], caller.node)
            if isinstance(b, tuple):
                got.add(b[1])
            elif b is not None and (b.get("ref") or {}).get("k") == "ParmVarDecl" and (caller.key, idx) not in seen:
                ps = cir.params(caller.node)
                j = next((i for i, p_ in enumerate(ps) if p_.get("id") == b["ref"].get("id")), None)
                r = param_binding(caller, j, seen + ((caller.key, idx),)) if j is not None else None
                if r is None:
                    return None
                got.add(r)
            else:
                return None
        return got.pop() if len(got) == 1 else None

    nsite = 0
    for f in cable.fns():
        if cir.body(f.node) is None:
            continue
        cands = []
        for x in cxx3.walk_outer(cir.body(f.node)):
            if x.get("k") == "BinaryOperator" and x.get("op") == "-":
                a, b = (cir.strip(y) for y in cir.kids(x))
                if a is not None and b is not None and a.get("k") == "ArraySubscriptExpr" and b.get("k") == "ArraySubscriptExpr":
                    ba, bb = _ptr_base(a), _ptr_base(b)
                    if ba is not None and bb is not None and not isinstance(ba, tuple) and not isinstance(bb, tuple):
                        cands.append((x, ba, bb))
        done = set()
        for x, ba, bb in cands:
            key = ((ba.get("ref") or {}).get("id"), (bb.get("ref") or {}).get("id"))
            if key in done:
                continue
            done.add(key)
            ps = cir.params(f.node)
            vals, names = [], {}
            for i, p_ in enumerate(ps):
                t = p_.get("t") or ""
                if "*" in t or "[" in t:
                    mname = param_binding(f, i)
                    names[p_.get("id")] = mname
                    vals.append(Vec(bound_of_member(mname)) if mname else Vec(None))
                else:
                    vals.append(None)
            it = NormInterp(all_bodies)
            try:
                it.run(f.node, vals, stop=x)
            except _Stop:
                pass
            env = it.snapshot
            if env is None:
                continue
            va, vb = env.get(key[0]), env.get(key[1])
            na = va.norm if isinstance(va, Vec) else None
            nb = vb.norm if isinstance(vb, Vec) else None
            good = [n_ for n_ in (na, nb) if n_ is not None and 0 < n_.hi < _INF]
            if not good:
                continue
            nsite += 1
            an, bn = (ba.get("ref") or {}).get("n"), (bb.get("ref") or {}).get("n")
            roles = []
            for nm, vid in ((an, key[0]), (bn, key[1])):
                roles.append(f"member {names[vid]}" if names.get(vid) else "local")
            c = f"{f.key}:difference:{roles[0].replace(' ', '-')}~{roles[1].replace(' ', '-')}"
            if len(good) == 1 or na is None or nb is None or not (na.hi < _INF and nb.hi < _INF):
                raise AnalysisError(f"{f.key} (line {x.get('line')}): `{cir.text(x)}` subtracts a bounded rotation vector and "
                                    f"a vector whose norm bound could not be evaluated ({an}: {na}, {bn}: {nb}) — cannot "
                                    f"decide whether the two are the same map of the orientation")
            if abs(na.hi - nb.hi) > 1e-9 and not (na.exact and nb.exact):
                raise AnalysisError(f"{f.key} (line {x.get('line')}): `{cir.text(x)}`: the norm bounds of the operands differ "
                                    f"({an}: {na}, {bn}: {nb}; ~ = over-approximated) but were not computed exactly — "
                                    f"cannot decide whether the two are the same map of the orientation")
            if abs(na.hi - nb.hi) > 1e-9:
                big, small = ((an, na), (bn, nb)) if na.hi > nb.hi else ((bn, nb), (an, na))
                res.bad("R-BOUNDS-AGREE", c, f.file, x.get("line"),
                        f"`{cir.text(x)}`: |{big[0]}| can reach {big[1].hi:.6g} but |{small[0]}| never exceeds "
                        f"{small[1].hi:.6g} ({roles[0]} / {roles[1]}): for an orientation whose rotation angle lies in "
                        f"({small[1].hi:.6g}, {big[1].hi:.6g}] the two rotation vectors cannot be equal, so the difference "
                        f"— the stress in the stress-free configuration — does not vanish")
            else:
                res.ok("R-BOUNDS-AGREE", c, {"sup_norm": round(na.hi, 9), "operands": [an, bn],
                                             "exact": bool(na.exact and nb.exact)})
    if not nsite:
        raise AnalysisError("no difference of a bounded rotation vector found in the cable plugin (anchor moved: the "
                            "curvature omega - omega0)")
    res.count("curvature_differences", nsite)


# ---------------------------------------------------------------------------------------------------------------
# R-STATELESS: the force-producing callbacks compute a function of the configuration
#
# A data member of the plugin object that a force-producing callback (compute, actuator_act_dot) writes is scratch
# storage of that call.  If the same closure reads an element of such a member that no write of the *same call* has
# produced yet, the value read is the one the previous call left behind: the force then depends on the call history
# (mjData's plugin_state / act are the documented state; members are not).  Demanded: every read of an element of a
# member the closure writes is dominated, in the same call, by a write of the same element — same member, same index
# (linear form with single-assignment locals substituted; pointers hoisted into locals are followed), on the
# straight-line path of the same loop iteration or earlier in the function.  A read that is not so dominated is examined
# against every write of that member in the closure: a write in the same loop whose element lies, for an ascending loop,
# at a larger index (or on another branch / after the read at the same index) cannot have happened yet in this call ->
# the read is stale -> VIOLATION; a write whose relation to the read cannot be decided (earlier loop, other function,
# smaller index, unresolved pointer) -> ANALYSIS-ERROR.

FORCE_SLOTS = ("compute", "actuator_act_dot")
_ACCUM = re.compile(r"(addTo|subFrom|AddTo|SubFrom|normalize)")
_ALL = ("*",)


class _MemberAccess:
    def __init__(self, kind, member, key, style, node, fk, seq, loops, guards, covered=None):
        self.kind, self.member, self.key, self.style, self.node, self.fk = kind, member, key, style, node, fk
        self.seq, self.loops, self.guards, self.covered = seq, loops, guards, covered


def _lf_key(form):
    return None if form is None else frozenset(form.items())


class _Stateless:
    """Member accesses of one function in evaluation order, with the set of elements certainly written so far."""

    def __init__(self, tu, f):
        self.tu, self.f = tu, f
        self.acc = []
        self.seq = 0
        self.loops = []
        self.guards = []
        self.atom_nodes = {}
        self.problems = []
        # single-assignment integer locals with a pure initialiser: substituted into index forms
        assigned = {}
        for x in cir.walk(f.node):
            k = x.get("k")
            if (k == "BinaryOperator" and x.get("op") == "=") or k == "CompoundAssignOperator" or \
                    (k == "UnaryOperator" and x.get("op") in ("++", "--")):
                l = cir.strip(cir.kids(x)[0])
                if l is not None and l.get("k") == "DeclRefExpr":
                    assigned[(l.get("ref") or {}).get("id")] = True
        self.defs = {}
        self.ptr_defs = {}
        for x in cir.walk(f.node):
            if x.get("k") == "VarDecl" and x.get("id") and x["id"] not in assigned:
                init = [c for c in cir.kids(x) if c is not None and not (c.get("k") or "").endswith("Attr")]
                if not init:
                    continue
                t = x.get("t") or ""
                if "*" in t:
                    self.ptr_defs[x["id"]] = init[-1]
                elif _is_int_t(t) and not any(cir.is_call(y) and y.get("k") != "CXXOperatorCallExpr" for y in cir.walk(init[-1])):
                    self.defs[x["id"]] = init[-1]
        self.reassigned_ptrs = {vid for vid in assigned}

    # ---- index forms
    def lin(self, e, depth=0):
        s = cir.strip(e)
        if s is None:
            return None
        k = s.get("k")
        if k == "IntegerLiteral":
            try:
                v = int(str(s.get("v")), 0)
            except ValueError:
                return None
            return {"1": v} if v else {}
        if k == "DeclRefExpr":
            r = s.get("ref") or {}
            if r.get("id") in self.defs and depth < 6:
                return self.lin(self.defs[r["id"]], depth + 1)
            a = f"{r.get('n')}#{r.get('id')}"
            self.atom_nodes[a] = s
            return {a: 1}
        if k == "UnaryOperator" and s.get("op") in ("-", "+"):
            f_ = self.lin(cir.kids(s)[0], depth)
            if f_ is None:
                return None
            return f_ if s["op"] == "+" else {t: -c for t, c in f_.items()}
        if k == "BinaryOperator" and s.get("op") in ("+", "-"):
            a, b = self.lin(cir.kids(s)[0], depth), self.lin(cir.kids(s)[1], depth)
            if a is None or b is None:
                return None
            return _lin_add(a, b, 1 if s["op"] == "+" else -1)
        if k == "BinaryOperator" and s.get("op") == "*":
            a, b = self.lin(cir.kids(s)[0], depth), self.lin(cir.kids(s)[1], depth)
            if a is None or b is None:
                return None
            for x, y in ((a, b), (b, a)):
                if set(x) <= {"1"}:
                    c = x.get("1", 0)
                    return {t: c * v for t, v in y.items() if c * v}
        ids = sorted({(y.get("ref") or {}).get("id") or "" for y in cir.walk(s) if y.get("k") == "DeclRefExpr" and
                      (y.get("ref") or {}).get("k") in ("VarDecl", "ParmVarDecl")})
        a = f"{cir.text(s)}@{','.join(ids)}"
        self.atom_nodes[a] = s
        return {a: 1}

    # ---- what an expression designates inside a member
    def ref(self, e, depth=0):
        """(member, offset form | None, style) with style 'whole' | 'block' | 'elem'; 'unknown' for a pointer whose
        target cannot be resolved but may be a member; None when the expression has nothing to do with a member."""
        s = cir.strip(e)
        if s is None or depth > 8:
            return None
        k = s.get("k")
        if k == "MemberExpr":
            b = cir.strip(cir.kids(s)[0]) if cir.kids(s) else None
            if b is not None and b.get("k") == "CXXThisExpr" and not (s.get("t") or "").startswith("<bound"):
                return (s.get("n"), {}, "whole")
            return None
        if k == "CXXOperatorCallExpr":
            c = cir.kids(s)
            fn = cir.strip(c[0]) if c else None
            if fn is not None and (fn.get("ref") or {}).get("n") == "operator[]" and len(c) >= 3:
                r = self.ref(c[1], depth + 1)
                if r and r != "unknown" and r[2] in ("whole", "block"):
                    return (r[0], _lin_add(r[1], self.lin(c[2]), 1) if self.lin(c[2]) is not None and r[1] is not None else None,
                            "elem")
            return None
        if k == "ArraySubscriptExpr":
            r = self.ref(cir.kids(s)[0], depth + 1)
            if r == "unknown":
                return r
            if r and r[2] in ("whole", "block"):
                i = self.lin(cir.kids(s)[1])
                return (r[0], _lin_add(r[1], i, 1) if i is not None and r[1] is not None else None, "elem")
            return None
        if k == "CXXMemberCallExpr":
            fn = cir.strip(cir.kids(s)[0])
            if fn is not None and fn.get("k") == "MemberExpr" and fn.get("n") in ("data", "begin") and cir.kids(fn):
                r = self.ref(cir.kids(fn)[0], depth + 1)
                if r and r != "unknown" and r[2] == "whole":
                    return (r[0], {}, "block")
            return None
        if k == "BinaryOperator" and s.get("op") in ("+", "-") and "*" in (s.get("t") or ""):
            a, b = cir.kids(s)
            pa = "*" in ((cir.strip(a) or {}).get("t") or "") or "[" in ((cir.strip(a) or {}).get("t") or "")
            p_, o = (a, b) if pa else (b, a)
            r = self.ref(p_, depth + 1)
            if r == "unknown":
                return r
            if r and r[2] in ("whole", "block"):
                i = self.lin(o)
                sign = 1 if (s["op"] == "+") else -1
                return (r[0], _lin_add(r[1], i, sign) if i is not None and r[1] is not None else None, "block")
            return None
        if k == "UnaryOperator" and s.get("op") == "&":
            r = self.ref(cir.kids(s)[0], depth + 1)
            if r and r != "unknown" and r[2] in ("elem", "whole"):
                return (r[0], r[1], "block")
            return r if r == "unknown" else None
        if k == "UnaryOperator" and s.get("op") == "*":
            r = self.ref(cir.kids(s)[0], depth + 1)
            if r and r != "unknown" and r[2] == "block":
                return (r[0], r[1], "elem")
            return r if r == "unknown" else None
        if k == "DeclRefExpr":
            r = s.get("ref") or {}
            if r.get("k") == "VarDecl" and "*" in (r.get("t") or ""):
                if r.get("id") in self.ptr_defs:
                    return self.ref(self.ptr_defs[r["id"]], depth + 1)
                # a pointer that is re-pointed: does any of its definitions point into a member?
                for x in cir.walk(self.f.node):
                    src = None
                    if x.get("k") == "VarDecl" and x.get("id") == r.get("id"):
                        init = [c for c in cir.kids(x) if c is not None]
                        src = init[-1] if init else None
                    elif x.get("k") == "BinaryOperator" and x.get("op") == "=" and \
                            _var_id(cir.kids(x)[0]) == r.get("id"):
                        src = cir.kids(x)[1]
                    if src is not None and any(y.get("k") == "CXXThisExpr" for y in cir.walk(src)):
                        return "unknown"
            return None
        if k == "ConditionalOperator":
            if any(y.get("k") == "CXXThisExpr" for y in cir.walk(s)) and "*" in (s.get("t") or ""):
                return "unknown"
        return None

    # ---- events
    def _emit(self, kind, r, node, W):
        member, form, style = r
        key = _lf_key(form) if style != "whole" else (_ALL if kind == "write" else frozenset())
        if style == "whole" and kind == "read":
            key = frozenset()
        covered = None
        if kind == "read":
            covered = (member, key) in W or (member, _ALL) in W or \
                (style == "whole" and (member, frozenset()) in W)
        self.seq += 1
        self.acc.append(_MemberAccess(kind, member, key, style, node, self.f.key, self.seq, tuple(self.loops),
                                      tuple(self.guards), covered))
        if kind == "write":
            W.add((member, key))
            if style == "whole":
                W.add((member, frozenset()))

    def _kill(self, vid, W):
        tag = f"#{vid}"
        for item in list(W):
            if item[1] not in (_ALL,) and any(tag in a or (("@" in a) and vid in a.split("@", 1)[1].split(",")) for a, _c in item[1]):
                W.discard(item)

    def _param_mode(self, call, i):
        """'in' | 'out' | 'inout' for argument i of a call that receives a pointer into a member."""
        ce = cir.callee_expr(call)
        name = cir.callee(call)
        pts = modref._param_types((ce.get("ref") or {}).get("t") if ce is not None and ce.get("k") == "DeclRefExpr" else None)
        if i < len(pts) and modref._const_pointee(pts[i]):
            return "in"
        info = cxx3.callee_info(call)
        tg = [g for g in (self.tu.resolver.targets(info, self.tu.rel, cxx3.call_nargs(call)) if info else [])
              if g.file == self.tu.rel and cir.body(g.node) is not None]
        if not tg:
            if i >= len(pts):
                return "inout"
            return "inout" if _ACCUM.search(name or "") else "out"
        modes = set()
        for g in tg:
            ps = cir.params(g.node)
            if i >= len(ps):
                return "inout"
            pid_ = ps[i].get("id")
            sub = _Stateless(self.tu, g)
            reads = writes = 0
            uses = [y for y in cir.walk(cir.body(g.node)) if y.get("k") == "DeclRefExpr" and (y.get("ref") or {}).get("id") == pid_]
            accounted = set()
            for c2 in cir.calls(cir.body(g.node)):
                for j, a in enumerate(cir.args(c2)):
                    sa = cir.strip(a)
                    if sa is not None and sa.get("k") == "DeclRefExpr" and (sa.get("ref") or {}).get("id") == pid_:
                        accounted.add(id(sa))
                        m2 = sub._param_mode(c2, j)
                        reads += m2 in ("in", "inout")
                        writes += m2 in ("out", "inout")
            for y in cir.walk(cir.body(g.node)):
                if y.get("k") == "BinaryOperator" and y.get("op") == "=":
                    l = cir.strip(cir.kids(y)[0])
                    if l is not None and l.get("k") == "ArraySubscriptExpr" and _var_id(cir.kids(l)[0]) == pid_:
                        accounted.add(id(cir.strip(cir.kids(l)[0])))
                        writes += 1
            if len(accounted) < len(uses):
                reads += 1
            modes.add("inout" if reads and writes else ("out" if writes else "in"))
        return modes.pop() if len(modes) == 1 else "inout"

    def expr(self, e, W, lvalue=False):
        s = cir.strip(e)
        if s is None:
            return
        k = s.get("k")
        if k == "LambdaExpr":
            return
        if k == "BinaryOperator" and s.get("op") == "=":
            a, b = cir.kids(s)
            self.expr(b, W)
            r = self.ref(a)
            if r == "unknown":
                self.problems.append((s.get("line"), "a value is stored through a pointer whose target (possibly a member) "
                                                     "could not be resolved"))
            elif r:
                self._index_reads(a, W)
                self._emit("write", r, s, W)
            else:
                l = cir.strip(a)
                if l is not None and l.get("k") == "DeclRefExpr":
                    self._kill((l.get("ref") or {}).get("id"), W)
                else:
                    self.expr(a, W)
            return
        if k == "CompoundAssignOperator" or (k == "UnaryOperator" and s.get("op") in ("++", "--")):
            a = cir.kids(s)[0]
            if k == "CompoundAssignOperator":
                self.expr(cir.kids(s)[1], W)
            r = self.ref(a)
            if r and r != "unknown":
                self._index_reads(a, W)
                self._emit("read", r, s, W)
                self._emit("write", r, s, W)
            else:
                l = cir.strip(a)
                if l is not None and l.get("k") == "DeclRefExpr":
                    self._kill((l.get("ref") or {}).get("id"), W)
                else:
                    self.expr(a, W)
            return
        if cir.is_call(s):
            self._call(s, W)
            return
        r = self.ref(s)
        if r == "unknown":
            return
        if r:
            if r[2] == "block" or (r[2] == "whole" and ("*" in (s.get("t") or "") or "vector" in (s.get("t") or "")
                                                      or "[" in (s.get("t") or ""))):
                return      # an address / the container itself: no element is read here
            self._index_reads(s, W)
            self._emit("read", r, s, W)
            return
        if k == "ConditionalOperator":
            c, a, b = cir.kids(s)
            self.expr(c, W)
            W1, W2 = set(W), set(W)
            self.guards.append((c, True))
            self.expr(a, W1)
            self.guards[-1] = (c, False)
            self.expr(b, W2)
            self.guards.pop()
            return
        if k == "BinaryOperator" and s.get("op") in ("&&", "||"):
            a, b = cir.kids(s)
            self.expr(a, W)
            self.expr(b, set(W))
            return
        for x in cir.kids(s):
            if x is not None and x.get("k") != "CompoundStmt":
                self.expr(x, W)

    def _index_reads(self, e, W):
        """Reads inside the index expressions of a member reference."""
        s = cir.strip(e)
        if s is None:
            return
        k = s.get("k")
        if k == "ArraySubscriptExpr":
            self._index_reads(cir.kids(s)[0], W)
            self.expr(cir.kids(s)[1], W)
        elif k == "CXXOperatorCallExpr" and len(cir.kids(s)) >= 3:
            self._index_reads(cir.kids(s)[1], W)
            self.expr(cir.kids(s)[2], W)
        elif k == "BinaryOperator":
            for x in cir.kids(s):
                if "*" in ((cir.strip(x) or {}).get("t") or ""):
                    self._index_reads(x, W)
                else:
                    self.expr(x, W)
        elif k == "UnaryOperator":
            self._index_reads(cir.kids(s)[0], W)

    def _call(self, s, W):
        c = cir.kids(s)
        fn = cir.strip(c[0]) if c else None
        # methods of a container member: (re)fill = write of everything; size()/data()/... touch no element
        if s.get("k") == "CXXMemberCallExpr" and fn is not None and fn.get("k") == "MemberExpr" and cir.kids(fn):
            r = self.ref(cir.kids(fn)[0])
            if r and r != "unknown" and r[2] == "whole":
                for a in c[1:]:
                    self.expr(a, W)
                m = fn.get("n")
                if m in ("assign", "resize", "clear", "fill"):
                    self._emit("write", (r[0], {}, "whole"), s, W)
                elif m in ("push_back", "emplace_back", "insert", "erase", "pop_back", "swap"):
                    self._emit("read", (r[0], {}, "whole"), s, W)
                    self._emit("write", (r[0], {}, "whole"), s, W)
                elif m in ("at", "front", "back"):
                    self.problems.append((s.get("line"), f"element access {r[0]}.{m}() is not interpreted"))
                return
        args = cir.args(s)
        if s.get("k") == "CXXOperatorCallExpr":
            r = self.ref(s)
            if r and r != "unknown":
                self._index_reads(s, W)
                self._emit("read", r, s, W)
                return
        pend = []
        for i, a in enumerate(args):
            r = self.ref(a)
            t = (cir.strip(a) or {}).get("t") or ""
            if r == "unknown":
                self.problems.append((s.get("line"), f"a pointer whose target (possibly a member) could not be resolved is "
                                                     f"handed to {cir.callee(s)}()"))
                continue
            if r and ("*" in t or "[" in t) and r[2] in ("block", "whole"):
                self._index_reads(a, W)
                mode = self._param_mode(s, i)
                blk = (r[0], r[1], "block")
                if mode in ("in", "inout"):
                    self._emit("read", blk, s, W)
                if mode in ("out", "inout"):
                    pend.append(blk)
            elif r and r[2] == "whole" and not _is_int_t(t) and not _is_flt_t(t):
                # the member object itself handed over (by reference): read (and possibly written) as a whole
                self._emit("read", (r[0], {}, "whole"), s, W)
            else:
                self.expr(a, W)
        if fn is not None and fn.get("k") == "MemberExpr" and cir.kids(fn):
            self.expr(cir.kids(fn)[0], W)
        for blk in pend:
            self._emit("write", blk, s, W)
        # a method of the plugin class called from here: its own direct member writes are writes at unknown elements
        info = cxx3.callee_info(s)
        for g in (self.tu.resolver.targets(info, self.tu.rel, cxx3.call_nargs(s)) if info else []):
            if g.file == self.tu.rel and g.qual and cir.body(g.node) is not None and g.node is not self.f.node:
                self.acc.append(_MemberAccess("call", g.key, None, None, s, self.f.key, self.seq, tuple(self.loops),
                                              tuple(self.guards)))

    # ---- statements: returns True when control does not continue after the statement
    def stmt(self, n, W):
        if n is None:
            return False
        k = n.get("k")
        if k == "CompoundStmt":
            g0 = len(self.guards)
            try:
                for st in cir.kids(n):
                    if self.stmt(st, W):
                        return True
                return False
            finally:
                del self.guards[g0:]        # guards contributed by early exits hold to the end of their block only
        if k == "DeclStmt":
            for v in cir.kids(n):
                if v is not None and v.get("k") == "VarDecl":
                    for c in cir.kids(v):
                        if c is not None and not (c.get("k") or "").endswith("Attr"):
                            if v.get("id") in self.ptr_defs and self.ref(c) not in (None,):
                                self._index_reads(c, W)
                            else:
                                self.expr(c, W)
            return False
        if k == "IfStmt":
            c = list(cir.kids(n))
            idx = (1 if n.get("hasInit") else 0) + (1 if n.get("hasVar") else 0)
            for pre in c[:idx]:
                self.stmt(pre, W)
            cond = c[idx]
            self.expr(cond, W)
            W1, W2 = set(W), set(W)
            self.guards.append((cond, True))
            t1 = self.stmt(c[idx + 1], W1) if len(c) > idx + 1 else False
            self.guards[-1] = (cond, False)
            t2 = self.stmt(c[idx + 2], W2) if len(c) > idx + 2 and c[idx + 2] is not None else False
            self.guards.pop()
            if t1 and t2:
                return True
            new = W2 if t1 else (W1 if t2 else (W1 & W2))
            W.clear()
            W |= new
            if t1 or t2:
                # what follows runs only when the other branch was taken: its condition guards the rest of the block
                self.guards.append((cond, bool(t2)))
            return False
        if k in ("ForStmt", "WhileStmt", "DoStmt", "CXXForRangeStmt"):
            c = list(cir.kids(n))
            if k == "ForStmt":
                c = c + [None] * 5
                if c[0] is not None:
                    self.stmt(c[0], W)
                parts = [c[2], c[4], c[3]]
            elif k == "WhileStmt":
                parts = [c[0] if len(c) > 1 else None, c[-1], None]
            elif k == "DoStmt":
                parts = [None, c[0], c[1] if len(c) > 1 else None]
            else:
                for pre in c[:-1]:
                    if pre is not None and pre.get("k") == "DeclStmt" and any(
                            (v.get("n") or "").startswith("__range") for v in cir.kids(pre) if v is not None):
                        self.stmt(pre, W)
                parts = [None, c[-1], None]
            for x in cir.walk(n):
                kk = x.get("k")
                if (kk == "BinaryOperator" and x.get("op") == "=") or kk == "CompoundAssignOperator" or \
                        (kk == "UnaryOperator" and x.get("op") in ("++", "--")):
                    l = cir.strip(cir.kids(x)[0])
                    if l is not None and l.get("k") == "DeclRefExpr":
                        self._kill((l.get("ref") or {}).get("id"), W)
            Wb = set(W)
            self.loops.append(n)
            depth_g = len(self.guards)
            if parts[0] is not None:
                self.expr(parts[0], Wb)
            body = parts[1]
            if body is not None:
                self.stmt(body, Wb)
            if parts[2] is not None:
                self.expr(parts[2], Wb)
            del self.guards[depth_g:]
            self.loops.pop()
            return False
        if k == "SwitchStmt":
            c = [x for x in cir.kids(n) if x is not None]
            self.expr(c[0], W)
            Ws = set(W)
            self._switch_body(c[-1], Ws)
            return False
        if k in ("CaseStmt", "DefaultStmt"):
            c = [x for x in cir.kids(n) if x is not None]
            return self.stmt(c[-1], W) if c else False
        if k == "ReturnStmt":
            for x in cir.kids(n):
                if x is not None:
                    self.expr(x, W)
            return True
        if k in ("BreakStmt", "ContinueStmt"):
            return True
        if k in ("NullStmt",):
            return False
        if k in ("AttributedStmt", "LabelStmt", "CXXTryStmt"):
            c = [x for x in cir.kids(n) if x is not None]
            return self.stmt(c[0] if k == "CXXTryStmt" else c[-1], W) if c else False
        self.expr(n, W)
        if cir.is_call(n) and cir.callee(n) in ("mju_error", "mju_error_i", "mju_error_s", "abort", "exit"):
            return True
        return False

    def _switch_body(self, body, W):
        # every case starts from the state before the switch; nothing written inside counts afterwards
        for st in (cir.kids(body) if body.get("k") == "CompoundStmt" else [body]):
            if st is None:
                continue
            self.stmt(st, set(W))

    def run(self):
        body = cir.body(self.f.node) if self.f.node.get("k") != "CompoundStmt" else self.f.node
        g0 = len(self.guards)
        self.stmt(body, set())
        del self.guards[g0:]
        return self


def _lin_add(a, b, k=1):
    if a is None or b is None:
        return None
    out = dict(a)
    for t, c in b.items():
        out[t] = out.get(t, 0) + k * c
        if out[t] == 0:
            del out[t]
    return out


def _loop_var_dir(loop):
    """(decl id, +1 | -1) of a counted loop, else None."""
    k = loop.get("k")
    if k == "ForStmt":
        c = list(cir.kids(loop)) + [None] * 5
        inc = cir.strip(c[3]) if c[3] is not None else None
        steps = [inc] if inc is not None else []
        scope = c[4]
    elif k == "WhileStmt":
        c = list(cir.kids(loop))
        scope = c[-1]
        cond_vars = {(y.get("ref") or {}).get("id") for y in cir.walk(c[0]) if y.get("k") == "DeclRefExpr"} if len(c) > 1 else set()
        steps = [y for y in cir.walk(scope) if
                 ((y.get("k") == "UnaryOperator" and y.get("op") in ("++", "--")) or y.get("k") == "CompoundAssignOperator")
                 and _var_id(cir.kids(y)[0]) in cond_vars]
        if len(steps) != 1:
            return None
    else:
        return None
    if len(steps) != 1:
        return None
    st = steps[0]
    vid = _var_id(cir.kids(st)[0])
    if vid is None:
        return None
    if st.get("k") == "UnaryOperator":
        d = 1 if st.get("op") == "++" else (-1 if st.get("op") == "--" else 0)
    elif st.get("k") == "CompoundAssignOperator" and st.get("op") in ("+=", "-="):
        v = cir.strip(cir.kids(st)[1])
        if v is None or v.get("k") != "IntegerLiteral":
            return None
        d = (1 if int(str(v.get("v")), 0) > 0 else -1) * (1 if st["op"] == "+=" else -1)
    else:
        return None
    # the variable must not be changed anywhere else in the loop
    others = [y for y in cir.walk(loop) if y is not st and
              ((y.get("k") == "BinaryOperator" and y.get("op") == "=") or y.get("k") == "CompoundAssignOperator" or
               (y.get("k") == "UnaryOperator" and y.get("op") in ("++", "--"))) and _var_id(cir.kids(y)[0]) == vid]
    if k == "ForStmt" and cir.kids(loop) and cir.kids(loop)[0] is not None:
        others = [y for y in others if not any(z is y for z in cir.walk(cir.kids(loop)[0]))]
    return (vid, d) if d and not others else None


def _int_member_values(tu, member, closure_written):
    """The set of integer values the elements of an int member can hold: all its writers in the TU store literals."""
    if member in closure_written:
        return None
    vals = set()

    def lits(e):
        s = cir.strip(e)
        if s is None:
            return None
        if s.get("k") == "IntegerLiteral":
            return {int(str(s.get("v")), 0)}
        if s.get("k") == "UnaryOperator" and s.get("op") in ("-", "+"):
            v = lits(cir.kids(s)[0])
            return None if v is None else ({-x for x in v} if s["op"] == "-" else v)
        if s.get("k") == "ConditionalOperator":
            a, b = lits(cir.kids(s)[1]), lits(cir.kids(s)[2])
            return None if a is None or b is None else a | b
        return None
    found = False
    for f in tu.fns():
        sub = _Stateless(tu, f)
        for x in cir.walk(f.node):
            if x.get("k") == "BinaryOperator" and x.get("op") == "=":
                r = sub.ref(cir.kids(x)[0])
                if r and r != "unknown" and r[0] == member:
                    v = lits(cir.kids(x)[1])
                    if v is None:
                        return None
                    vals |= v
                    found = True
            elif x.get("k") == "CompoundAssignOperator" or (x.get("k") == "UnaryOperator" and x.get("op") in ("++", "--")):
                r = sub.ref(cir.kids(x)[0])
                if r and r != "unknown" and r[0] == member:
                    return None
            elif x.get("k") == "CXXMemberCallExpr":
                fn = cir.strip(cir.kids(x)[0])
                if fn is not None and fn.get("k") == "MemberExpr" and cir.kids(fn):
                    r = sub.ref(cir.kids(fn)[0])
                    if r and r != "unknown" and r[0] == member and r[2] == "whole":
                        if fn.get("n") in ("assign", "resize"):
                            a = cir.args(x)
                            v = lits(a[1]) if len(a) > 1 else {0}
                            if v is None:
                                return None
                            vals |= v
                            found = True
                        elif fn.get("n") not in ("data", "size", "begin", "end", "empty"):
                            return None
            elif cir.is_call(x):
                for a in cir.args(x):
                    r = sub.ref(a)
                    if r and r != "unknown" and r[0] == member and "*" in ((cir.strip(a) or {}).get("t") or ""):
                        return None
    return vals if found else None


def stateless_rule(res, tus):
    res.rule("R-STATELESS", "force-producing callbacks (compute, actuator_act_dot): every element of a plugin data member "
             "the callback closure writes is written, in the same call, before the closure reads it (same member, same "
             "index, on the straight-line path of the loop iteration or earlier) — no value of a previous call reaches the "
             "force", floor=1)
    nobl = 0
    for plugin, cls in (("pid", "Pid"), ("cable", "Cable")):
        tu = tus[plugin]
        cbs = _callbacks(tu, tu.fn(cls, "RegisterPlugin"))
        for slot in FORCE_SLOTS:
            if slot not in cbs:
                continue
            kind, node, line = cbs[slot]
            if kind != "lambda":
                raise AnalysisError(f"{plugin}:{slot}: the force callback is not a lambda of RegisterPlugin (not interpreted)")
            # the closure: functions of the TU reachable from the lambda
            fns, todo, seen = [], [node], set()
            while todo:
                x = todo.pop()
                if id(x) in seen:
                    continue
                seen.add(id(x))
                for call in cir.calls(x):
                    info = cxx3.callee_info(call)
                    for g in (tu.resolver.targets(info, tu.rel, cxx3.call_nargs(call)) if info else []):
                        if g.file == tu.rel and cir.body(g.node) is not None and id(g.node) not in seen:
                            fns.append(g)
                            todo.append(g.node)
            uniq = {}
            for g in fns:
                uniq.setdefault(id(g.node), g)
            runs = [_Stateless(tu, g).run() for g in uniq.values() if g.qual == cls]
            for r in runs:
                if r.problems:
                    ln, msg = r.problems[0]
                    raise AnalysisError(f"{plugin}:{slot}: {r.f.key} (line {ln}): {msg}")
            acc = [a for r in runs for a in r.acc]
            written = {a.member for a in acc if a.kind == "write"}
            by_run = {r.f.key: r for r in runs}
            for member in sorted(written):
                reads = [a for a in acc if a.kind == "read" and a.member == member]
                writes = [a for a in acc if a.kind == "write" and a.member == member]
                groups = {}
                for a in reads:
                    groups.setdefault(a.fk, []).append(a)
                for fk, rs in sorted(groups.items()):
                    nobl += 1
                    fname = fk.split("::")[-1]
                    c = f"{plugin}:{fname}:{member}:read-before-write"
                    stale = None
                    for rd in rs:
                        if rd.covered:
                            continue
                        why = _stale_or_undecided(tu, by_run[fk], rd, writes, acc, written)
                        stale = stale or (rd, why)
                    if stale is None:
                        res.ok("R-STATELESS", c, {"reads": len(rs), "writes": len(writes)})
                    else:
                        rd, why = stale
                        res.bad("R-STATELESS", c, tu.rel, rd.node.get("line"),
                                f"{fk} (callback `{slot}`) reads {_acc_text(rd)} before this call has written it: {why} — the "
                                f"value is the one the previous call left in the member, so the force depends on the call "
                                f"history, not only on the configuration")
    if not nobl:
        raise AnalysisError("no force-producing callback writes and reads a data member of its plugin (anchor moved: "
                            "Cable::Compute keeps the joint stress in a member)")
    res.count("member_scratch_obligations", nobl)


def _acc_text(a):
    if a.style == "whole" or a.key in (None, _ALL) or a.key == frozenset():
        return f"member `{a.member}`" + (" (element index not evaluated)" if a.key is None else "")
    form = dict(a.key)
    txt = " + ".join((t.split("#")[0].split("@")[0] if c == 1 else f"{c}*{t.split('#')[0].split('@')[0]}") if t != "1" else str(c)
                     for t, c in sorted(form.items())) or "0"
    return f"`{a.member}` at offset {txt}"


def _stale_or_undecided(tu, run, rd, writes, acc, written):
    """For a read that no write of the same call dominates: the reason it is certainly stale (str), or AnalysisError
    when some write of the closure may have produced the element earlier in this call."""
    if rd.key is None:
        raise AnalysisError(f"{rd.fk} (line {rd.node.get('line')}): member `{rd.member}` is read at an index that could not be "
                            f"evaluated")
    for a in acc:
        if a.kind == "call" and any(w.fk == a.member for w in writes) and a.fk == rd.fk:
            raise AnalysisError(f"{rd.fk}: member `{rd.member}` is also written inside {a.member}, called from here — the "
                                f"order of that write and the read at line {rd.node.get('line')} is not evaluated")
    reasons = []
    for w in writes:
        if w.fk != rd.fk:
            raise AnalysisError(f"{rd.fk}: member `{rd.member}` is read at line {rd.node.get('line')} and written in {w.fk}: the "
                                f"order of the two functions inside the callback is not evaluated")
        common = None
        for la, lb in zip(rd.loops, w.loops):
            if la is lb:
                common = la
            else:
                break
        if w.key is None:
            raise AnalysisError(f"{rd.fk}: member `{rd.member}` is written at line {w.node.get('line')} at an index that could "
                                f"not be evaluated")
        if w.key == _ALL or rd.key == frozenset() or w.style == "whole" or rd.style == "whole":
            delta = {}
        else:
            delta = _lin_add(dict(rd.key), dict(w.key), -1)
        if common is None:
            if w.seq > rd.seq:
                continue                                    # written later in the call
            if delta and set(delta) <= {"1"} and w.style == rd.style and not w.loops and not rd.loops:
                continue                                    # another element, constant distance
            if not delta and not w.loops:
                reasons.append(f"the write at line {w.node.get('line')} is on another branch")
                continue
            raise AnalysisError(f"{rd.fk}: member `{rd.member}` is written at line {w.node.get('line')} (before the read at "
                                f"line {rd.node.get('line')}, in another loop or at an index whose relation to the read's "
                                f"cannot be decided) — cannot decide whether that write produced the element read")
        lv = _loop_var_dir(common)
        if not delta:
            reasons.append(f"the only write of that element in the loop (line {w.node.get('line')}) "
                           f"{'comes after the read' if w.seq > rd.seq else 'is on another branch'}")
            continue
        if w.style != rd.style:
            raise AnalysisError(f"{rd.fk}: member `{rd.member}` is written as a {w.style} (line {w.node.get('line')}) and read as "
                                f"a {rd.style} (line {rd.node.get('line')}) at different offsets — extents not evaluated")
        if lv is None:
            raise AnalysisError(f"{rd.fk}: the loop around lines {w.node.get('line')}/{rd.node.get('line')} is not a counted loop: "
                                f"cannot decide which iteration writes the element of `{rd.member}` that is read")
        vid, direction = lv
        wform = dict(w.key)
        rform = dict(rd.key)
        batoms = [t for t in set(wform) | set(rform) if t.endswith(f"#{vid}")]
        cb_w = sum(wform.get(t, 0) for t in batoms)
        cb_r = sum(rform.get(t, 0) for t in batoms)
        others = [t for t in set(wform) | set(rform) if t not in batoms and f"{vid}" in t.split("@")[-1].split(",")
                  and "@" in t and t not in delta]
        if cb_w != cb_r:
            raise AnalysisError(f"{rd.fk}: `{rd.member}` is written and read at indices that advance differently with the loop "
                                f"variable (lines {w.node.get('line')}/{rd.node.get('line')})")
        if cb_w == 0 and not others:
            continue        # different elements, both independent of the iteration
        lo, hi = _delta_range(tu, run, delta, rd, written)
        if lo is None:
            raise AnalysisError(f"{rd.fk}: the distance between the element of `{rd.member}` read at line "
                                f"{rd.node.get('line')} and the one written at line {w.node.get('line')} could not be "
                                f"bounded")
        # earlier iterations wrote w.key(b') with direction*(b' - b) < 0; they cover the read iff cb*(b'-b) == delta
        s = cb_w * direction
        if (s > 0 and lo > 0) or (s < 0 and hi < 0):
            reasons.append(f"its write (line {w.node.get('line')}) happens in a later iteration of the loop (the element "
                           f"read lies {lo if lo == hi else f'{lo}..{hi}'} {'ahead of' if s > 0 else 'behind'} the one written in this "
                           f"iteration)")
            continue
        raise AnalysisError(f"{rd.fk}: the element of `{rd.member}` read at line {rd.node.get('line')} may have been written by an "
                            f"earlier iteration (line {w.node.get('line')}): a recurrence over the member is not evaluated")
    return "; ".join(dict.fromkeys(reasons)) or "no write of this call precedes it"


def _delta_range(tu, run, delta, rd, written):
    """Integer range of a linear form whose atoms are elements of int members with literal value sets (guards of the
    read that test such an element for zero are applied)."""
    lo = hi = delta.get("1", 0)
    for atom, coef in delta.items():
        if atom == "1":
            continue
        node = run.atom_nodes.get(atom)
        r = run.ref(node) if node is not None else None
        if not r or r == "unknown":
            return None, None
        vals = _int_member_values(tu, r[0], written)
        if not vals:
            return None, None
        vals = set(vals)
        txt = cir.text(cir.strip(node))
        for cond, pol in rd.guards:
            for g, p in _cond_atoms(cond, pol):
                if cir.text(cir.strip(g)) == txt:
                    vals -= ({0} if p else (vals - {0}))
        if not vals:
            return None, None
        a, b = min(vals) * coef, max(vals) * coef
        lo, hi = lo + min(a, b), hi + max(a, b)
    return lo, hi


def _cond_atoms(cond, pol):
    s = cir.strip(cond)
    if s is None:
        return []
    if s.get("k") == "UnaryOperator" and s.get("op") == "!":
        return _cond_atoms(cir.kids(s)[0], not pol)
    if s.get("k") == "BinaryOperator" and s.get("op") == "&&" and pol:
        return _cond_atoms(cir.kids(s)[0], True) + _cond_atoms(cir.kids(s)[1], True)
    if s.get("k") == "BinaryOperator" and s.get("op") == "||" and not pol:
        return _cond_atoms(cir.kids(s)[0], False) + _cond_atoms(cir.kids(s)[1], False)
    if s.get("k") == "BinaryOperator" and s.get("op") in ("!=", "==") :
        a, b = (cir.strip(x) for x in cir.kids(s))
        for x, y in ((a, b), (b, a)):
            if y is not None and y.get("k") == "IntegerLiteral" and int(str(y.get("v")), 0) == 0:
                return [(x, pol if s["op"] == "!=" else not pol)]
        return []
    return [(s, pol)]


# ---------------------------------------------------------------------------------------------------------------


def run(res, tier):
    repo = cfront.REPO
    cfront.load_tus([PID_TU, CABLE_TU, ELAST_TU], repo, load=False)
    tus = {"pid": TU(PID_TU, repo), "cable": TU(CABLE_TU, repo), "elast": TU(ELAST_TU, repo)}
    res.count("tus", 3)
    res.count("functions", sum(len(t.fns()) for t in tus.values()))
    clip_rules(res, tus["pid"])
    table_rule(res, tus["pid"], repo, _callbacks(tus["pid"], tus["pid"].fn("Pid", "RegisterPlugin")))
    who_writes_rule(res, tus)
    indexdim_rule(res, tus, repo)
    bounds_rule(res, tus["cable"], repo)
    stateless_rule(res, tus)
    res.explanation = (
        "Static analysis of the PID and cable plugins from clang's typed AST. R-MUSTPASS: all-paths exploration (throw/"
        "return end a path) of the canonical view of each method (TU helper functions and lambdas expanded in place) "
        "with the optional's has_value() as a tracked predicate; the integral / setpoint is tracked as a value (copies, "
        "?:, helper results), the clip must be mju_clip of that value with the structurally matched bounds. R-SIBLING: "
        "alpha-normalised expression/guard text on the nested view. "
        "R-TABLE: abstract interpretation of the callbacks (linear forms over actuator_actadr/actnum, configuration "
        "predicates and dyntype enumerated); own-slot count and native slot derived from the accepting paths of "
        "Pid::Create and from mj_fwdActuation's native act_dot writes. R-BOUNDS-AGREE: interval interpretation of the "
        "code producing omega and omega0 (plugin + engine bodies), exactness tracked. R-WHO-WRITES: "
        "field-level mod events over the callback closure inside the TU. R-INDEXDIM: row dimensions from the X-macro "
        "tables, address arrays from MJMODEL_REFERENCES, index provenance through locals, parameters (all call sites) "
        "and loops.")
    res.not_decided = ("the arithmetic of the PID law; that the cable force vanishes in the stress-free configuration "
                       "beyond the agreement of the norm bounds of omega and omega0; the order of the plugin's own "
                       "activation slots; effects of engine functions called with the whole mjData beyond the listed ones.")
    res.assumptions = ["engine functions listed in ENGINE_EFFECTS have the stated effect on mjData",
                       "every caller of mj_initPlugin resets or overwrites mjData afterwards (read in engine_io.c, "
                       "user_model.cc)",
                       "leaf summaries of NormInterp: mju_normalize3 leaves a unit vector and returns a norm >= 0, "
                       "mju_scl3 scales the norm by |scl|, atan2(y >= 0, x) lies in [0, pi], mju_zero3 / mju_copy3",
                       "config_.X and the attribute PidConfig::FromModel stores into X are the same configuration value",
                       "R-STATELESS: a non-const pointer parameter that a callee only hands on to writers / assigns is an "
                       "out-parameter that the callee fills completely; blocks passed by pointer at different offsets "
                       "do not overlap"]


# ---------------------------------------------------------------------------------------------------------------
# self-test (thorough tier)

_ACTDOT_CLIP = ("      if (config_.i_max.has_value()) {\n        integral = mju_clip(integral, -*config_.i_max, *config_.i_max);\n"
                "      }\n      d->act_dot[state_idx] = (integral - d->act[state_idx]) / m->opt.timestep;")
_COMPUTE_CLIP = ("      if (config_.i_max.has_value()) {\n        integral =\n"
                 "            mju_clip(integral, -*config_.i_max, *config_.i_max);\n      }\n")
_GETSTATE_I = "  if (config_.i_gain) {\n    state.integral = d->act[state_idx++];\n  }\n"
_GETSTATE_S = ("  if (config_.slew_max.has_value()) {\n    state.previous_ctrl = d->act[state_idx++];\n"
               "    state.previous_ctrl_exists = d->time > 0;\n  }\n")
_FIX = [
    (PID_TU, "  for (int i = 0; i < m->nu; i++) {\n    if (m->actuator_plugin[i] == instance) {",
     "  for (int i = 0; i < m->nactuator; i++) {\n    if (m->actuator_plugin[i] == instance) {"),
    (PID_TU, "    ctrl = d->ctrl[actuator_idx];\n    // clamp ctrl\n    if (m->actuator_ctrllimited[actuator_idx]) {\n"
             "      ctrl = mju_clip(ctrl, m->actuator_ctrlrange[2 * actuator_idx],\n"
             "                      m->actuator_ctrlrange[2 * actuator_idx + 1]);",
     "    int ctrladr = m->actuator_ctrladr[actuator_idx];\n    ctrl = d->ctrl[ctrladr];\n    // clamp ctrl\n"
     "    if (m->actuator_ctrllimited[ctrladr]) {\n      ctrl = mju_clip(ctrl, m->actuator_ctrlrange[2 * ctrladr],\n"
     "                      m->actuator_ctrlrange[2 * ctrladr + 1]);"),
    (PID_TU, "    mjtNum error = ctrl - d->actuator_length[actuator_idx];\n\n    int state_idx",
     "    mjtNum error = ctrl - d->actuator_length[m->actuator_outadr[actuator_idx]];\n\n    int state_idx"),
    (PID_TU, "    mjtNum error = ctrl - d->actuator_length[actuator_idx];\n\n    mjtNum ctrl_dot",
     "    int outadr = m->actuator_outadr[actuator_idx];\n    mjtNum error = ctrl - d->actuator_length[outadr];\n\n"
     "    mjtNum ctrl_dot"),
    (PID_TU, "ctrl_dot - d->actuator_velocity[actuator_idx];", "ctrl_dot - d->actuator_velocity[outadr];"),
    (PID_TU, "    d->actuator_force[actuator_idx] = config_.p_gain", "    d->actuator_force[outadr] = config_.p_gain"),
]

MUTANTS = [
    # ---- group A (must fire)
    {"id": "drop-integral-clip-actdot", "group": "A", "expect": ("R-MUSTPASS", "Pid::ActDot:integral-clip"),
     "edits": [(PID_TU, _ACTDOT_CLIP,
                "      d->act_dot[state_idx] = (integral - d->act[state_idx]) / m->opt.timestep;")]},
    {"id": "drop-slew-clip", "group": "A", "expect": ("R-MUSTPASS", "Pid::GetCtrl:slew-limit"),
     "edits": [(PID_TU, "    ctrl = mju_clip(ctrl, ctrl_min, ctrl_max);\n", "")]},
    {"id": "swap-state-slots", "group": "A", "expect": ("R-TABLE", "pid:state-slot:"),
     "edits": [(PID_TU, _GETSTATE_I + _GETSTATE_S, _GETSTATE_S + _GETSTATE_I)]},
    {"id": "cable-writes-qpos", "group": "A", "expect": ("R-WHO-WRITES", "cable:compute:mjData.qpos"),
     "edits": [(CABLE_TU, "    // elastic forces\n    mjtNum quat[4] = {0};", "    d->qpos[0] = 0;\n    // elastic forces\n    mjtNum quat[4] = {0};")]},
    # ---- group B (must fire)
    {"id": "clip-bounds-wrong-compute", "group": "B", "expect": ("R-MUSTPASS", "Pid::Compute:integral-clip"),
     "edits": [(PID_TU, "            mju_clip(integral, -*config_.i_max, *config_.i_max);",
                "            mju_clip(integral, 0, *config_.i_max);")]},
    {"id": "slew-bound-wrong", "group": "B", "expect": ("R-MUSTPASS", "Pid::GetCtrl:slew-limit"),
     "edits": [(PID_TU, "mjtNum ctrl_max = state.previous_ctrl + *config_.slew_max * m->opt.timestep;",
                "mjtNum ctrl_max = state.previous_ctrl + *config_.slew_max;")]},
    {"id": "pid-compute-writes-act", "group": "B", "expect": ("R-WHO-WRITES", "pid:compute:mjData.act"),
     "edits": [(PID_TU, "    mjtNum error_dot = ctrl_dot", "    d->act[0] = ctrl;\n    mjtNum error_dot = ctrl_dot")]},
    {"id": "state-index-by-actuator-id", "group": "B", "expect": ("R-INDEXDIM", "Pid::ActDot:act_dot"),
     "edits": [(PID_TU, "    int state_idx = m->actuator_actadr[actuator_idx];\n    if (config_.i_gain) {\n      mjtNum integral",
                "    int state_idx = actuator_idx;\n    if (config_.i_gain) {\n      mjtNum integral")]},
    # ---- group C (must fire)
    {"id": "sibling-expression-differs", "group": "C", "expect": ("R-SIBLING", "integral"),
     "edits": [(PID_TU, "      integral = state.integral + error * m->opt.timestep;", "      integral = state.integral + error;")]},
    {"id": "slot-without-step", "group": "C", "expect": ("R-TABLE", "pid:state-slot:"),
     "edits": [(PID_TU, "/ m->opt.timestep;\n      ++state_idx;\n    }\n    if (config_.slew_max.has_value()) {",
                "/ m->opt.timestep;\n    }\n    if (config_.slew_max.has_value()) {")]},
    {"id": "drop-integral-clip-compute", "group": "C", "expect": ("R-MUSTPASS", "Pid::Compute:integral-clip"),
     "edits": [(PID_TU, _COMPUTE_CLIP, "")]},
    {"id": "cable-visualize-writes-xpos", "group": "C", "expect": ("R-WHO-WRITES", "cable:visualize:mjData.xpos"),
     "edits": [(CABLE_TU, "    // set geometry color based on stress norm\n", "    d->xpos[3*i] = 0;\n    // set geometry color based on stress norm\n")]},
    # ---- group D (controls: behaviour-preserving)
    {"id": "rename-integral-local", "group": "D", "expect": None,
     "edits": [(PID_TU, "      mjtNum integral = state.integral + error * m->opt.timestep;\n" + _ACTDOT_CLIP,
                "      mjtNum accum = state.integral + error * m->opt.timestep;\n"
                "      if (config_.i_max.has_value()) {\n        accum = mju_clip(accum, -*config_.i_max, *config_.i_max);\n"
                "      }\n      d->act_dot[state_idx] = (accum - d->act[state_idx]) / m->opt.timestep;")]},
    {"id": "rename-slew-locals", "group": "D", "expect": None,
     "edits": [(PID_TU, "ctrl_min", "lo", 5), (PID_TU, "ctrl_max", "hi", 5)]},
    {"id": "reorder-independent", "group": "D", "expect": None,
     "edits": [(PID_TU, "    mjtNum error = ctrl - d->actuator_length[m->actuator_outadr[actuator_idx]];\n\n    int state_idx = m->actuator_actadr[actuator_idx];\n",
                "    int state_idx = m->actuator_actadr[actuator_idx];\n\n    mjtNum error = ctrl - d->actuator_length[m->actuator_outadr[actuator_idx]];\n")]},
    {"id": "extract-clip-helper", "group": "F", "expect": None,
     "edits": [(PID_TU, "void Pid::ActDot(const mjModel* m, mjData* d, int instance) const {",
                "static mjtNum ClipIntegral(const PidConfig& config, mjtNum x) {\n"
                "  if (config.i_max.has_value()) {\n    return mju_clip(x, -*config.i_max, *config.i_max);\n  }\n  return x;\n}\n\n"
                "void Pid::ActDot(const mjModel* m, mjData* d, int instance) const {"),
               (PID_TU, "      mjtNum integral = state.integral + error * m->opt.timestep;\n" + _ACTDOT_CLIP,
                "      mjtNum integral = state.integral + error * m->opt.timestep;\n"
                "      integral = ClipIntegral(config_, integral);\n"
                "      d->act_dot[state_idx] = (integral - d->act[state_idx]) / m->opt.timestep;"),
               (PID_TU, _COMPUTE_CLIP, "      integral = ClipIntegral(config_, integral);\n")]},
    # ---- group E: the proposed fix of the index-space defect makes exactly those reports disappear
    {"id": "fix-index-spaces", "group": "E", "expect": None, "fixes": [("R-INDEXDIM", "Pid::")], "edits": _FIX},
]


_FIX_HELPER = list(_FIX[:-1]) + [
    (PID_TU, "    d->actuator_force[actuator_idx] = config_.p_gain", "    d->actuator_force[OutAdr(m, actuator_idx)] = config_.p_gain"),
    (PID_TU, "void Pid::Compute(const mjModel* m, mjData* d, int instance) {",
     "static int OutAdr(const mjModel* m, int id) {\n  return m->actuator_outadr[id];\n}\n\n"
     "void Pid::Compute(const mjModel* m, mjData* d, int instance) {"),
]
MUTANTS.append({"id": "fix-index-spaces-through-helper", "group": "G", "expect": None,
                "fixes": [("R-INDEXDIM", "Pid::")], "edits": _FIX_HELPER})


# ---- shapes of behaviour-preserving refactorings (controls, group H) and the same shapes hiding a defect (group I)
_ACTDOT_BLOCK = "      mjtNum integral = state.integral + error * m->opt.timestep;\n" + _ACTDOT_CLIP
_COMPUTE_BLOCK = "      integral = state.integral + error * m->opt.timestep;\n" + _COMPUTE_CLIP
_ACTDOT_HEAD = "void Pid::ActDot(const mjModel* m, mjData* d, int instance) const {"
_INTEGRATE = ("static mjtNum IntegrateError(const PidConfig& config, mjtNum previous_integral,\n"
              "                             mjtNum error, mjtNum timestep) {\n"
              "  mjtNum integral = previous_integral + error * timestep;\n%s  return integral;\n}\n\n")
_INTEGRATE_CLIP = ("  if (config.i_max.has_value()) {\n    integral = mju_clip(integral, -*config.i_max, *config.i_max);\n"
                   "  }\n")
_ACTDOT_CALL = ("      mjtNum integral =\n          IntegrateError(config_, state.integral, error, m->opt.timestep);\n"
                "      d->act_dot[state_idx] = (integral - d->act[state_idx]) / m->opt.timestep;")
_COMPUTE_CALL = "      integral = IntegrateError(config_, state.integral, error, m->opt.timestep);\n"
_SLEW = ("  if (config_.slew_max.has_value() && state.previous_ctrl_exists) {\n"
         "    mjtNum ctrl_min = state.previous_ctrl - *config_.slew_max * m->opt.timestep;\n"
         "    mjtNum ctrl_max = state.previous_ctrl + *config_.slew_max * m->opt.timestep;\n"
         "    ctrl = mju_clip(ctrl, ctrl_min, ctrl_max);\n  }\n  return ctrl;\n}")
_SLEW_EARLY = ("  if (!config_.slew_max.has_value() || !state.previous_ctrl_exists) {\n    return ctrl;\n  }\n"
               "  mjtNum ctrl_min = state.previous_ctrl - *config_.slew_max * m->opt.timestep;\n"
               "  mjtNum ctrl_max = state.previous_ctrl + *config_.slew_max * m->opt.timestep;\n"
               "  return mju_clip(ctrl, ctrl_min, %s);\n}")
MUTANTS += [
    # the integral is computed and clipped in a helper in ActDot and by a conditional expression in Compute
    {"id": "integrate-through-helper-and-ternary", "group": "H", "expect": None,
     "edits": [(PID_TU, _ACTDOT_HEAD, _INTEGRATE % _INTEGRATE_CLIP + _ACTDOT_HEAD),
               (PID_TU, _ACTDOT_BLOCK, _ACTDOT_CALL),
               (PID_TU, _COMPUTE_CLIP,
                "      integral = config_.i_max.has_value()\n"
                "                     ? mju_clip(integral, -*config_.i_max, *config_.i_max)\n                     : integral;\n")]},
    {"id": "slew-early-return-clip-in-return", "group": "H", "expect": None,
     "edits": [(PID_TU, _SLEW, _SLEW_EARLY % "ctrl_max")]},
    {"id": "compute-range-for", "group": "H", "expect": None,
     "edits": [(PID_TU, "  for (int i = 0; i < actuators_.size(); i++) {\n    int actuator_idx = actuators_[i];\n"
                        "    State state = GetState(m, d, actuator_idx);\n    mjtNum ctrl =\n",
                "  for (int actuator_idx : actuators_) {\n    State state = GetState(m, d, actuator_idx);\n"
                "    mjtNum ctrl =\n")]},
    # both methods integrate through one helper (the D-p11 shape)
    {"id": "integrate-through-helper-both", "group": "J", "expect": None,
     "edits": [(PID_TU, _ACTDOT_HEAD, _INTEGRATE % _INTEGRATE_CLIP + _ACTDOT_HEAD),
               (PID_TU, _ACTDOT_BLOCK, _ACTDOT_CALL), (PID_TU, _COMPUTE_BLOCK, _COMPUTE_CALL)]},
    # the helper forgets the clip: both callers use the raw integral
    {"id": "integrate-helper-without-clip", "group": "I", "expect": ("R-MUSTPASS", "Pid::ActDot:integral-clip"),
     "edits": [(PID_TU, _ACTDOT_HEAD, _INTEGRATE % "" + _ACTDOT_HEAD),
               (PID_TU, _ACTDOT_BLOCK, _ACTDOT_CALL), (PID_TU, _COMPUTE_BLOCK, _COMPUTE_CALL)]},
    {"id": "slew-return-clip-wrong-bound", "group": "I", "expect": ("R-MUSTPASS", "Pid::GetCtrl:slew-limit"),
     "edits": [(PID_TU, _SLEW, _SLEW_EARLY % "ctrl_min")]},
]


# ---- the activation-slot layout (R-TABLE): the stored seed C51-pid-slew-slot-alias and equivalent reshapes of the
#      index arithmetic (helpers, locals, State fields instead of d->act re-reads) as controls
_HASSLEW = ("bool HasSlew(const mjModel* m, int instance) {\n"
            "  return ReadOptionalDoubleAttr(m, instance, kAttrSlewMax).has_value();\n}\n")
_GETSTATE_HEAD = "  State state;\n  int state_idx = m->actuator_actadr[actuator_idx];\n"
_ACTDOT_IDX = "    int state_idx = m->actuator_actadr[actuator_idx];\n    if (config_.i_gain) {\n      mjtNum integral"
_ACTDOT_I_WRITE = ("      d->act_dot[state_idx] = (integral - d->act[state_idx]) / m->opt.timestep;\n"
                   "      ++state_idx;\n")
_ACTDOT_S_WRITE = ("      d->act_dot[state_idx] = (ctrl - d->act[state_idx]) / m->opt.timestep;\n"
                   "      ++state_idx;\n")
_ADR_HELPERS_LAST = ("\nint IntegralAdr(const mjModel* m, int actuator_id) {\n  return m->actuator_actadr[actuator_id];\n}\n"
                     "\nint SlewAdr(const mjModel* m, int actuator_id) {\n"
                     "  return m->actuator_actadr[actuator_id] + m->actuator_actnum[actuator_id] - 1;\n}\n")
_ADR_HELPERS_OK = ("\nint IntegralAdr(const mjModel* m, int actuator_id) {\n  return m->actuator_actadr[actuator_id];\n}\n"
                   "\nint SlewAdr(const PidConfig& config, const mjModel* m, int actuator_id) {\n"
                   "  int adr = IntegralAdr(m, actuator_id);\n  if (config.i_gain) {\n    adr++;\n  }\n  return adr;\n}\n")
_OWN1 = "m->actuator_actadr[actuator_idx] + 1"
MUTANTS += [
    # the stored seed: the slew state moved to the LAST slot of the block (the native slot when dyntype != none)
    {"id": "slew-state-in-last-slot", "group": "K", "expect": ("R-TABLE", "pid:state-slot:previous_ctrl"),
     "edits": [(PID_TU, _HASSLEW, _HASSLEW + _ADR_HELPERS_LAST),
               (PID_TU, _GETSTATE_HEAD, "  State state;\n"),
               (PID_TU, "    state.integral = d->act[state_idx++];", "    state.integral = d->act[IntegralAdr(m, actuator_idx)];"),
               (PID_TU, "    state.previous_ctrl = d->act[state_idx++];",
                "    state.previous_ctrl = d->act[SlewAdr(m, actuator_idx)];"),
               (PID_TU, _ACTDOT_IDX, "    if (config_.i_gain) {\n      mjtNum integral"),
               (PID_TU, _ACTDOT_I_WRITE,
                "      d->act_dot[IntegralAdr(m, actuator_idx)] = (integral - state.integral) / m->opt.timestep;\n"),
               (PID_TU, _ACTDOT_S_WRITE,
                "      d->act_dot[SlewAdr(m, actuator_idx)] = (ctrl - state.previous_ctrl) / m->opt.timestep;\n")]},
    # the same reshapes with the documented layout: helper with a running local and an early-exit free body in GetState,
    # named locals and State fields in ActDot
    {"id": "slot-helpers-in-getstate", "group": "L", "expect": None,
     "edits": [(PID_TU, _HASSLEW, _HASSLEW + _ADR_HELPERS_OK),
               (PID_TU, _GETSTATE_HEAD, "  State state;\n"),
               (PID_TU, "    state.integral = d->act[state_idx++];", "    state.integral = d->act[IntegralAdr(m, actuator_idx)];"),
               (PID_TU, "    state.previous_ctrl = d->act[state_idx++];",
                "    state.previous_ctrl = d->act[SlewAdr(config_, m, actuator_idx)];")]},
    {"id": "slot-locals-in-actdot", "group": "L", "expect": None,
     "edits": [(PID_TU, _ACTDOT_IDX,
                "    const int integral_adr = m->actuator_actadr[actuator_idx];\n"
                "    const int slew_adr = config_.i_gain ? integral_adr + 1 : integral_adr;\n"
                "    if (config_.i_gain) {\n      mjtNum integral"),
               (PID_TU, _ACTDOT_I_WRITE,
                "      d->act_dot[integral_adr] = (integral - state.integral) / m->opt.timestep;\n"),
               (PID_TU, _ACTDOT_S_WRITE,
                "      d->act_dot[slew_adr] = (ctrl - state.previous_ctrl) / m->opt.timestep;\n")]},
    # the slew state at a fixed offset 1: outside the own slots when the integral state is disabled
    {"id": "slew-state-at-fixed-offset", "group": "M", "expect": ("R-TABLE", "pid:state-slot:previous_ctrl"),
     "edits": [(PID_TU, "    state.previous_ctrl = d->act[state_idx++];", f"    state.previous_ctrl = d->act[{_OWN1}];"),
               (PID_TU, _ACTDOT_S_WRITE,
                f"      d->act_dot[{_OWN1}] = (ctrl - d->act[{_OWN1}]) / m->opt.timestep;\n")]},
]


# ---- the cable's curvature difference (R-BOUNDS-AGREE): the stored seed C51-cable-curvature-unwrapped, and equivalent
#      hand-written rotation vectors as controls
_QUAT2VEL = "  mjtNum omega[3];\n\n  // compute curvature\n  mju_quat2Vel(omega, quat, 1.0);\n"
MUTANTS += [
    {"id": "cable-curvature-unwrapped", "group": "K", "expect": ("R-BOUNDS-AGREE", "LocalStress:difference"),
     "edits": [(CABLE_TU, _QUAT2VEL,
                "  mjtNum omega[3] = {quat[1], quat[2], quat[3]};\n  mjtNum sin_a_2 = mju_normalize3(omega);\n"
                "  mju_scl3(omega, omega, 2 * mju_atan2(sin_a_2, quat[0]));\n")]},
    {"id": "cable-curvature-double-rate", "group": "M", "expect": ("R-BOUNDS-AGREE", "LocalStress:difference"),
     "edits": [(CABLE_TU, "  mju_quat2Vel(omega, quat, 1.0);\n", "  mju_quat2Vel(omega, quat, 0.5);\n")]},
    # the same map written out by hand, with the wrap as a mirrored comparison and a plain assignment
    {"id": "cable-curvature-by-hand-wrapped", "group": "L", "expect": None,
     "edits": [(CABLE_TU, _QUAT2VEL,
                "  mjtNum omega[3] = {quat[1], quat[2], quat[3]};\n  mjtNum sin_half = mju_normalize3(omega);\n"
                "  mjtNum angle = 2 * mju_atan2(sin_half, quat[0]);\n  if (mjPI < angle) {\n    angle = angle - 2*mjPI;\n  }\n"
                "  mju_scl3(omega, omega, angle);\n")]},
    # ... and through the q / -q flip instead of the wrap
    {"id": "cable-curvature-by-hand-flipped", "group": "H", "expect": None,
     "edits": [(CABLE_TU, _QUAT2VEL,
                "  mjtNum w = quat[0];\n  mjtNum omega[3] = {quat[1], quat[2], quat[3]};\n"
                "  mjtNum s = mju_normalize3(omega);\n  mjtNum sign = 1;\n  if (w < 0) { w = -w; sign = -1; }\n"
                "  mju_scl3(omega, omega, sign * 2 * mju_atan2(s, w));\n")]},
]


# ---- the setpoint slot (R-TABLE pid:setpoint-slot:*): Pid::Create as it was before the dyntype whitelist, and the
#      half-way repair that grants the native slot to every dyntype but none
_CREATE_NATIVE = ("    if (dyntype == mjDYN_FILTER || dyntype == mjDYN_FILTEREXACT ||\n"
                  "        dyntype == mjDYN_INTEGRATOR || dyntype == mjDYN_MUSCLE) {\n      expected_actnum++;\n"
                  "    } else if (dyntype != mjDYN_NONE) {\n"
                  "      mju_warning(\"actuator %d: dyntype %d is not supported by the pid plugin\",\n"
                  "                  actuator_id, dyntype);\n      return nullptr;\n    }\n")
MUTANTS += [
    {"id": "create-three-native-dyntypes-rest-accepted", "group": "N",
     "expect": ("R-TABLE", "pid:setpoint-slot:mjDYN_MUSCLE"),
     "edits": [(PID_TU, _CREATE_NATIVE,
                "    if (dyntype == mjDYN_FILTER || dyntype == mjDYN_FILTEREXACT ||\n"
                "        dyntype == mjDYN_INTEGRATOR) {\n      expected_actnum++;\n    }\n")]},
    {"id": "create-native-slot-for-every-dyntype", "group": "O", "expect": ("R-TABLE", "pid:setpoint-slot:mjDYN_PID"),
     "edits": [(PID_TU, _CREATE_NATIVE, "    if (dyntype != mjDYN_NONE) {\n      expected_actnum++;\n    }\n")]},
]


# ---- the difference inside a per-component loop, the reference curvature filled through a local pointer (F-p10 shapes)
_TMP_INIT = ("  mjtNum tmp[] = {\n      - stiffness[0]*(omega[0] - omega0[0]) / stiffness[3],\n"
             "      - stiffness[1]*(omega[1] - omega0[1]) / stiffness[3],\n"
             "      - stiffness[2]*(omega[2] - omega0[2]) / stiffness[3],\n  };\n")
_TMP_LOOP = ("  mjtNum tmp[3];\n  for (int k = 0; k < 3; k++) {\n"
             "    tmp[k] = - stiffness[k]*(omega[k] - omega0[k]) / stiffness[3];\n  }\n")
_OMEGA0_FILL = ("      int qadr = m->jnt_qposadr[m->body_jntadr[i]] + m->body_dofnum[i]-3;\n"
                "      mju_subQuat(omega0.data()+3*b, m->body_quat+4*i, d->qpos+qadr);\n"
                "    } else {\n      mju_zero3(omega0.data()+3*b);\n    }\n")
_OMEGA0_FILL_PTR = ("      int qadr = m->jnt_qposadr[m->body_jntadr[i]] + m->body_dofnum[i]-3;\n"
                    "      mjtNum* omega0_b = omega0.data()+3*b;\n"
                    "      mju_subQuat(omega0_b, m->body_quat+4*i, d->qpos+qadr);\n"
                    "    } else {\n      mjtNum* omega0_b = omega0.data()+3*b;\n      mju_zero3(omega0_b);\n    }\n")
MUTANTS += [
    {"id": "cable-difference-in-component-loop", "group": "J", "expect": None,
     "edits": [(CABLE_TU, _TMP_INIT, _TMP_LOOP), (CABLE_TU, _OMEGA0_FILL, _OMEGA0_FILL_PTR)]},
    {"id": "cable-curvature-unwrapped-difference-in-loop", "group": "N", "expect": ("R-BOUNDS-AGREE", "LocalStress:difference"),
     "edits": [(CABLE_TU, _TMP_INIT, _TMP_LOOP), (CABLE_TU, _OMEGA0_FILL, _OMEGA0_FILL_PTR),
               (CABLE_TU, _QUAT2VEL,
                "  mjtNum omega[3] = {quat[1], quat[2], quat[3]};\n  mjtNum sin_a_2 = mju_normalize3(omega);\n"
                "  mju_scl3(omega, omega, 2 * mju_atan2(sin_a_2, quat[0]));\n")]},
]


# ---- R-STATELESS: scratch members of the force callbacks
PID_H = "plugin/actuator/pid.h"
_PREV_BLOCK = ("      LocalStress(stress.data() + 3 * b, stiffness.data() + 4 * b, quat,\n"
               "                  omega0.data() + 3 * b, true);\n"
               "      mju_addToScl3(lfrc, stress.data() + 3 * b, 1.0);\n")
_NEXT_BLOCK = ("      LocalStress(stress.data() + 3 * bn, stiffness.data() + 4 * bn, quat,\n"
               "                  omega0.data() + 3 * bn);\n"
               "      mju_addToScl3(lfrc, stress.data() + 3 * bn, -1.0);\n")
MUTANTS += [
    # the stored seed C51-cable-lagged-joint-stress: the joint stress is evaluated once, in the child's iteration; the
    # parent's (earlier) iteration reads what the previous call left in the member
    {"id": "cable-lagged-joint-stress", "group": "P", "expect": ("R-STATELESS", "cable:Compute:stress:read-before-write"),
     "edits": [(CABLE_TU, _PREV_BLOCK,
                "      LocalStress(stress.data() + 3 * b, stiffness.data() + 4 * b, quat,\n"
                "                  omega0.data() + 3 * b);\n"
                "      mjtNum invquat[4], pulled[3];\n      mju_negQuat(invquat, quat);\n"
                "      mju_rotVecQuat(pulled, stress.data() + 3 * b, invquat);\n"
                "      mju_addToScl3(lfrc, pulled, 1.0);\n"),
               (CABLE_TU, _NEXT_BLOCK, "      mju_addToScl3(lfrc, stress.data() + 3 * bn, -1.0);\n")]},
    # PID: the previous error cached in a member, read at the start of an actuator's turn and written at its end
    {"id": "pid-error-cached-in-member", "group": "P", "expect": ("R-STATELESS", "pid:ActDot:last_error_:read-before-write"),
     "edits": [(PID_H, "  std::vector<int> actuators_;\n", "  std::vector<int> actuators_;\n  mutable mjtNum last_error_ = 0;\n"),
               (PID_TU, "    mjtNum error = ctrl - d->actuator_length[m->actuator_outadr[actuator_idx]];\n\n    int state_idx",
                "    mjtNum error = ctrl - d->actuator_length[m->actuator_outadr[actuator_idx]];\n"
                "    error = 0.5 * (error + last_error_);\n    last_error_ = error;\n\n    int state_idx")]},
    # the contribution of the next joint is accumulated before LocalStress has evaluated it
    {"id": "cable-stress-read-before-evaluated", "group": "Q", "expect": ("R-STATELESS", "cable:Compute:stress:read-before-write"),
     "edits": [(CABLE_TU, _NEXT_BLOCK,
                "      mju_addToScl3(lfrc, stress.data() + 3 * bn, -1.0);\n"
                "      LocalStress(stress.data() + 3 * bn, stiffness.data() + 4 * bn, quat,\n"
                "                  omega0.data() + 3 * bn);\n")]},
    # controls: the element pointer hoisted into a local (written and read through it); a local temporary that is copied
    # into the member afterwards
    {"id": "cable-stress-pointer-hoisted", "group": "L", "expect": None,
     "edits": [(CABLE_TU, _PREV_BLOCK,
                "      mjtNum* s = stress.data() + 3 * b;\n"
                "      LocalStress(s, stiffness.data() + 4 * b, quat, omega0.data() + 3 * b, true);\n"
                "      mju_addToScl3(lfrc, s, 1.0);\n")]},
    {"id": "cable-stress-through-local-temporary", "group": "L", "expect": None,
     "edits": [(CABLE_TU, _NEXT_BLOCK,
                "      mjtNum next_stress[3];\n"
                "      LocalStress(next_stress, stiffness.data() + 4 * bn, quat, omega0.data() + 3 * bn);\n"
                "      mju_addToScl3(lfrc, next_stress, -1.0);\n      mju_copy3(stress.data() + 3 * bn, next_stress);\n")]},
]


def selftest(res):
    cxx3.run_mutants("C51", res, MUTANTS, parts=("include", "src", "cmake", "CMakeLists.txt", "plugin"))
