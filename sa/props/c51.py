"""C51 First-party plugins honour their documented laws (PID actuator, cable elasticity).

Decided (clang AST of plugin/actuator/pid.cc, plugin/elasticity/cable.cc, elasticity.cc; anchors are the State /
PidConfig field names, mju_clip, and the mjpPlugin callback slots):
  R-MUSTPASS    in every Pid method that computes the error integral (a value computed from State.integral), on every
                path on which config.i_max may hold a value, that value passes through
                `mju_clip(v, -*i_max, *i_max)` before any use; in every Pid method that reads State.previous_ctrl, the
                returned setpoint passes through
                `mju_clip(v, previous_ctrl - *slew_max*timestep, previous_ctrl + *slew_max*timestep)` on every path
                on which slew_max has a value and previous_ctrl_exists.  Decided on the canonical view of each method
                (cxx3.View: free helper functions of the TU and lambdas are analysed inside the method, reference
                parameters are aliases), the integral is followed as a value through copies, `?:` and helper results;
                a value handed to plugin code that cannot be followed is ANALYSIS-ERROR.
  R-SIBLING     the integral expression, its complete guard (nested view: early exits folded into if/else) and the
                clip are identical (modulo local names) in all those methods (ActDot / Compute).
  R-TABLE       the state-slot layout agrees between the slot counter (ActDim), the reader (GetState) and the writer
                of the derivative (ActDot): same sequence of configuration guards, one index step per slot, and the
                slot GetState stores into State.integral is the one ActDot derives from the integral.
  R-WHO-WRITES  the mjData / mjModel fields each registered callback can write (field-level mod events over the
                callback lambda and everything it calls inside the plugin TU; mjData passed whole only to engine
                functions with a listed effect) are within the allowed set of that callback.
  R-INDEXDIM    an index into an array whose row dimension (X-macro tables) is nu / nout / na is derived from the
                matching address array (actuator_ctrladr / actuator_outadr / actuator_actadr, read from
                MJMODEL_REFERENCES in engine_io.c) or from a loop bounded by that dimension; an array of nactuator
                rows is not indexed by a loop bounded by another dimension.
Not decided: the arithmetic of the PID law; zero force of the cable in its stress-free configuration (QuatDiff /
LocalStress algebra); numerical effects of clipping.
"""
from __future__ import annotations

import os
import re

from .. import cfront, cir, cxx3, modref, xmacro
from ..cfront import AnalysisError

PID_TU = "plugin/actuator/pid.cc"
CABLE_TU = "plugin/elasticity/cable.cc"
ELAST_TU = "plugin/elasticity/elasticity.cc"
ENGINE_IO = "src/engine/engine_io.c"

STATE_INTEGRAL = "integral"
STATE_PREV = "previous_ctrl"
STATE_PREV_EXISTS = "previous_ctrl_exists"
CFG_IMAX = "i_max"
CFG_SLEW = "slew_max"
CLIP = "mju_clip"

# what each callback may write, and why (derived from the property text "write only their own state and force
# slices" and from the callback documentation in include/mujoco/mjplugin.h)
ALLOWED = {
    "pid": {
        "init": {"mjData.plugin_data": "init stores the instance pointer in its own plugin_data slot (mjplugin.h: 'called "
                                       "when a new mjData is being created')"},
        "destroy": {"mjData.plugin_data": "destroy frees and clears its own plugin_data slot"},
        "reset": {},
        "actuator_act_dot": {"mjData.act_dot": "mjplugin.h: 'updates the actuator plugin's entries in act_dot'"},
        "compute": {"mjData.actuator_force": "actuator capability: the plugin's force output slice"},
        "advance": {},
        "nstate": {},
    },
    "cable": {
        "init": {"mjData.plugin_data": "init stores the instance pointer in its own plugin_data slot",
                 "mjData.qpos": "scratch forward kinematics at qpos0 on the not yet initialised mjData: every caller of "
                                "mj_initPlugin (mj_makeData, mj_copyData, mjCModel::MakeData) resets or overwrites "
                                "mjData right after",
                 "mjData.mocap_quat": "same scratch kinematics (zeroed before mj_kinematics)",
                 "mjData.<mj_kinematics outputs>": "same scratch kinematics"},
        "destroy": {"mjData.plugin_data": "destroy frees and clears its own plugin_data slot"},
        "compute": {"mjData.qfrc_passive": "passive capability: the plugin's force slice (through mj_applyFT's "
                                           "qfrc_target)"},
        "visualize": {"mjModel.geom_rgba": "stress colour map of the plugin's own geoms when the vmax attribute is set "
                                           "(visualisation only, mjv_updateScene)"},
        "nstate": {},
    },
}
# engine functions the plugins hand the whole mjData to, and what they write there
ENGINE_EFFECTS = {
    "mj_applyFT": (set(), "writes only through its qfrc_target argument (recorded as a field pass); mjData is used for "
                          "the Jacobian scratch on the arena stack"),
    "mj_kinematics": ({"<mj_kinematics outputs>"}, "position-stage kinematics outputs"),
}

FLOOR_CALLBACKS = 11
FLOOR_INDEX = 20


# ---------------------------------------------------------------------------------------------------------------


class TU:
    def __init__(self, rel, repo):
        if not os.path.exists(os.path.join(repo, rel)):
            raise AnalysisError(f"{rel} vanished")
        self.rel = rel
        self.ir = cfront.load_tu(rel, repo)
        self.index = cxx3.FuncIndex(repo).add_ir(self.ir)
        self.resolver = cxx3.Resolver(self.index, None)
        self.unit = cir.Unit(self.ir)
        self._views = {}

    def fns(self, qual=None):
        return [f for f in self.index.fns if f.file == self.rel and (qual is None or f.qual == qual)]

    def fn(self, qual, name):
        r = self.index.by_qual.get((qual, name)) or []
        if not r:
            raise AnalysisError(f"{qual}::{name} not found in {self.rel} (anchor moved)")
        return r[0]

    def view(self, f):
        """Canonical view of a function of this TU: free helper functions of the TU and lambdas are analysed inside it
        (methods stay calls: the rules find them by their role and analyse them on their own)."""
        v = self._views.get(id(f.node))
        if v is None:
            v = cxx3.View(f.node, [g.node for g in self.fns()], self.rel, pred=lambda h: h.get("k") == "FunctionDecl")
            self._views[id(f.node)] = v
        return v


def _is_state_member(n, name):
    """MemberExpr `.name` on an object of the plugin's State struct."""
    if n is None or n.get("k") != "MemberExpr" or n.get("n") != name:
        return False
    b = cir.kids(n)
    bt = cxx3.base_type(cir.strip(b[0], casts=False).get("t")) if b and b[0] is not None else None
    return bt == "State"


def _reads_state(n, name):
    return any(_is_state_member(x, name) for x in cir.walk(n))


def _lhs_ids(fn):
    """id()s of DeclRefExpr nodes that are the whole left operand of a plain assignment (pure writes)."""
    out = set()
    for n in cir.walk(fn):
        if n.get("k") == "BinaryOperator" and n.get("op") == "=":
            l = cir.strip(cir.kids(n)[0])
            if l is not None and l.get("k") == "DeclRefExpr":
                out.add(id(l))
    return out


def _var_id(n):
    n = cir.strip(n)
    if n is not None and n.get("k") == "DeclRefExpr":
        return (n.get("ref") or {}).get("id")
    return None


def _is_clip_of(call, var_id):
    """mju_clip(var, lo, hi) -> (lo, hi) else None."""
    call = cir.strip(call)
    if call is None or not cir.is_call(call) or cir.callee(call) != CLIP:
        return None
    a = cir.args(call)
    if len(a) != 3 or _var_id(a[0]) != var_id:
        return None
    return a[1], a[2]


def _neg_of(n):
    n = cir.strip(n)
    if n is not None and n.get("k") == "UnaryOperator" and n.get("op") == "-":
        return cir.kids(n)[0]
    return None


def _is_imax_deref(n):
    ch = cxx3.optional_deref(n)
    return bool(ch) and ch[-1] == CFG_IMAX


# ---------------------------------------------------------------------------------------------------------------
# R-MUSTPASS: integral clip
#
# The rules run on the canonical view of each Pid method (TU.view): free helper functions of the TU and lambdas are
# analysed inside the method, so a clip that sits in a helper the integral flows through is the method's clip.  The
# integral is followed as a *value* (copies between locals keep its status), not as one named variable.


def _imax_test(cond):
    """True / False if `cond` is (the negation of) a has-value test of config.i_max, else None."""
    s = cir.strip(cond)
    pol = True
    while s is not None and s.get("k") == "UnaryOperator" and s.get("op") == "!":
        pol = not pol
        s = cir.strip(cir.kids(s)[0])
    ch = cxx3.optional_test(s) if s is not None else None
    if ch and ch[-1] == CFG_IMAX:
        return pol
    return None


def _local_target(node):
    """(decl id, rhs) if `node` defines a local: VarDecl with initialiser or `v = rhs`; else None."""
    k = node.get("k")
    if k == "VarDecl" and node.get("id"):
        init = [c for c in cir.kids(node) if c is not None and not (c.get("k") or "").endswith("Attr")]
        return (node["id"], init[-1]) if init else None
    if k == "BinaryOperator" and node.get("op") == "=":
        l = cir.strip(cir.kids(node)[0])
        if l is not None and l.get("k") == "DeclRefExpr" and not _is_reference(l):
            return (l.get("ref") or {}).get("id"), cir.kids(node)[1]
    return None


def _is_reference(declref):
    """The variable named is a reference: assigning to it stores into whatever it is bound to."""
    return ((declref.get("ref") or {}).get("t") or "").rstrip().endswith("&")


def _prev_ids(fn):
    """Locals that hold a plain copy of State.integral (the stored value, e.g. a helper parameter bound to it)."""
    out = set()
    for n in cxx3.walk_outer(fn):
        t = _local_target(n)
        if t and _is_state_member(cir.strip(t[1]), STATE_INTEGRAL):
            out.add(t[0])
    return out


def _reads_integral(e, prev):
    for x in cir.walk(e):
        if _is_state_member(x, STATE_INTEGRAL):
            return True
        if x.get("k") == "DeclRefExpr" and (x.get("ref") or {}).get("id") in prev:
            return True
    return False


class _ClipRule(cxx3.XRule):
    """state: (vals, imax).  vals: frozenset of (decl id, status) with status 'prev' (copy of State.integral), 'raw'
    (computed from it, not clipped to ±i_max), 'clipped'; imax: None | True | False (does config.i_max hold a value)."""

    use_kinds = frozenset({"DeclRefExpr"})

    def __init__(self, fn, helpers=(), opaque_args=()):
        self.helpers = helpers          # names of TU functions that return their argument clipped to ±i_max
        self.opaque_args = opaque_args  # id()s of DeclRefExpr arguments of TU functions that could not be followed
        self.bad_bounds = []
        self.clips = 0
        self.exempt = set()             # id()s of DeclRefExpr nodes that are not uses of the value
        for n in cxx3.walk_outer(fn):
            k = n.get("k")
            if k == "BinaryOperator" and n.get("op") == "=":
                l = cir.strip(cir.kids(n)[0])
                if l is not None and l.get("k") == "DeclRefExpr" and not _is_reference(l):
                    self.exempt.add(id(l))              # a pure write
                    self._copy_sources(cir.kids(n)[1])
            elif k == "VarDecl":
                t = _local_target(n)
                if t:
                    self._copy_sources(t[1])
            elif cir.is_call(n) and (cir.callee(n) == CLIP or cir.callee(n) in helpers):
                a = cir.args(n)
                for x in (a[:1] if cir.callee(n) == CLIP else a):
                    x = cir.strip(x)
                    if x is not None and x.get("k") == "DeclRefExpr":
                        self.exempt.add(id(x))          # the value handed to the clip

    def _copy_sources(self, rhs):
        s = cir.strip(rhs)
        if s is None:
            return
        if s.get("k") == "DeclRefExpr":
            self.exempt.add(id(s))                      # `a = b`: the value moves, it is not consumed
        elif s.get("k") == "ConditionalOperator":
            self._copy_sources(cir.kids(s)[1])
            self._copy_sources(cir.kids(s)[2])

    def initial(self, fn):
        return (frozenset(), None)

    def _status(self, e, vals, imax, node):
        s = cir.strip(e)
        if s is None:
            return None
        k = s.get("k")
        if k == "ConditionalOperator":
            c, a, b = cir.kids(s)
            pol = _imax_test(c)
            if pol is not None and imax is not None:
                return self._status(a if imax == pol else b, vals, imax, node)
            sa, sb = self._status(a, vals, imax, node), self._status(b, vals, imax, node)
            if sa == sb:
                return sa
            return "raw" if "raw" in (sa, sb) else None
        if cir.is_call(s) and cir.callee(s) == CLIP and len(cir.args(s)) == 3:
            x, lo, hi = cir.args(s)
            inner = self._status(x, vals, imax, node)
            if inner in ("raw", "clipped"):
                nlo = _neg_of(lo)
                if nlo is not None and _is_imax_deref(nlo) and _is_imax_deref(hi):
                    self.clips += 1
                    return "clipped"
                self.bad_bounds.append((node.get("line"), cir.text(s)))
                return inner
            return None
        if cir.is_call(s) and cir.callee(s) in self.helpers:
            if any(self._status(a, vals, imax, node) in ("raw", "clipped") for a in cir.args(s)):
                self.clips += 1
                return "clipped"
            return None
        if k == "DeclRefExpr":
            return vals.get((s.get("ref") or {}).get("id"))
        if _is_state_member(s, STATE_INTEGRAL):
            return "prev"
        for x in cir.walk(s):
            if _is_state_member(x, STATE_INTEGRAL):
                return "raw"
            if x.get("k") == "DeclRefExpr" and vals.get((x.get("ref") or {}).get("id")) == "prev":
                return "raw"
        return None

    def assign(self, st, node, ctx):
        t = _local_target(node)
        if t is None:
            if node.get("k") == "CompoundAssignOperator":
                vid = _var_id(cir.kids(node)[0])
                vals = dict(st[0])
                if vid in vals and self._status(cir.kids(node)[1], vals, st[1], node) in ("raw", "prev"):
                    vals[vid] = "raw"
                    return (frozenset(vals.items()), st[1])
            return st
        vid, rhs = t
        vals = dict(st[0])
        s = self._status(rhs, vals, st[1], node)
        if s is None:
            if vid not in vals:
                return st
            del vals[vid]
        else:
            vals[vid] = s
        return (frozenset(vals.items()), st[1])

    def branch(self, st, cond, taken, ctx):
        pol = _imax_test(cond)
        if pol is not None:
            has = taken if pol else (not taken)
            if st[1] is not None and st[1] != has:
                return None
            return (st[0], has)
        return st

    def use(self, st, node, ctx):
        if id(node) in self.exempt or not st[0] or st[1] is False:
            return st
        vid = (node.get("ref") or {}).get("id")
        for v, status in st[0]:
            if v == vid and status == "raw":
                if id(node) in self.opaque_args:
                    raise AnalysisError(f"{ctx.fn.get('n')}: the unclipped error integral is handed to a function of the "
                                        f"plugin (line {node.get('line')}) that could not be analysed inside its caller — "
                                        f"cannot decide whether it is clipped there")
                ctx.report(node, "the error integral is used without having been clipped to ±i_max on a path where i_max "
                                 "may hold a value")
        return st


class _HelperRule(cxx3.XRule):
    """Is this function `x -> i_max ? mju_clip(x, -*i_max, *i_max) : x` on all paths?  state: i_max U(nknown)|T|F.
    (Summary for helpers that are left as calls, e.g. methods; free helpers are analysed inside their callers.)"""

    def __init__(self, param_id):
        self.p = param_id
        self.ok = True
        self.returns = 0

    def initial(self, fn):
        return "U"

    def assign(self, st, node, ctx):
        if node.get("k") == "BinaryOperator" and _var_id(cir.kids(node)[0]) == self.p:
            self.ok = False
        return st

    def branch(self, st, cond, taken, ctx):
        pol = _imax_test(cond)
        if pol is not None:
            return "T" if (taken if pol else not taken) else "F"
        return st

    def ret(self, st, node, ctx):
        self.returns += 1
        c = [x for x in cir.kids(node) if x is not None]
        if not c:
            self.ok = False
            return
        b = _is_clip_of(c[0], self.p)
        if b is not None:
            nlo = _neg_of(b[0])
            if not (nlo is not None and _is_imax_deref(nlo) and _is_imax_deref(b[1])):
                self.ok = False
            return
        if _var_id(c[0]) == self.p and st == "F":
            return
        self.ok = False


def _clip_helpers(pid):
    out = set()
    for f in pid.fns():
        ps = cir.params(f.node)
        for p_ in ps:
            if (p_.get("t") or "") not in ("mjtNum", "double"):
                continue
            if not any(cir.is_call(n) and cir.callee(n) == CLIP for n in cir.walk(f.node)):
                continue
            rule = _HelperRule(p_.get("id"))
            try:
                cxx3.xexplore(rule, pid.unit, f.node)
            except AnalysisError:
                continue
            if rule.ok and rule.returns:
                out.add(f.name)
    return out


def _integral_sites(fn, prev):
    """[(var id, var name, rhs node, defining node)] for `X = ... state.integral ...` (more than a plain copy of the stored
    value) in the executed part of a view."""
    out = []
    for n in cxx3.walk_outer(fn):
        t = _local_target(n)
        if not t:
            continue
        vid, rhs = t
        if n.get("k") == "VarDecl" and "State" in (n.get("t") or ""):
            continue
        s = cir.strip(rhs)
        if _is_state_member(s, STATE_INTEGRAL) or (s is not None and s.get("k") == "DeclRefExpr"):
            continue
        if _reads_integral(rhs, prev):
            name = n.get("n") if n.get("k") == "VarDecl" else (cir.strip(cir.kids(n)[0]).get("ref") or {}).get("n")
            out.append((vid, name, rhs, n))
    return out


def _guards_of(fn, target):
    """Conditions of the if statements enclosing `target` (outermost first), with polarity."""
    path = []

    def rec(n, guards):
        if n is target:
            path.append(list(guards))
            return True
        if n is None:
            return False
        if n.get("k") == "IfStmt":
            c = list(cir.kids(n))
            idx = (1 if n.get("hasInit") else 0) + (1 if n.get("hasVar") else 0)
            cond = c[idx]
            for j, ch in enumerate(c):
                if j < idx:
                    if rec(ch, guards):
                        return True
                elif j == idx:
                    if rec(ch, guards):
                        return True
                elif j == idx + 1:
                    if rec(ch, guards + [(cond, True)]):
                        return True
                else:
                    if rec(ch, guards + [(cond, False)]):
                        return True
            return False
        for ch in cir.kids(n):
            if rec(ch, guards):
                return True
        return False
    rec(fn, [])
    return path[0] if path else []


def _is_indirect_call(n):
    """A call through a callable object, function pointer or std::function (its target is not known statically)."""
    if not cir.is_call(n) or n.get("lam"):
        return False
    info = cxx3.callee_info(n)
    if info is None or info[0] == "indirect":
        return True
    return n.get("k") == "CXXOperatorCallExpr" and info[1] == "operator()"


def _integral_family(fn, seeds):
    """Locals the integral value moves through: the site variables and what is copied / clipped from them."""
    fam = set(seeds)
    changed = True
    while changed:
        changed = False
        for n in cxx3.walk_outer(fn):
            t = _local_target(n)
            if not t or t[0] in fam:
                continue

            def src(e):
                s = cir.strip(e)
                if s is None:
                    return False
                if s.get("k") == "DeclRefExpr":
                    return (s.get("ref") or {}).get("id") in fam
                if s.get("k") == "ConditionalOperator":
                    return src(cir.kids(s)[1]) or src(cir.kids(s)[2])
                if cir.is_call(s) and cir.callee(s) == CLIP and cir.args(s):
                    return src(cir.args(s)[0])
                return False
            if src(t[1]):
                fam.add(t[0])
                changed = True
    return fam


def clip_rules(res, pid):
    res.rule("R-MUSTPASS", "PID: the error integral is clipped to ±i_max before any use whenever i_max has a value; the "
             "setpoint is slew-limited to previous ± slew_max*timestep whenever slew_max has a value and a previous "
             "ctrl exists", floor=3)
    res.rule("R-SIBLING", "PID: integral expression, guards and clip are identical in all methods that compute it",
             floor=1)
    sib = []
    covered = set()
    for f in pid.fns("Pid"):
        v = pid.view(f)
        for x in cxx3.walk_outer(v.fn):
            if _is_state_member(x, STATE_INTEGRAL):
                covered.add(x.get("line"))
        prev = _prev_ids(v.fn)
        sites = _integral_sites(v.fn, prev)
        if sites:
            sib.append((f, v, prev, sites))
    if not sib:
        raise AnalysisError(f"no Pid method computes the error integral (anchor State::{STATE_INTEGRAL} moved)")
    for f in pid.fns():
        for x in cir.walk(f.node):
            if _is_state_member(x, STATE_INTEGRAL) and x.get("line") not in covered:
                raise AnalysisError(f"State::{STATE_INTEGRAL} is read in {f.key} (line {x.get('line')}), in code that is not "
                                    f"analysed inside a Pid method (a lambda or helper that could not be followed)")
    helpers = _clip_helpers(pid)
    res.extra["integral_views"] = {f.key: v.inlined for f, v, _p, _s in sib}
    sigs = {}
    for f, v, prev, sites in sib:
        # calls into the plugin's own code that were not expanded, and calls through callable objects / pointers:
        # the value cannot be followed through them
        unfollowed = [c for c, _h in v.residual_targets() if cir.callee(c) not in helpers]
        unfollowed += [c for c in cxx3.walk_outer(v.fn) if _is_indirect_call(c)]
        opaque = set()
        for call in unfollowed:
            for a in cir.args(call):
                for x in cir.walk(a):
                    if x.get("k") == "DeclRefExpr":
                        opaque.add(id(x))
        for _vid, _name, rhs, dn in sites:
            inside = {id(x) for x in cir.walk(rhs)}
            left = [cir.callee(c) or cir.text(cir.kids(c)[0]) for c in unfollowed if id(c) in inside]
            if left:
                raise AnalysisError(f"{f.key}: the stored integral is handed to {left[0]}() (line {dn.get('line')}), which "
                                    f"could not be analysed inside its caller — cannot decide where the clip happens")
        rule = _ClipRule(v.fn, helpers, opaque)
        ctx = cxx3.xexplore(rule, pid.unit, v.fn)
        c = f"{f.key}:integral-clip"
        if rule.bad_bounds:
            ln, tx = rule.bad_bounds[0]
            res.bad("R-MUSTPASS", c, f.file, ln, f"the integral is clipped by `{tx}`, not by ±*i_max")
        elif ctx.reports:
            r = ctx.reports[0]
            res.bad("R-MUSTPASS", c, r["file"], r["line"], f"{f.key}: {r['msg']}")
        else:
            res.ok("R-MUSTPASS", c, {"clips": rule.clips, "inlined": v.inlined})
        # sibling signature, on the nested view (early exits folded into if/else): the complete guard of a statement
        nv = v.nested
        decls = cxx3.decl_nodes(nv)
        nsites = _integral_sites(nv, prev)
        if not nsites:
            raise AnalysisError(f"{f.key}: the integral computation is lost in the nested view")
        exprs = sorted({cxx3.alpha_text(s[2], decls) for s in nsites})
        g_raw = sorted({cxx3.guard_atoms(nv, s[3], decls) or () for s in nsites})
        fam = _integral_family(nv, {s[0] for s in nsites})
        clip_sig = set()
        for cn in cxx3.walk_outer(nv):
            if not cir.is_call(cn):
                continue
            if cir.callee(cn) == CLIP and cir.args(cn):
                a0 = cir.strip(cir.args(cn)[0])
                if not ((a0 is not None and a0.get("k") == "DeclRefExpr" and (a0.get("ref") or {}).get("id") in fam)
                        or _reads_integral(cir.args(cn)[0], prev)):
                    continue
            elif cir.callee(cn) in helpers:
                if not any(_var_id(a) in fam for a in cir.args(cn)):
                    continue
            else:
                continue
            clip_sig.add((cxx3.guard_atoms(nv, cn, decls) or (), cxx3.alpha_text(cn, decls)))
        sigs[f.key] = {"expr": tuple(exprs), "guards": tuple(g_raw), "clip": tuple(sorted(clip_sig)),
                       "line": sites[0][3].get("line"), "file": f.file}
    keys = sorted(sigs)
    ref = sigs[keys[0]]
    c = "~".join(keys) + ":integral"
    diffs = []
    if len(keys) == 1:
        res.extra["integral_single_implementation"] = keys[0]
    for k in keys[1:]:
        for part in ("expr", "guards", "clip"):
            if sigs[k][part] != ref[part]:
                diffs.append(f"{part}: {keys[0]} has {ref[part]!r}, {k} has {sigs[k][part]!r}")
    if diffs:
        res.bad("R-SIBLING", c, sigs[keys[1]]["file"], sigs[keys[1]]["line"],
                "the sibling computations of the error integral differ — " + "; ".join(diffs))
    else:
        res.ok("R-SIBLING", c, {"expr": list(ref["expr"]), "guards": [[g for g, _ in gs] for gs in ref["guards"]]})
    res.count("integral_siblings", len(sib))

    # ---- slew limit
    users = []
    for f in pid.fns("Pid"):
        v = pid.view(f)
        if any(_is_state_member(x, STATE_PREV) for x in cxx3.walk_outer(v.fn)) and not _writes_state(v.fn, STATE_PREV):
            users.append((f, v))
    if not users:
        raise AnalysisError(f"no Pid method reads State::{STATE_PREV} (anchor moved)")
    for f in pid.fns():
        for x in cir.walk(f.node):
            if _is_state_member(x, STATE_PREV) and not any(x.get("line") == y.get("line") for g in pid.fns("Pid")
                                                           for y in cxx3.walk_outer(pid.view(g).fn)
                                                           if _is_state_member(y, STATE_PREV)):
                raise AnalysisError(f"State::{STATE_PREV} is used in {f.key} (line {x.get('line')}), in code that is not "
                                    f"analysed inside a Pid method")
    for f, v in users:
        rule = _SlewRule(v)
        ctx = cxx3.xexplore(rule, pid.unit, v.fn)
        c = f"{f.key}:slew-limit"
        if rule.returns == 0:
            raise AnalysisError(f"{f.key} reads {STATE_PREV} but returns no tracked setpoint")
        if ctx.reports:
            r = ctx.reports[0]
            res.bad("R-MUSTPASS", c, r["file"], r["line"], f"{f.key}: {r['msg']}")
        else:
            res.ok("R-MUSTPASS", c, {"returns": rule.returns, "clips": rule.clips})


def _writes_state(fn, name):
    for n in cir.walk(fn):
        if n.get("k") == "BinaryOperator" and n.get("op") == "=" and _is_state_member(cir.strip(cir.kids(n)[0]), name):
            return True
    return False


def _chain_ends(n, *names):
    ch = cxx3.member_chain(n)
    return bool(ch) and tuple(ch[-len(names):]) == names


class _SlewRule(cxx3.XRule):
    """state: (clipped, slew, prev).  The tracked variable is the setpoint the function returns: `return v`, or
    `return mju_clip(v, lo, hi)` / `return c ? mju_clip(v, lo, hi) : v` (a return of the clipped value is the clip)."""

    def __init__(self, view):
        fn = view.fn
        self.fn = fn
        self.view = view
        self.defs = cxx3.local_defs(fn)
        rv = set()
        self.other_returns = []
        for n in cxx3.walk_outer(fn):
            if n.get("k") == "ReturnStmt":
                c = [x for x in cir.kids(n) if x is not None]
                if not c:
                    continue
                vs = self._returned_vars(c[0])
                if vs is None:
                    self.other_returns.append(n)
                else:
                    rv |= vs
        if len(rv) != 1:
            raise AnalysisError("setpoint function does not return a single local variable")
        self.var = next(iter(rv))
        for n in self.other_returns:
            left = [cir.callee(c) or "?" for c, _h in view.residual_targets(n)]
            if left:
                raise AnalysisError(f"the setpoint is returned through {left[0]}() (line {n.get('line')}), which could not "
                                    f"be analysed inside its caller")
        self.returns = 0
        self.clips = 0

    def _returned_vars(self, e):
        """Variables a return expression yields (possibly through mju_clip / ?:), None for any other expression."""
        s = cir.strip(e)
        if s is None:
            return None
        if s.get("k") == "DeclRefExpr" and (s.get("ref") or {}).get("k") in ("VarDecl", "ParmVarDecl"):
            return {(s.get("ref") or {}).get("id")}
        if s.get("k") == "ConditionalOperator":
            a, b = self._returned_vars(cir.kids(s)[1]), self._returned_vars(cir.kids(s)[2])
            return None if a is None or b is None else a | b
        if cir.is_call(s) and cir.callee(s) == CLIP and len(cir.args(s)) == 3:
            return self._returned_vars(cir.args(s)[0])
        return None

    def initial(self, fn):
        return (False, None, None)

    def _resolve(self, n):
        """Follow a local with a single definition to its defining expression."""
        s = cir.strip(n)
        seen = 0
        while s is not None and s.get("k") == "DeclRefExpr" and seen < 5:
            d = self.defs.get((s.get("ref") or {}).get("id")) or []
            if len(d) != 1:
                break
            s = cir.strip(d[0])
            seen += 1
        return s

    def _bound(self, n, op):
        """n == previous_ctrl <op> (*slew_max * timestep)   (factors in either order)."""
        s = self._resolve(n)
        if s is None or s.get("k") != "BinaryOperator" or s.get("op") != op:
            return False
        a, b = cir.kids(s)
        if not _is_state_member(cir.strip(a), STATE_PREV):
            return False
        p = self._resolve(b)
        if p is None or p.get("k") != "BinaryOperator" or p.get("op") != "*":
            return False
        x, y = cir.kids(p)

        def is_slew(e):
            ch = cxx3.optional_deref(self._resolve(e))
            return bool(ch) and ch[-1] == CFG_SLEW

        def is_dt(e):
            return _chain_ends(self._resolve(e), "opt", "timestep")
        return (is_slew(x) and is_dt(y)) or (is_slew(y) and is_dt(x))

    def _truth(self, cond, st):
        """Truth of a condition under the tracked predicates of a state, None if it is not determined by them."""
        s = cir.strip(cond)
        if s is None:
            return None
        k = s.get("k")
        if k == "UnaryOperator" and s.get("op") == "!":
            v = self._truth(cir.kids(s)[0], st)
            return None if v is None else not v
        if k == "BinaryOperator" and s.get("op") in ("&&", "||"):
            a, b = (self._truth(x, st) for x in cir.kids(s))
            if s["op"] == "&&":
                return False if (a is False or b is False) else (True if (a and b) else None)
            return True if (a is True or b is True) else (False if (a is False and b is False) else None)
        ch = cxx3.optional_test(s)
        if ch and ch[-1] == CFG_SLEW:
            return st[1]
        if _is_state_member(s, STATE_PREV_EXISTS):
            return st[2]
        return None

    def _value(self, st, e):
        """Is the value of `e` the slew-limited setpoint in state st?  True / False; None: `e` is not the setpoint."""
        s = cir.strip(e)
        if s is None:
            return None
        if s.get("k") == "ConditionalOperator":
            c, a, b = cir.kids(s)
            t = self._truth(c, st)
            if t is not None:
                return self._value(st, a if t else b)
            va, vb = self._value(st, a), self._value(st, b)
            if va is None and vb is None:
                return None
            return bool(va) and bool(vb)
        if _var_id(s) == self.var:
            return st[0]
        b = _is_clip_of(s, self.var)
        if b is not None:
            if self._bound(b[0], "-") and self._bound(b[1], "+"):
                self.clips += 1
                return True
            return False
        return None

    def assign(self, st, node, ctx):
        t = _local_target(node)
        if t is None or t[0] != self.var:
            return st
        v = self._value(st, t[1])
        return (bool(v), st[1], st[2])

    def branch(self, st, cond, taken, ctx):
        ch = cxx3.optional_test(cond)
        if ch and ch[-1] == CFG_SLEW:
            if st[1] is not None and st[1] != taken:
                return None
            return (st[0], taken, st[2])
        if _is_state_member(cir.strip(cond), STATE_PREV_EXISTS):
            if st[2] is not None and st[2] != taken:
                return None
            return (st[0], st[1], taken)
        return st

    def ret(self, st, node, ctx):
        c = [x for x in cir.kids(node) if x is not None]
        if not c:
            return
        self.returns += 1
        v = self._value(st, c[0])
        if not v and st[1] is not False and st[2] is not False:
            ctx.report(node, "the setpoint is returned without the slew clip (previous_ctrl ± *slew_max * timestep) on a "
                             "path where slew_max may hold a value and a previous ctrl may exist")


# ---------------------------------------------------------------------------------------------------------------
# R-TABLE: state slots


def _cfg_keys(expr, fn, pid, attr2field, depth=0):
    """Configuration keys an expression depends on: PidConfig field names (through config members, through the
    attribute constants the static helpers read, through locals and one level of helper calls)."""
    out = set()
    defs = cxx3.local_defs(fn.node)
    todo = [expr]
    seen = set()
    while todo:
        e = todo.pop()
        if e is None or id(e) in seen:
            continue
        seen.add(id(e))
        for x in cir.walk(e):
            k = x.get("k")
            if k == "MemberExpr":
                ch = cxx3.member_chain(x)
                if ch and len(ch) >= 2 and ch[-1] in attr2field.values() and "config" in ch[-2]:
                    out.add(ch[-1])
            elif k == "DeclRefExpr":
                r = x.get("ref") or {}
                if r.get("k") == "VarDecl" and r.get("n") in attr2field:
                    out.add(attr2field[r["n"]])
                elif r.get("k") in ("VarDecl", "ParmVarDecl") and r.get("id") in defs:
                    todo.extend(defs[r["id"]])
            if cir.is_call(x) and depth < 2:
                info = cxx3.callee_info(x)
                for g in pid.resolver.targets(info, pid.rel, cxx3.call_nargs(x)) if info else []:
                    if g.file == pid.rel and g.node is not fn.node:
                        for rs in cir.walk(g.node):
                            if rs.get("k") == "ReturnStmt":
                                out |= _cfg_keys(rs, g, pid, attr2field, depth + 1)
    return out


def _attr_map(pid):
    """{attribute constant name: PidConfig field} from the assignments of PidConfig::FromModel."""
    f = pid.fn("PidConfig", "FromModel")
    defs = cxx3.local_defs(f.node)
    consts = set()
    out = {}

    def attrs(e, seen):
        found = set()
        for x in cir.walk(e):
            if x.get("k") == "DeclRefExpr":
                r = x.get("ref") or {}
                if r.get("k") == "VarDecl" and "char" in (r.get("t") or "") and r.get("id") not in defs:
                    found.add(r.get("n"))
                elif r.get("k") == "VarDecl" and r.get("id") in defs and r["id"] not in seen:
                    seen.add(r["id"])
                    for d in defs[r["id"]]:
                        found |= attrs(d, seen)
        return found
    for n in cir.walk(f.node):
        if n.get("k") in ("BinaryOperator", "CXXOperatorCallExpr"):
            c = cir.kids(n)
            lhs = rhs = None
            if n["k"] == "BinaryOperator" and n.get("op") == "=":
                lhs, rhs = c[0], c[1]
            elif n["k"] == "CXXOperatorCallExpr" and len(c) == 3 and (cir.strip(c[0]).get("ref") or {}).get("n") == "operator=":
                lhs, rhs = c[1], c[2]
            if lhs is None:
                continue
            ch = cxx3.member_chain(lhs)
            if ch and len(ch) == 2:
                for a in attrs(rhs, set()):
                    out.setdefault(a, ch[1])
    if len(out) < 3:
        raise AnalysisError("cannot read the attribute -> PidConfig field map from PidConfig::FromModel")
    return out


def _guard_stack_keys(fn, target, pid, a2f):
    keys = []
    for cond, pol in _guards_of(fn.node, target):
        ks = _cfg_keys(cond, fn, pid, a2f)
        if ks:
            keys.append((tuple(sorted(ks)), pol))
    return tuple(keys)


def table_rule(res, pid):
    res.rule("R-TABLE", "PID: the state-slot sequence (configuration guard per slot, one index step per slot) agrees "
             "between ActDim, GetState and ActDot, and each slot's role agrees between reader and writer", floor=3)
    a2f = _attr_map(pid)
    actadr_user = {}
    # -- counter: the method whose result is compared with actuator_actnum in Create; found as the static Pid method
    #    returning a sum of (cond ? 1 : 0) terms
    counters = []
    for f in pid.fns("Pid"):
        for n in cir.walk(f.node):
            if n.get("k") == "ReturnStmt":
                terms = []
                okshape = True

                def flat(e):
                    e = cir.strip(e)
                    if e is not None and e.get("k") == "BinaryOperator" and e.get("op") == "+":
                        flat(cir.kids(e)[0])
                        flat(cir.kids(e)[1])
                    else:
                        terms.append(e)
                c = [x for x in cir.kids(n) if x is not None]
                if not c:
                    continue
                flat(c[0])
                conds = []
                for t in terms:
                    if t is not None and t.get("k") == "ConditionalOperator":
                        a, b, d = cir.kids(t)
                        if cir.text(b) == "1" and cir.text(d) == "0":
                            conds.append(a)
                            continue
                    okshape = False
                if okshape and len(conds) >= 2:
                    counters.append((f, conds))
    if len(counters) != 1:
        raise AnalysisError(f"expected one slot-counting method (sum of `cond ? 1 : 0`), found {[f.key for f, _ in counters]}")
    cf, conds = counters[0]
    seq_count = [tuple(sorted(_cfg_keys(c, cf, pid, a2f))) for c in conds]

    # -- reader: reads of d->act[...] stored into State fields ; writer: writes of d->act_dot[...]
    def slot_accesses(f, field, write):
        out = []
        for n in cir.walk(f.node):
            if n.get("k") == "BinaryOperator" and n.get("op") == "=":
                lhs, rhs = cir.kids(n)
                side = lhs if write else rhs
                for x in cir.walk(side):
                    if x.get("k") == "ArraySubscriptExpr":
                        rf = modref.root_field(x)
                        if rf and rf[0] == "mjData" and rf[1] == field:
                            if write and cir.strip(lhs) is not x:
                                continue
                            out.append((n, x))
        return out

    readers = [f for f in pid.fns("Pid") if any(_is_state_member(cir.strip(cir.kids(n)[0]), STATE_INTEGRAL)
                                                for n, _ in slot_accesses(f, "act", False))]
    writers = [f for f in pid.fns("Pid") if slot_accesses(f, "act_dot", True)]
    if len(readers) != 1 or len(writers) != 1:
        raise AnalysisError(f"state-slot reader/writer not unique: readers {[f.key for f in readers]}, writers "
                            f"{[f.key for f in writers]}")
    rd, wr = readers[0], writers[0]

    def steps_ok(f, accesses):
        """Every slot access advances the index variable exactly once inside its guard block."""
        problems = []
        for n, sub in accesses:
            idx = cir.strip(cir.kids(sub)[1])
            post = idx is not None and idx.get("k") == "UnaryOperator" and idx.get("op") == "++"
            var = _var_id(cir.kids(idx)[0]) if post else _var_id(idx)
            if var is None:
                problems.append((n.get("line"), "slot index is not a plain index variable"))
                continue
            # the innermost block containing the access
            block = None
            for b in cir.walk(f.node):
                if b.get("k") == "CompoundStmt" and any(c is n or (c is not None and any(y is n for y in cir.walk(c)))
                                                        for c in cir.kids(b)):
                    block = b
            incs = 0
            if block is not None:
                for y in cir.walk(block):
                    if y.get("k") == "UnaryOperator" and y.get("op") == "++" and _var_id(cir.kids(y)[0]) == var:
                        incs += 1
                    if y.get("k") == "CompoundAssignOperator" and _var_id(cir.kids(y)[0]) == var:
                        incs += 1
            if incs != 1:
                problems.append((n.get("line"), f"the index advances {incs} times for this slot"))
        return problems

    racc = slot_accesses(rd, "act", False)
    wacc = slot_accesses(wr, "act_dot", True)
    seq_read = [_guard_stack_keys(rd, n, pid, a2f) for n, _ in racc]
    seq_write = [_guard_stack_keys(wr, n, pid, a2f) for n, _ in wacc]
    role_read = []
    for n, _ in racc:
        ch = cxx3.member_chain(cir.kids(n)[0])
        role_read.append(ch[-1] if ch else "?")
    # writer role: does the stored value derive from State.integral ?
    wdefs = cxx3.local_defs(wr.node)

    def derives_integral(e, seen):
        for x in cir.walk(e):
            if _is_state_member(x, STATE_INTEGRAL):
                return True
            if x.get("k") == "DeclRefExpr":
                i = (x.get("ref") or {}).get("id")
                if i in wdefs and i not in seen:
                    seen.add(i)
                    if any(derives_integral(d, seen) for d in wdefs[i]):
                        return True
        return False
    role_write = [STATE_INTEGRAL if derives_integral(cir.kids(n)[1], set()) else "other" for n, _ in wacc]

    def simple(seq):
        return [tuple(k for k, pol in g) for g in seq]
    c_seq = f"{cf.key}~{rd.key}~{wr.key}:slot-sequence"
    s_c, s_r, s_w = [(k,) for k in seq_count], simple(seq_read), simple(seq_write)
    if not (s_c == s_r == s_w):
        res.bad("R-TABLE", c_seq, wr.file, (wacc[0][0].get("line") if wacc else wr.line),
                f"the slot sequences disagree: {cf.key} counts {s_c}, {rd.key} reads {s_r}, {wr.key} writes {s_w} — "
                f"a state variable is read from a slot another function treats as a different variable")
    else:
        res.ok("R-TABLE", c_seq, {"slots": [list(k[0]) for k in s_c]})
    c_role = f"{rd.key}~{wr.key}:slot-roles"
    want = [STATE_INTEGRAL if r == STATE_INTEGRAL else "other" for r in role_read]
    if want != role_write:
        res.bad("R-TABLE", c_role, wr.file, wacc[0][0].get("line") if wacc else wr.line,
                f"{rd.key} stores the slots into {role_read} but {wr.key} derives the slots from {role_write}")
    else:
        res.ok("R-TABLE", c_role, {"reader": role_read, "writer": role_write})
    c_step = f"{rd.key}~{wr.key}:slot-step"
    pr = steps_ok(rd, racc) + steps_ok(wr, wacc)
    if pr:
        res.bad("R-TABLE", c_step, wr.file, pr[0][0], pr[0][1])
    else:
        res.ok("R-TABLE", c_step)


# ---------------------------------------------------------------------------------------------------------------
# R-WHO-WRITES


def _callbacks(tu, register_fn):
    """{slot name: node} for `plugin.<slot> = <lambda or function>` in RegisterPlugin."""
    out = {}
    for n in cir.walk(register_fn.node):
        if n.get("k") == "BinaryOperator" and n.get("op") == "=":
            lhs = cir.strip(cir.kids(n)[0])
            if lhs is not None and lhs.get("k") == "MemberExpr":
                b = cir.strip(cir.kids(lhs)[0])
                if b is not None and cxx3.base_type(b.get("t")) in ("mjpPlugin", "mjpPlugin_"):
                    rhs = cir.kids(n)[1]
                    lam = [x for x in cir.walk(rhs) if x.get("k") == "LambdaExpr"]
                    fref = [x for x in cir.walk(rhs) if x.get("k") == "DeclRefExpr" and
                            (x.get("ref") or {}).get("k") in ("FunctionDecl", "CXXMethodDecl")]
                    if lam:
                        body = [c for c in cir.kids(lam[0]) if c is not None and c.get("k") == "CompoundStmt"]
                        out[lhs.get("n")] = ("lambda", body[-1] if body else lam[0], n.get("line"))
                    elif fref and "(" in (lhs.get("t") or ""):
                        out[lhs.get("n")] = ("function", fref[0], n.get("line"))
    return out


def _closure_writes(tu, root_node):
    """Fields written by a callback: mod events of its body and of every TU function it can reach."""
    writes = {}      # "mjData.field" -> (file, line, via)
    problems = []
    seen = set()
    todo = [(root_node, "callback")]
    while todo:
        node, via = todo.pop()
        if id(node) in seen:
            continue
        seen.add(id(node))
        for e in modref.events(node, structs={"mjData", "mjModel"}):
            if e["kind"] == "alias" and not _alias_written(node, e.get("var")):
                continue        # a local pointer into the field that is only read through
            key = f"{e['struct']}.{e['field']}"
            writes.setdefault(key, (tu.rel, e["line"], via, e["kind"]))
        for call in cir.calls(node):
            info = cxx3.callee_info(call)
            tg = [g for g in (tu.resolver.targets(info, tu.rel, cxx3.call_nargs(call)) if info else []) if g.file == tu.rel]
            for g in tg:
                todo.append((g.node, g.key))
            if tg:
                continue
            # external callee: does it receive the whole mjData / mjModel non-const?
            name = info[1] if info else None
            ce = cir.callee_expr(call)
            ptypes = modref._param_types((ce.get("ref") or {}).get("t") if ce is not None and ce.get("k") == "DeclRefExpr"
                                         else None)
            for i, a in enumerate(cir.args(call)):
                s = cir.strip(a)
                if s is None or s.get("k") != "DeclRefExpr":
                    continue
                st = modref._struct_of(s.get("t"))
                if st not in ("mjData", "mjModel") or "*" not in (s.get("t") or ""):
                    continue
                pt = ptypes[i] if i < len(ptypes) else None
                if pt is not None and modref._const_pointee(pt):
                    continue
                if name in ENGINE_EFFECTS:
                    for fld in ENGINE_EFFECTS[name][0]:
                        writes.setdefault(f"{st}.{fld}", (tu.rel, call.get("line"), via, "engine:" + name))
                else:
                    problems.append((call.get("line"), f"passes the whole {st} (non-const) to {name}(), whose effect on "
                                                       f"it is not listed"))
        # constructors invoked from the callback (Cable::Create -> Cable::Cable)
        for x in cir.walk(node):
            if x.get("k") in cxx3.CTOR_KINDS:
                info = cxx3.callee_info(x)
                for g in tu.resolver.targets(info, tu.rel, cxx3.call_nargs(x)):
                    if g.file == tu.rel:
                        todo.append((g.node, g.key))
    return writes, problems


def _alias_written(fn_node, var):
    """Is anything written through the local pointer `var` (element/deref assignment, ++/--, passed or copied as a
    pointer to non-const)?"""
    if not var:
        return True
    for n in cir.walk(fn_node):
        k = n.get("k")
        if (k == "BinaryOperator" and n.get("op") == "=") or k == "CompoundAssignOperator" or \
                (k == "UnaryOperator" and n.get("op") in ("++", "--")):
            lhs = cir.strip(cir.kids(n)[0])
            if lhs is not None and lhs.get("k") in ("ArraySubscriptExpr", "UnaryOperator", "MemberExpr") and \
                    cir.base_var(lhs) == var:
                return True
            if k == "BinaryOperator" and lhs is not None and "*" in (lhs.get("t") or "") and \
                    not modref._const_pointee(lhs.get("t")) and cir.base_var(cir.kids(n)[1]) == var:
                return True
        elif cir.is_call(n):
            ce = cir.callee_expr(n)
            pts = modref._param_types((ce.get("ref") or {}).get("t") if ce is not None and ce.get("k") == "DeclRefExpr"
                                      else None)
            for i, a in enumerate(cir.args(n)):
                s = cir.strip(a)
                if s is None or "*" not in (s.get("t") or "") or cir.base_var(s) != var:
                    continue
                pt = pts[i] if i < len(pts) else None
                if pt is None or not modref._const_pointee(pt):
                    return True
        elif k == "VarDecl" and n.get("n") != var and "*" in (n.get("t") or "") and not modref._const_pointee(n.get("t")):
            init = [c for c in cir.kids(n) if c is not None]
            if init and cir.base_var(init[-1]) == var:
                return True
    return False


def who_writes_rule(res, tus):
    res.rule("R-WHO-WRITES", "each registered plugin callback writes only the mjData/mjModel fields allowed for it "
             "(own state, own force slice, own plugin_data slot)", floor=FLOOR_CALLBACKS)
    n = 0
    for plugin, tu, cls in (("pid", tus["pid"], "Pid"), ("cable", tus["cable"], "Cable")):
        reg = tu.fn(cls, "RegisterPlugin")
        cbs = _callbacks(tu, reg)
        if len(cbs) < 4:
            raise AnalysisError(f"{cls}::RegisterPlugin: only {len(cbs)} callback assignments found")
        for slot, (kind, node, line) in sorted(cbs.items()):
            n += 1
            c = f"{plugin}:{slot}"
            allowed = ALLOWED[plugin].get(slot)
            if allowed is None:
                res.bad("R-WHO-WRITES", c, tu.rel, line, f"callback slot `{slot}` has no entry in the allowed-writes table")
                continue
            if kind == "function":
                g = tu.resolver.targets(("method" if (node.get("ref") or {}).get("k") == "CXXMethodDecl" else "free",
                                         (node.get("ref") or {}).get("n"), None, (node.get("ref") or {}).get("t")), tu.rel)
                if not g:
                    raise AnalysisError(f"{c}: callback function not found in the TU")
                root = g[0].node
            else:
                root = node
            writes, problems = _closure_writes(tu, root)
            extra = sorted(k for k in writes if k not in allowed)
            if problems:
                res.bad("R-WHO-WRITES", c, tu.rel, problems[0][0], problems[0][1])
            elif extra:
                k = extra[0]
                f_, ln, via, kind_ = writes[k]
                res.bad("R-WHO-WRITES", f"{c}:{k}", f_, ln,
                        f"callback `{slot}` of the {plugin} plugin can write {k} ({kind_} in {via}); it may write only "
                        f"{sorted(allowed) or 'nothing'}")
                for k in extra[1:]:
                    f_, ln, via, kind_ = writes[k]
                    res.bad("R-WHO-WRITES", f"{c}:{k}", f_, ln,
                            f"callback `{slot}` of the {plugin} plugin can write {k} ({kind_} in {via}); it may write only "
                            f"{sorted(allowed) or 'nothing'}")
            else:
                res.ok("R-WHO-WRITES", c, {"writes": sorted(writes)})
    # elasticity.cc: shared helpers, no callback; they must not touch mjData / mjModel at all
    el = tus["elast"]
    for f in el.fns():
        ev = modref.events(f.node, structs={"mjData", "mjModel"})
        n += 1
        c = f"elasticity:{f.key}"
        if ev:
            res.bad("R-WHO-WRITES", c, f.file, ev[0]["line"], f"helper {f.key} writes {ev[0]['struct']}.{ev[0]['field']}")
        else:
            res.ok("R-WHO-WRITES", c)
    res.count("callbacks_and_helpers", n)


# ---------------------------------------------------------------------------------------------------------------
# R-INDEXDIM


def _references(repo):
    """Rows of MJMODEL_REFERENCES in engine_io.c: {address array: (domain dim, codomain dim, count array)}."""
    p = os.path.join(repo, ENGINE_IO)
    try:
        text = open(p).read()
    except OSError:
        raise AnalysisError(f"{ENGINE_IO} vanished")
    m = re.search(r"#define\s+MJMODEL_REFERENCES\b((?:.*\\\n)*.*\n)", text)
    if not m:
        raise AnalysisError("MJMODEL_REFERENCES not found in engine_io.c")
    out = {}
    for r in re.finditer(r"X\(\s*(\w+)\s*,\s*(\w+)\s*,\s*(\w+)\s*,\s*([^)]*?)\s*\)", m.group(1)):
        cnt = re.sub(r"^m->", "", r.group(4).strip())
        out[r.group(1)] = (r.group(2), r.group(3), cnt if re.fullmatch(r"[A-Za-z_]\w*", cnt) else None)
    if "actuator_outadr" not in out or "actuator_ctrladr" not in out or "actuator_actadr" not in out:
        raise AnalysisError("actuator address arrays not found in MJMODEL_REFERENCES")
    return out


class _Prov:
    """Index-space provenance of integer expressions inside one TU."""

    def __init__(self, tu, adr_dim, count_arrays, dims):
        self.tu = tu
        self.adr_dim = adr_dim            # address array -> codomain dimension
        self.count_arrays = count_arrays
        self.dims = dims                  # array field -> row dimension
        self.fn_defs = {}
        self.loop_bounds = {}
        self.range_vars = {}
        self.callsites = None

    def _prep(self, f):
        if id(f.node) in self.fn_defs:
            return
        self.fn_defs[id(f.node)] = cxx3.local_defs(f.node)
        lb, rv = {}, {}
        for n in cir.walk(f.node):
            if n.get("k") == "ForStmt":
                c = list(cir.kids(n)) + [None] * 5
                cond = cir.strip(c[2]) if c[2] is not None else None
                if cond is not None and cond.get("k") == "BinaryOperator" and cond.get("op") in ("<", "<="):
                    v = _var_id(cir.kids(cond)[0])
                    bound = cir.strip(cir.kids(cond)[1])
                    if v:
                        ch = cxx3.member_chain(bound)
                        if ch and len(ch) == 2 and bound.get("arrow") is not None:
                            lb[v] = ch[-1]                       # m->nu
                        else:
                            lb[v] = "?" + cir.text(bound)        # e.g. actuators_.size()
            elif n.get("k") == "CXXForRangeStmt":
                c = list(cir.kids(n))
                rng = None
                for d in c:
                    if d is not None and d.get("k") == "DeclStmt":
                        for v in cir.kids(d):
                            if v is not None and v.get("k") == "VarDecl" and (v.get("n") or "").startswith("__range"):
                                init = [x for x in cir.kids(v) if x is not None]
                                rng = cir.text(init[-1]) if init else None
                loopvar = None
                for d in c[:-1]:
                    if d is not None and d.get("k") == "DeclStmt":
                        for v in cir.kids(d):
                            if v is not None and v.get("k") == "VarDecl" and not (v.get("n") or "").startswith("__"):
                                loopvar = v
                if loopvar is not None:
                    rv[loopvar.get("id")] = rng
        self.loop_bounds[id(f.node)] = lb
        self.range_vars[id(f.node)] = rv

    def _callsites(self):
        if self.callsites is None:
            self.callsites = {}
            for f in self.tu.index.fns:
                if f.file != self.tu.rel:
                    continue
                for call in cir.calls(f.node):
                    info = cxx3.callee_info(call)
                    for g in (self.tu.resolver.targets(info, self.tu.rel, cxx3.call_nargs(call)) if info else []):
                        self.callsites.setdefault(id(g.node), []).append((f, call))
        return self.callsites

    def prov(self, e, f, seen=None):
        """Set of provenance tags: 'nu','nout','na','nactuator' (dimension), 'elem:<container>', 'param:<n>',
        'val:<array>' ; empty set = pure constant/offset."""
        seen = seen if seen is not None else set()
        self._prep(f)
        s = cir.strip(e)
        if s is None:
            return set()
        k = s.get("k")
        if k in ("IntegerLiteral", "CharacterLiteral"):
            return set()
        if k == "BinaryOperator" and s.get("op") in ("+", "-", "*"):
            a, b = cir.kids(s)
            return self.prov(a, f, seen) | self.prov(b, f, seen)
        if k == "UnaryOperator" and s.get("op") in ("++", "--", "+", "-"):
            return self.prov(cir.kids(s)[0], f, seen)
        if k == "ConditionalOperator":
            c = cir.kids(s)
            return self.prov(c[1], f, seen) | self.prov(c[2], f, seen)
        if k == "ArraySubscriptExpr":
            rf = modref.root_field(s)
            if rf and rf[0] in ("mjModel", "mjData"):
                fld = rf[1]
                if fld in self.adr_dim:
                    return {self.adr_dim[fld]}
                if fld in self.count_arrays:
                    return set()             # a count: an offset inside the block
                return {"val:" + fld}
            return {"val:" + cir.text(cir.kids(s)[0])}
        if k == "CXXOperatorCallExpr":
            c = cir.kids(s)
            fnn = (cir.strip(c[0]).get("ref") or {}).get("n") if c else None
            if fnn == "operator[]" and len(c) == 3:
                return {"elem:" + cir.text(c[1])}
            if fnn == "operator*" and len(c) == 2:
                return {"elem:" + cir.text(c[1])}
            return {"val:" + cir.text(s)}
        if k == "MemberExpr":
            ch = cxx3.member_chain(s)
            if ch and ch[-1] in ("nu", "nout", "na", "nactuator"):
                return set()
            return {"val:" + cir.text(s)}
        if k == "DeclRefExpr":
            r = s.get("ref") or {}
            vid = r.get("id")
            if r.get("k") == "EnumConstantDecl":
                return set()
            if (id(f.node), vid) in seen:
                return set()
            seen = seen | {(id(f.node), vid)}
            out = set()
            lb = self.loop_bounds[id(f.node)].get(vid)
            if lb is not None:
                out.add(lb)
            rv = self.range_vars[id(f.node)]
            if vid in rv:
                out.add("elem:" + (rv[vid] or "?"))
                return out
            if r.get("k") == "ParmVarDecl":
                ps = cir.params(f.node)
                idx = next((i for i, p in enumerate(ps) if p.get("id") == vid), None)
                sites = self._callsites().get(id(f.node), [])
                if idx is None or not sites:
                    return {"param:" + str(r.get("n"))}
                for cf, call in sites:
                    a = cir.args(call)
                    if idx < len(a):
                        out |= self.prov(a[idx], cf, seen)
                return out
            defs = self.fn_defs[id(f.node)].get(vid) or []
            for d in defs:
                if lb is not None and cir.strip(d) is not None and cir.strip(d).get("k") == "IntegerLiteral":
                    continue
                out |= self.prov(d, f, seen)
            if not defs and lb is None:
                out.add("val:" + str(r.get("n")))
            return out
        if cir.is_call(s):
            # a helper of this TU: the provenance of what it returns (its parameters resolve through its call sites)
            info = cxx3.callee_info(s)
            tg = [g for g in (self.tu.resolver.targets(info, self.tu.rel, cxx3.call_nargs(s)) if info else [])
                  if g.file == self.tu.rel]
            if tg and len(seen) < 40:
                out = set()
                for g in tg:
                    key = (id(g.node), "ret")
                    if key in seen:
                        continue
                    for r in cir.walk(g.node):
                        if r.get("k") == "ReturnStmt":
                            c = [x for x in cir.kids(r) if x is not None]
                            if c:
                                out |= self.prov(c[0], g, seen | {key})
                return out
            return {"val:" + cir.text(s)[:40]}
        return {"val:" + cir.text(s)[:40]}


def indexdim_rule(res, tus, repo):
    res.rule("R-INDEXDIM", "plugins index nu/nout/na-dimensioned arrays through the matching address array (or a loop "
             "over that dimension); nactuator-dimensioned arrays are not indexed by a loop over another dimension",
             floor=FLOOR_INDEX)
    refs = _references(repo)
    # block address arrays of actuators: rows with a count array (first address + number of entries per actuator);
    # plain cross-references (actuator_plugin -> nplugin, trnid ...) are not index spaces of the actuator I/O family
    adr_dim = {a: cod for a, (dom, cod, cnt) in refs.items() if dom == "nactuator" and cnt}
    count_arrays = {cnt for a, (dom, cod, cnt) in refs.items() if dom == "nactuator" and cnt}
    io_dims = set(adr_dim.values())           # {'na','nu','nout'}
    if not {"nu", "nout", "na"} <= io_dims:
        raise AnalysisError(f"actuator I/O dimensions not all present in MJMODEL_REFERENCES: {sorted(io_dims)}")
    dims = {}
    for table in ("MJMODEL_POINTERS", "MJDATA_POINTERS"):
        rows = xmacro.pointers(table, repo)
        if not rows:
            raise AnalysisError(f"X-macro table {table} is empty")
        for r in rows:
            dims[r["name"]] = r["nr"]
    for need in ("actuator_force", "actuator_length", "actuator_velocity", "ctrl", "act", "act_dot"):
        if need not in dims:
            raise AnalysisError(f"{need} not in the X-macro pointer tables")
    res.extra["row_dimensions"] = {k: dims[k] for k in ("actuator_force", "actuator_length", "actuator_velocity", "ctrl",
                                                        "act", "act_dot", "actuator_ctrlrange", "actuator_ctrllimited",
                                                        "actuator_plugin") if k in dims}
    res.extra["address_arrays"] = adr_dim
    want_adr = {d: a for a, d in adr_dim.items()}
    nsites = 0
    for name in ("pid", "cable"):
        tu = tus[name]
        pv = _Prov(tu, adr_dim, count_arrays, dims)
        for f in tu.fns():
            sites = []
            for n in cir.walk(f.node):
                if n.get("k") == "ArraySubscriptExpr":
                    base = cir.strip(cir.kids(n)[0])
                    if base is not None and base.get("k") == "MemberExpr" and base.get("arrow"):
                        st = modref._struct_of(cir.strip(cir.kids(base)[0]).get("t")) if cir.kids(base) else None
                        if st in ("mjModel", "mjData") and dims.get(base.get("n")) in io_dims | {"nactuator"}:
                            sites.append((n, base.get("n"), cir.kids(n)[1]))
                elif n.get("k") == "BinaryOperator" and n.get("op") == "+" and "*" in (n.get("t") or ""):
                    a, b = cir.kids(n)
                    base = cir.strip(a)
                    if base is not None and base.get("k") == "MemberExpr" and base.get("arrow"):
                        st = modref._struct_of(cir.strip(cir.kids(base)[0]).get("t")) if cir.kids(base) else None
                        if st in ("mjModel", "mjData") and dims.get(base.get("n")) in io_dims | {"nactuator"}:
                            sites.append((n, base.get("n"), b))
            per = {}
            for n, fld, idx in sites:
                nsites += 1
                d = dims[fld]
                p = pv.prov(idx, f)
                good = None
                if d in io_dims:
                    if p and p <= {d}:
                        good = True
                    else:
                        good = False
                        why = (f"`{cir.text(n)}`: {fld} has {d} rows (X-macro) but the index is "
                               f"{'an actuator id / unrelated value' if p else 'a constant'} (provenance {sorted(p) or ['constant']}); "
                               f"it must come from m->{want_adr[d]}[id] or a loop over m->{d}. With an earlier actuator "
                               f"whose block in that index space is not of size 1 the plugin reads/writes another "
                               f"actuator's slot")
                else:   # nactuator rows: flag only a definite contradiction
                    wrong = p & io_dims
                    if wrong:
                        good = False
                        why = (f"`{cir.text(n)}`: {fld} has nactuator rows but the index runs over "
                               f"{sorted(wrong)} — actuators are missed or rows past the end are read when that "
                               f"dimension differs from nactuator")
                    else:
                        good = True
                cur = per.setdefault(fld, [True, None, None])
                if not good and cur[0]:
                    per[fld] = [False, n.get("line"), why]
            for fld, (good, line, why) in sorted(per.items()):
                c = f"{f.key}:{fld}"
                if good:
                    res.ok("R-INDEXDIM", c, {"rows": dims[fld]})
                else:
                    res.bad("R-INDEXDIM", c, f.file, line, why)
    res.count("index_sites", nsites)


# ---------------------------------------------------------------------------------------------------------------


def run(res, tier):
    repo = cfront.REPO
    cfront.load_tus([PID_TU, CABLE_TU, ELAST_TU], repo, load=False)
    tus = {"pid": TU(PID_TU, repo), "cable": TU(CABLE_TU, repo), "elast": TU(ELAST_TU, repo)}
    res.count("tus", 3)
    res.count("functions", sum(len(t.fns()) for t in tus.values()))
    clip_rules(res, tus["pid"])
    table_rule(res, tus["pid"])
    who_writes_rule(res, tus)
    indexdim_rule(res, tus, repo)
    res.explanation = (
        "Static analysis of the PID and cable plugins from clang's typed AST. R-MUSTPASS: all-paths exploration (throw/"
        "return end a path) of the canonical view of each method (TU helper functions and lambdas expanded in place) "
        "with the optional's has_value() as a tracked predicate; the integral / setpoint is tracked as a value (copies, "
        "?:, helper results), the clip must be mju_clip of that value with the structurally matched bounds. R-SIBLING: "
        "alpha-normalised expression/guard text on the nested view. "
        "R-TABLE: guard keys resolved to PidConfig fields through PidConfig::FromModel's attribute map, so the static "
        "slot counter (which reads attributes) and the members (which read config_) are comparable. R-WHO-WRITES: "
        "field-level mod events over the callback closure inside the TU. R-INDEXDIM: row dimensions from the X-macro "
        "tables, address arrays from MJMODEL_REFERENCES, index provenance through locals, parameters (all call sites) "
        "and loops.")
    res.not_decided = ("the arithmetic of the PID law; that the cable force vanishes in the stress-free configuration; "
                       "effects of engine functions called with the whole mjData beyond the listed ones.")
    res.assumptions = ["engine functions listed in ENGINE_EFFECTS have the stated effect on mjData",
                       "every caller of mj_initPlugin resets or overwrites mjData afterwards (read in engine_io.c, "
                       "user_model.cc)"]


# ---------------------------------------------------------------------------------------------------------------
# self-test (thorough tier)

_ACTDOT_CLIP = ("      if (config_.i_max.has_value()) {\n        integral = mju_clip(integral, -*config_.i_max, *config_.i_max);\n"
                "      }\n      d->act_dot[state_idx] = (integral - d->act[state_idx]) / m->opt.timestep;")
_COMPUTE_CLIP = ("      if (config_.i_max.has_value()) {\n        integral =\n"
                 "            mju_clip(integral, -*config_.i_max, *config_.i_max);\n      }\n")
_GETSTATE_I = "  if (config_.i_gain) {\n    state.integral = d->act[state_idx++];\n  }\n"
_GETSTATE_S = ("  if (config_.slew_max.has_value()) {\n    state.previous_ctrl = d->act[state_idx++];\n"
               "    state.previous_ctrl_exists = d->time > 0;\n  }\n")
_FIX = [
    (PID_TU, "  for (int i = 0; i < m->nu; i++) {\n    if (m->actuator_plugin[i] == instance) {",
     "  for (int i = 0; i < m->nactuator; i++) {\n    if (m->actuator_plugin[i] == instance) {"),
    (PID_TU, "    ctrl = d->ctrl[actuator_idx];\n    // clamp ctrl\n    if (m->actuator_ctrllimited[actuator_idx]) {\n"
             "      ctrl = mju_clip(ctrl, m->actuator_ctrlrange[2 * actuator_idx],\n"
             "                      m->actuator_ctrlrange[2 * actuator_idx + 1]);",
     "    int ctrladr = m->actuator_ctrladr[actuator_idx];\n    ctrl = d->ctrl[ctrladr];\n    // clamp ctrl\n"
     "    if (m->actuator_ctrllimited[ctrladr]) {\n      ctrl = mju_clip(ctrl, m->actuator_ctrlrange[2 * ctrladr],\n"
     "                      m->actuator_ctrlrange[2 * ctrladr + 1]);"),
    (PID_TU, "    mjtNum error = ctrl - d->actuator_length[actuator_idx];\n\n    int state_idx",
     "    mjtNum error = ctrl - d->actuator_length[m->actuator_outadr[actuator_idx]];\n\n    int state_idx"),
    (PID_TU, "    mjtNum error = ctrl - d->actuator_length[actuator_idx];\n\n    mjtNum ctrl_dot",
     "    int outadr = m->actuator_outadr[actuator_idx];\n    mjtNum error = ctrl - d->actuator_length[outadr];\n\n"
     "    mjtNum ctrl_dot"),
    (PID_TU, "ctrl_dot - d->actuator_velocity[actuator_idx];", "ctrl_dot - d->actuator_velocity[outadr];"),
    (PID_TU, "    d->actuator_force[actuator_idx] = config_.p_gain", "    d->actuator_force[outadr] = config_.p_gain"),
]

MUTANTS = [
    # ---- group A (must fire)
    {"id": "drop-integral-clip-actdot", "group": "A", "expect": ("R-MUSTPASS", "Pid::ActDot:integral-clip"),
     "edits": [(PID_TU, _ACTDOT_CLIP,
                "      d->act_dot[state_idx] = (integral - d->act[state_idx]) / m->opt.timestep;")]},
    {"id": "drop-slew-clip", "group": "A", "expect": ("R-MUSTPASS", "Pid::GetCtrl:slew-limit"),
     "edits": [(PID_TU, "    ctrl = mju_clip(ctrl, ctrl_min, ctrl_max);\n", "")]},
    {"id": "swap-state-slots", "group": "A", "expect": ("R-TABLE", "slot-sequence"),
     "edits": [(PID_TU, _GETSTATE_I + _GETSTATE_S, _GETSTATE_S + _GETSTATE_I)]},
    {"id": "cable-writes-qpos", "group": "A", "expect": ("R-WHO-WRITES", "cable:compute:mjData.qpos"),
     "edits": [(CABLE_TU, "    // elastic forces\n    mjtNum quat[4] = {0};", "    d->qpos[0] = 0;\n    // elastic forces\n    mjtNum quat[4] = {0};")]},
    # ---- group B (must fire)
    {"id": "clip-bounds-wrong-compute", "group": "B", "expect": ("R-MUSTPASS", "Pid::Compute:integral-clip"),
     "edits": [(PID_TU, "            mju_clip(integral, -*config_.i_max, *config_.i_max);",
                "            mju_clip(integral, 0, *config_.i_max);")]},
    {"id": "slew-bound-wrong", "group": "B", "expect": ("R-MUSTPASS", "Pid::GetCtrl:slew-limit"),
     "edits": [(PID_TU, "mjtNum ctrl_max = state.previous_ctrl + *config_.slew_max * m->opt.timestep;",
                "mjtNum ctrl_max = state.previous_ctrl + *config_.slew_max;")]},
    {"id": "pid-compute-writes-act", "group": "B", "expect": ("R-WHO-WRITES", "pid:compute:mjData.act"),
     "edits": [(PID_TU, "    mjtNum error_dot = ctrl_dot", "    d->act[0] = ctrl;\n    mjtNum error_dot = ctrl_dot")]},
    {"id": "state-index-by-actuator-id", "group": "B", "expect": ("R-INDEXDIM", "Pid::ActDot:act_dot"),
     "edits": [(PID_TU, "    int state_idx = m->actuator_actadr[actuator_idx];\n    if (config_.i_gain) {\n      mjtNum integral",
                "    int state_idx = actuator_idx;\n    if (config_.i_gain) {\n      mjtNum integral")]},
    # ---- group C (must fire)
    {"id": "sibling-expression-differs", "group": "C", "expect": ("R-SIBLING", "integral"),
     "edits": [(PID_TU, "      integral = state.integral + error * m->opt.timestep;", "      integral = state.integral + error;")]},
    {"id": "slot-without-step", "group": "C", "expect": ("R-TABLE", "slot-step"),
     "edits": [(PID_TU, "/ m->opt.timestep;\n      ++state_idx;\n    }\n    if (config_.slew_max.has_value()) {",
                "/ m->opt.timestep;\n    }\n    if (config_.slew_max.has_value()) {")]},
    {"id": "drop-integral-clip-compute", "group": "C", "expect": ("R-MUSTPASS", "Pid::Compute:integral-clip"),
     "edits": [(PID_TU, _COMPUTE_CLIP, "")]},
    {"id": "cable-visualize-writes-xpos", "group": "C", "expect": ("R-WHO-WRITES", "cable:visualize:mjData.xpos"),
     "edits": [(CABLE_TU, "    // set geometry color based on stress norm\n", "    d->xpos[3*i] = 0;\n    // set geometry color based on stress norm\n")]},
    # ---- group D (controls: behaviour-preserving)
    {"id": "rename-integral-local", "group": "D", "expect": None,
     "edits": [(PID_TU, "      mjtNum integral = state.integral + error * m->opt.timestep;\n" + _ACTDOT_CLIP,
                "      mjtNum accum = state.integral + error * m->opt.timestep;\n"
                "      if (config_.i_max.has_value()) {\n        accum = mju_clip(accum, -*config_.i_max, *config_.i_max);\n"
                "      }\n      d->act_dot[state_idx] = (accum - d->act[state_idx]) / m->opt.timestep;")]},
    {"id": "rename-slew-locals", "group": "D", "expect": None,
     "edits": [(PID_TU, "ctrl_min", "lo", 5), (PID_TU, "ctrl_max", "hi", 5)]},
    {"id": "reorder-independent", "group": "D", "expect": None,
     "edits": [(PID_TU, "    mjtNum error = ctrl - d->actuator_length[m->actuator_outadr[actuator_idx]];\n\n    int state_idx = m->actuator_actadr[actuator_idx];\n",
                "    int state_idx = m->actuator_actadr[actuator_idx];\n\n    mjtNum error = ctrl - d->actuator_length[m->actuator_outadr[actuator_idx]];\n")]},
    {"id": "extract-clip-helper", "group": "F", "expect": None,
     "edits": [(PID_TU, "void Pid::ActDot(const mjModel* m, mjData* d, int instance) const {",
                "static mjtNum ClipIntegral(const PidConfig& config, mjtNum x) {\n"
                "  if (config.i_max.has_value()) {\n    return mju_clip(x, -*config.i_max, *config.i_max);\n  }\n  return x;\n}\n\n"
                "void Pid::ActDot(const mjModel* m, mjData* d, int instance) const {"),
               (PID_TU, "      mjtNum integral = state.integral + error * m->opt.timestep;\n" + _ACTDOT_CLIP,
                "      mjtNum integral = state.integral + error * m->opt.timestep;\n"
                "      integral = ClipIntegral(config_, integral);\n"
                "      d->act_dot[state_idx] = (integral - d->act[state_idx]) / m->opt.timestep;"),
               (PID_TU, _COMPUTE_CLIP, "      integral = ClipIntegral(config_, integral);\n")]},
    # ---- group E: the proposed fix of the index-space defect makes exactly those reports disappear
    {"id": "fix-index-spaces", "group": "E", "expect": None, "fixes": [("R-INDEXDIM", "Pid::")], "edits": _FIX},
]


_FIX_HELPER = list(_FIX[:-1]) + [
    (PID_TU, "    d->actuator_force[actuator_idx] = config_.p_gain", "    d->actuator_force[OutAdr(m, actuator_idx)] = config_.p_gain"),
    (PID_TU, "void Pid::Compute(const mjModel* m, mjData* d, int instance) {",
     "static int OutAdr(const mjModel* m, int id) {\n  return m->actuator_outadr[id];\n}\n\n"
     "void Pid::Compute(const mjModel* m, mjData* d, int instance) {"),
]
MUTANTS.append({"id": "fix-index-spaces-through-helper", "group": "G", "expect": None,
                "fixes": [("R-INDEXDIM", "Pid::")], "edits": _FIX_HELPER})


# ---- shapes of behaviour-preserving refactorings (controls, group H) and the same shapes hiding a defect (group I)
_ACTDOT_BLOCK = "      mjtNum integral = state.integral + error * m->opt.timestep;\n" + _ACTDOT_CLIP
_COMPUTE_BLOCK = "      integral = state.integral + error * m->opt.timestep;\n" + _COMPUTE_CLIP
_ACTDOT_HEAD = "void Pid::ActDot(const mjModel* m, mjData* d, int instance) const {"
_INTEGRATE = ("static mjtNum IntegrateError(const PidConfig& config, mjtNum previous_integral,\n"
              "                             mjtNum error, mjtNum timestep) {\n"
              "  mjtNum integral = previous_integral + error * timestep;\n%s  return integral;\n}\n\n")
_INTEGRATE_CLIP = ("  if (config.i_max.has_value()) {\n    integral = mju_clip(integral, -*config.i_max, *config.i_max);\n"
                   "  }\n")
_ACTDOT_CALL = ("      mjtNum integral =\n          IntegrateError(config_, state.integral, error, m->opt.timestep);\n"
                "      d->act_dot[state_idx] = (integral - d->act[state_idx]) / m->opt.timestep;")
_COMPUTE_CALL = "      integral = IntegrateError(config_, state.integral, error, m->opt.timestep);\n"
_SLEW = ("  if (config_.slew_max.has_value() && state.previous_ctrl_exists) {\n"
         "    mjtNum ctrl_min = state.previous_ctrl - *config_.slew_max * m->opt.timestep;\n"
         "    mjtNum ctrl_max = state.previous_ctrl + *config_.slew_max * m->opt.timestep;\n"
         "    ctrl = mju_clip(ctrl, ctrl_min, ctrl_max);\n  }\n  return ctrl;\n}")
_SLEW_EARLY = ("  if (!config_.slew_max.has_value() || !state.previous_ctrl_exists) {\n    return ctrl;\n  }\n"
               "  mjtNum ctrl_min = state.previous_ctrl - *config_.slew_max * m->opt.timestep;\n"
               "  mjtNum ctrl_max = state.previous_ctrl + *config_.slew_max * m->opt.timestep;\n"
               "  return mju_clip(ctrl, ctrl_min, %s);\n}")
MUTANTS += [
    # the integral is computed and clipped in a helper in ActDot and by a conditional expression in Compute
    {"id": "integrate-through-helper-and-ternary", "group": "H", "expect": None,
     "edits": [(PID_TU, _ACTDOT_HEAD, _INTEGRATE % _INTEGRATE_CLIP + _ACTDOT_HEAD),
               (PID_TU, _ACTDOT_BLOCK, _ACTDOT_CALL),
               (PID_TU, _COMPUTE_CLIP,
                "      integral = config_.i_max.has_value()\n"
                "                     ? mju_clip(integral, -*config_.i_max, *config_.i_max)\n                     : integral;\n")]},
    {"id": "slew-early-return-clip-in-return", "group": "H", "expect": None,
     "edits": [(PID_TU, _SLEW, _SLEW_EARLY % "ctrl_max")]},
    {"id": "compute-range-for", "group": "H", "expect": None,
     "edits": [(PID_TU, "  for (int i = 0; i < actuators_.size(); i++) {\n    int actuator_idx = actuators_[i];\n"
                        "    State state = GetState(m, d, actuator_idx);\n    mjtNum ctrl =\n",
                "  for (int actuator_idx : actuators_) {\n    State state = GetState(m, d, actuator_idx);\n"
                "    mjtNum ctrl =\n")]},
    # both methods integrate through one helper (the D-p11 shape)
    {"id": "integrate-through-helper-both", "group": "J", "expect": None,
     "edits": [(PID_TU, _ACTDOT_HEAD, _INTEGRATE % _INTEGRATE_CLIP + _ACTDOT_HEAD),
               (PID_TU, _ACTDOT_BLOCK, _ACTDOT_CALL), (PID_TU, _COMPUTE_BLOCK, _COMPUTE_CALL)]},
    # the helper forgets the clip: both callers use the raw integral
    {"id": "integrate-helper-without-clip", "group": "I", "expect": ("R-MUSTPASS", "Pid::ActDot:integral-clip"),
     "edits": [(PID_TU, _ACTDOT_HEAD, _INTEGRATE % "" + _ACTDOT_HEAD),
               (PID_TU, _ACTDOT_BLOCK, _ACTDOT_CALL), (PID_TU, _COMPUTE_BLOCK, _COMPUTE_CALL)]},
    {"id": "slew-return-clip-wrong-bound", "group": "I", "expect": ("R-MUSTPASS", "Pid::GetCtrl:slew-limit"),
     "edits": [(PID_TU, _SLEW, _SLEW_EARLY % "ctrl_min")]},
]


def selftest(res):
    cxx3.run_mutants("C51", res, MUTANTS, parts=("include", "src", "cmake", "CMakeLists.txt", "plugin"))
