"""C41 The MJCF schema-language parser is total and its checks sound (doc/generate/mjcf_schema.py).

Static exception-escape analysis of everything reachable from parse_string / parse_file (ast only):
 R-EXC-RAISE    every raise constructs SchemaError with a line that derives from a token / declaration line
 R-EXC-OPS      every operation that can raise something else is discharged by an idiom of a closed list
 R-ASSUME-GUAR  unguarded schema-table lookups are justified by a validator check that runs first
 R-RECURSION    no recursion whose depth is bounded only by the input
 R-COVER        every documented rule has a SchemaError raise control-dependent on that rule's data
 R-LINE-COUNT   the lexer's line counter advances exactly once per physical line terminator (regex AST of the
                newline token: language, CRLF as one token, no other class consumes terminator characters)
The rules are stated on canonical views (sa/pyfront.py): calls through dispatch tables of bound methods and through
callable parameters resolve to all targets; a helper that always raises is a raise; a checking / predicate helper is its
test at the call site; private helpers inherit what holds at all their call sites; a dispatch table is read once per
entry (R-COVER); flag-run loops are judged by the test that guards the use (LOOP-NONEMPTY).  What cannot be interpreted
(an untraceable callable, key or unpacked value, a raise whose variable has no inferable class) is reported as
ANALYSIS-ERROR, not as a violation.
Not decided: that the error line is the *right* line; TypeErrors from operand types other than ordering
comparisons (left to the repository's own type checker); I/O errors of parse_file (outside the quantifier:
inputs are texts); termination of the regex engine.
"""
from __future__ import annotations

import ast
import re

from .. import pyfront as P
from ..cfront import AnalysisError

LEVEL = "other"
FILE = "doc/generate/mjcf_schema.py"

# closed list of discharge idioms of R-EXC-OPS (name -> why it is sufficient)
IDIOMS = {
    "TRY-VALUEERROR": "conversion inside try/except ValueError whose handler raises (a SchemaError, by R-EXC-RAISE) or handles",
    "NUMBER-TOKEN": "float() of the text of a token whose kind is 'number'; the NUMBER sub-regex is included in float()'s grammar",
    "MEMBERSHIP": "subscript dominated by a membership test of the same key in the same container",
    "INDEX-LT-LEN": "index dominated by `i < len(x)` with i a non-negative counter",
    "TOKEN-CURSOR": "tokens[pos]: the token list ends with 'eof', pos only advances in next(), and eof is never consumed without raising",
    "EOF-RAISE": "a token taken by next() that may be 'eof' reaches a raise before the cursor is used again",
    "NEXT-NON-EOF": "next() under a test that the peeked token has a kind every caller passes as a constant other than 'eof'",
    "VALIDATOR-GUARANTEE": "key is a field the validator has checked to be in the table, for every declaration, before any consumer runs",
    "LITERAL-ARITY": "unpacking of a tuple literal of the same length",
    "RETURN-ARITY": "unpacking of the result of a function all of whose returns are tuple literals of that length",
    "DISPATCH-ARITY": "unpacking of a value that can only be one of the tuple literals (of that length) stored in a dict "
                      "literal that is only ever looked up; a `.get` miss (None) is excluded by a dominating test",
    "FIELD-ARITY": "unpacking of elements of a list field that is only ever filled with tuple literals of that length",
    "NOT-NONE": "dereference dominated by a test that the value is not None / truthy",
    "ISINSTANCE": "attribute of a union-typed member dominated by an isinstance test of a class that declares it",
    "NUMERIC": "both operands of an ordering comparison are ints/floats by construction, annotation or isinstance test",
    "ITER-OF-LIST": "iter() of a list/tuple-typed value (literal, list(..), field annotated list/tuple/dict) cannot raise",
    "LOOP-NONEMPTY": "x[-1] / x[0] / x.pop() under `while x:` with nothing that can shrink x between the loop test and the use",
    "PAIRED-STACK": "y.pop() right after a LOOP-NONEMPTY x.pop(), where every growth of x is adjacent to a growth of y and y "
                    "shrinks nowhere else: len(y) >= len(x) >= 1",
}


def _head(call_or_node):
    """Stable descriptor of a raise: leading constant text of its message."""
    for n in ast.walk(call_or_node):
        if isinstance(n, ast.Constant) and isinstance(n.value, str) and n.value.strip():
            return re.sub(r"\s+", " ", n.value.strip())[:40]
    return "?"


class Ctx:
    def __init__(self):
        self.sm = P.model()
        self.m = self.sm.mod
        for q in ("parse_string", "parse_file", "_lex", "_validate", "_validate_attr", "_check_group_cycle",
                  "_Parser.parse", "_Parser.next", "_Parser.peek", "_Parser.expect", "_Parser.accept",
                  "_Parser.error", "Schema.expanded_attrs"):
            self.m.func(q)
        if "SchemaError" not in self.m.classes:
            raise AnalysisError("anchor vanished: class SchemaError")
        self.roots = [self.m.func("parse_string"), self.m.func("parse_file")]
        # _validate is analysed even if an edit disconnects it (R-ASSUME-GUAR then reports the missing call)
        self.closure = P.closure(self.roots + [self.m.func("_validate")])
        self.noret = P._noret(self.m)
        self.und = P.Undecided()

    def sites_of(self, fn):
        return P.call_sites(fn, self.closure)


# ============================================================================ R-EXC-RAISE
def _returns_schema_error(fn, cx):
    """(ok, line_expr) : every return of fn is SchemaError(path, <line>, msg)."""
    rets = [n for n in cx.m.nodes(fn) if isinstance(n, ast.Return)]
    line = None
    for r in rets:
        c = r.value
        if not (isinstance(c, ast.Call) and isinstance(c.func, ast.Name) and c.func.id == "SchemaError"):
            return False, None
        line = _line_arg(c, cx.m.funcs.get("SchemaError.__init__"))
    return bool(rets), line


def _line_arg(call, target):
    for kw in call.keywords:
        if kw.arg == "line":
            return kw.value
    if target is not None:
        b = P.bind_args(call, target)
        return b.get("line")
    return call.args[1] if len(call.args) > 1 else None


def line_ok(expr, fn, cx, seen=None, depth=0):
    """None if `expr` derives from a token/declaration line (or the lexer's line counter); else a reason."""
    seen = seen if seen is not None else set()
    if depth > 8:
        return "line provenance too deep"
    if isinstance(expr, ast.Attribute):
        return None if expr.attr == "line" else f"`{P.text(expr)}` is not a .line of a token or declaration"
    if isinstance(expr, ast.Constant):
        return f"line is the literal constant {expr.value!r}"
    if isinstance(expr, ast.IfExp):
        return line_ok(expr.body, fn, cx, seen, depth + 1) or line_ok(expr.orelse, fn, cx, seen, depth + 1)
    if isinstance(expr, ast.BoolOp) and isinstance(expr.op, ast.Or):
        for v in expr.values:
            r = line_ok(v, fn, cx, seen, depth + 1)
            if r:
                return r
        return None
    if isinstance(expr, ast.Name):
        scope = P._scope_of(expr.id, fn)
        if scope is None:
            return f"`{expr.id}` is not a local, parameter or line field"
        if (scope, expr.id) in seen:
            return None
        seen.add((scope, expr.id))
        stores = P.stores_of(scope).get(expr.id, [])
        if expr.id in scope.params and stores:
            # parameter that is also re-bound: both the callers' values and the local bindings must be lines
            for caller, call in cx.sites_of(scope):
                a = P.bind_args(call, scope).get(expr.id)
                if a is not None and caller is not scope:
                    r = line_ok(a, caller, cx, seen, depth + 1)
                    if r:
                        return f"{caller.qual}: {r}"
        if expr.id in scope.params and not stores:
            sites = cx.sites_of(scope)
            if not sites:
                return f"parameter `{expr.id}` of {scope.qual} has no call site"
            for caller, call in sites:
                a = P.bind_args(call, scope).get(expr.id)
                if a is None:
                    default = _default_of(scope, expr.id)
                    if default is not None and isinstance(default, ast.Constant) and default.value is None:
                        continue      # None default: the callee must supply a fallback (checked where it is used)
                    return f"call of {scope.qual} in {caller.qual} passes no `{expr.id}`"
                r = line_ok(a, caller, cx, seen, depth + 1)
                if r:
                    return f"{caller.qual}: {r}"
            return None
        # local: plain copies of line values, or the lexer's line counter
        counter = True
        for s in stores:
            st = s._parent
            if isinstance(st, ast.Assign) and isinstance(st.value, ast.Constant) and st.value.value == 1 \
                    and not P.loops_of(st):
                continue
            if isinstance(st, ast.AugAssign) and isinstance(st.op, ast.Add) and isinstance(st.value, ast.Constant) \
                    and st.value.value == 1:
                k = P.know_at(st, scope)
                if any(key[0] == "eq" and v and k.const(key[2]) == (True, "newline") for key, v in k.K.items()):
                    continue
                return f"line counter `{expr.id}` is incremented where no newline was matched"
            counter = False
            break
        if counter and stores:
            return None
        for s in stores:
            st = s._parent
            if isinstance(st, ast.Assign) and s._field == "targets":
                r = line_ok(st.value, scope, cx, seen, depth + 1)
                if r:
                    return r
            elif isinstance(st, ast.Tuple) and isinstance(st._parent, ast.Assign) and isinstance(st._parent.value, ast.Call) \
                    and isinstance(st._parent.value.func, ast.Attribute) and st._parent.value.func.attr == "pop" \
                    and isinstance(st._parent.value.func.value, ast.Name):
                # unpacked from a work list: every tuple ever put on the list must carry a line in that position
                el = _list_elem_exprs(st._parent.value.func.value.id, scope)
                if not el or not all(isinstance(e, ast.Tuple) and len(e.elts) == len(st.elts) for e in el):
                    return f"`{expr.id}` is unpacked from a list whose elements are not all {len(st.elts)}-tuples"
                for e in el:
                    r = line_ok(e.elts[s._idx], scope, cx, seen, depth + 1)
                    if r:
                        return r
            else:
                return f"`{expr.id}` is bound by something other than a plain assignment"
        return None
    return f"`{P.text(expr)}` is not a token/declaration line"


def _default_of(fn, pname):
    a = fn.node.args
    pos = a.posonlyargs + a.args
    for p, d in zip(pos[len(pos) - len(a.defaults):], a.defaults):
        if p.arg == pname:
            return d
    for p, d in zip(a.kwonlyargs, a.kw_defaults):
        if p.arg == pname:
            return d
    return None


def rule_raise(res, cx):
    res.rule("R-EXC-RAISE", "every raise reachable from parse_string/parse_file constructs SchemaError (directly, "
             "via self.error, via a local err helper) and its line derives from a token/declaration line", floor=32)
    m = cx.m
    err_fn = m.func("_Parser.error")
    ok_err, err_line = _returns_schema_error(err_fn, cx)
    n_raise = 0
    for fn in cx.closure:
        for st in m.nodes(fn):
            if not isinstance(st, ast.Raise):
                continue
            n_raise += 1
            exc = st.exc
            where = dict(file=FILE, line=st.lineno)
            if exc is None:
                h = [a for a in P.ancestors(st) if isinstance(a, ast.ExceptHandler)]
                names = {P.text(h[0].type)} if h and h[0].type is not None else set()
                if names == {"SchemaError"}:
                    res.ok("R-EXC-RAISE", f"{fn.qual}:reraise", where)
                else:
                    res.bad("R-EXC-RAISE", f"{fn.qual}:reraise", FILE, st.lineno,
                            "bare `raise` re-raises an exception that is not known to be SchemaError")
                continue
            construct = f"{fn.qual}:raise[{_head(exc)}]"
            if not isinstance(exc, ast.Call):
                res.bad("R-EXC-RAISE", construct, FILE, st.lineno, f"raises `{P.text(exc)}`, not a constructed SchemaError")
                continue
            kind, p = P.resolve(exc, fn)
            line_expr, via = None, None
            if isinstance(exc.func, ast.Name) and exc.func.id == "SchemaError":
                line_expr, via = _line_arg(exc, m.funcs.get("SchemaError.__init__")), "direct"
            elif kind == "func" and p == [err_fn]:
                if not ok_err:
                    res.bad("R-EXC-RAISE", construct, FILE, st.lineno, "_Parser.error does not return SchemaError(...) on every path")
                    continue
                line_expr, via = P.bind_args(exc, err_fn).get("line"), "self.error"
                if line_expr is None:
                    res.bad("R-EXC-RAISE", construct, FILE, st.lineno,
                            "self.error(...) without line=: falls back to self.peek(), which is not the offending "
                            "token and raises IndexError once 'eof' has been consumed")
                    continue
            else:
                res.bad("R-EXC-RAISE", construct, FILE, st.lineno,
                        f"raises `{P.text(exc.func)}(...)`, which is not SchemaError")
                continue
            if line_expr is None:
                res.bad("R-EXC-RAISE", construct, FILE, st.lineno, "SchemaError constructed without a line argument")
                continue
            # a helper whose line is its own parameter: one obligation per call site
            if fn in cx.noret and isinstance(line_expr, ast.Name) and line_expr.id in fn.params:
                sites = cx.sites_of(fn)
                if not sites:
                    res.bad("R-EXC-RAISE", construct, FILE, st.lineno, f"helper {fn.qual} is never called")
                for caller, call in sites:
                    a = P.bind_args(call, fn).get(line_expr.id)
                    c2 = f"{caller.qual}:{fn.node.name}[{_head(call)}]"
                    r = "no line argument" if a is None else line_ok(a, caller, cx)
                    if r:
                        res.bad("R-EXC-RAISE", c2, FILE, call.lineno, f"SchemaError line: {r}")
                    else:
                        res.ok("R-EXC-RAISE", c2, {"file": FILE, "line": call.lineno, "line_expr": P.text(a)})
                continue
            r = line_ok(line_expr, fn, cx)
            if r:
                res.bad("R-EXC-RAISE", construct, FILE, st.lineno, f"SchemaError line: {r}")
            else:
                res.ok("R-EXC-RAISE", construct, {"file": FILE, "line": st.lineno, "via": via, "line_expr": P.text(line_expr)})
    # the fallback inside error() itself
    if ok_err and err_line is not None:
        r = line_ok(err_line, err_fn, cx)
        if r:
            res.bad("R-EXC-RAISE", "_Parser.error:line", FILE, err_fn.node.lineno, f"SchemaError line: {r}")
        else:
            res.ok("R-EXC-RAISE", "_Parser.error:line", {"file": FILE, "line": err_fn.node.lineno, "line_expr": P.text(err_line)})
    # no handler may swallow SchemaError (the raise must really escape)
    for fn in cx.closure:
        for h in m.nodes(fn):
            if isinstance(h, ast.ExceptHandler):
                names = set()
                if h.type is not None:
                    names = {P.text(e) for e in (h.type.elts if isinstance(h.type, ast.Tuple) else [h.type])}
                if h.type is None or names & {"SchemaError", "Exception", "BaseException"}:
                    if not P._always(h.body, fn, cx.noret, raise_only=True):
                        res.bad("R-EXC-RAISE", f"{fn.qual}:except[{','.join(sorted(names)) or 'bare'}]", FILE, h.lineno,
                                "handler can swallow a SchemaError inside the parser (parsing would continue past the error)")
    res.count("raise_statements", n_raise)


# ============================================================================ R-EXC-OPS helpers
def _token_regex(cx):
    """(pattern, flags, node) of the lexer's compiled token regex."""
    m = cx.m
    lex = m.func("_lex")
    names = {n.func.value.id for n in m.nodes(lex) if isinstance(n, ast.Call) and isinstance(n.func, ast.Attribute)
             and n.func.attr == "match" and isinstance(n.func.value, ast.Name)}
    for st in m.tree.body:
        if isinstance(st, ast.Assign) and isinstance(st.targets[0], ast.Name) and st.targets[0].id in names \
                and isinstance(st.value, ast.Call) and P.text(st.value.func) == "re.compile" and st.value.args \
                and isinstance(st.value.args[0], ast.Constant) and isinstance(st.value.args[0].value, str):
            flags = 0
            for a in st.value.args[1:]:
                for part in P.text(a).split("|"):
                    part = part.strip()
                    if not part.startswith("re.") or not hasattr(re, part[3:]):
                        raise AnalysisError(f"token regex: cannot evaluate flag {part}")
                    flags |= int(getattr(re, part[3:]))
            return st.value.args[0].value, flags, st
    raise AnalysisError("anchor vanished: the lexer's re.compile(...) token regex")


_CLASSES = ("d", ".", "e", "+", "-", "_", "w", "o")


def _cls(ch):
    c = chr(ch)
    if c.isdigit():
        return "d"
    if c in ".+-_":
        return c
    if c in "eE":
        return "e"
    if c.isspace():
        return "w"
    return "o"


def _nfa(tree, nfa, start):
    """Thompson construction over the abstract alphabet; returns the end state. Lookarounds are dropped
    (over-approximates the language, which is sound for an inclusion proof)."""
    from re import _constants as C
    cur = start
    for op, av in tree:
        nxt = nfa.new()
        if op is C.LITERAL:
            nfa.edge(cur, _cls(av), nxt)
        elif op is C.NOT_LITERAL or op is C.ANY:
            for c in _CLASSES:
                nfa.edge(cur, c, nxt)
        elif op is C.IN:
            cls = set()
            negate = False
            for o2, a2 in av:
                if o2 is C.NEGATE:
                    negate = True
                elif o2 is C.LITERAL:
                    cls.add(_cls(a2))
                elif o2 is C.RANGE:
                    if a2[1] - a2[0] > 512:
                        cls |= set(_CLASSES)
                    else:
                        cls |= {_cls(x) for x in range(a2[0], a2[1] + 1)}
                elif o2 is C.CATEGORY and a2 is C.CATEGORY_DIGIT:
                    cls.add("d")
                else:
                    cls |= set(_CLASSES)
            if negate:
                cls = set(_CLASSES)
            for c in cls:
                nfa.edge(cur, c, nxt)
        elif op in (C.MAX_REPEAT, C.MIN_REPEAT, C.POSSESSIVE_REPEAT):
            lo, hi, sub = av
            s = cur
            for _ in range(lo):
                s = _nfa(sub, nfa, s)
            if hi is C.MAXREPEAT:
                loop = nfa.new()
                nfa.eps(s, loop)
                e = _nfa(sub, nfa, loop)
                nfa.eps(e, loop)
                nfa.eps(loop, nxt)
            else:
                nfa.eps(s, nxt)
                for _ in range(hi - lo):
                    s = _nfa(sub, nfa, s)
                    nfa.eps(s, nxt)
        elif op is C.SUBPATTERN:
            nfa.eps(_nfa(av[3], nfa, cur), nxt)
        elif op is C.ATOMIC_GROUP:
            nfa.eps(_nfa(av, nfa, cur), nxt)
        elif op is C.BRANCH:
            for alt in av[1]:
                nfa.eps(_nfa(alt, nfa, cur), nxt)
        elif op in (C.ASSERT, C.ASSERT_NOT, C.AT):
            nfa.eps(cur, nxt)
        else:
            raise AnalysisError(f"token regex: unsupported construct {op}")
        cur = nxt
    return cur


class _NFA:
    def __init__(self):
        self.n, self.e, self.ep = 0, {}, {}

    def new(self):
        self.n += 1
        return self.n - 1

    def edge(self, a, c, b):
        self.e.setdefault((a, c), set()).add(b)

    def eps(self, a, b):
        self.ep.setdefault(a, set()).add(b)

    def close(self, S):
        S, work = set(S), list(S)
        while work:
            for t in self.ep.get(work.pop(), ()):
                if t not in S:
                    S.add(t)
                    work.append(t)
        return frozenset(S)


# a conservative sub-grammar of what float() accepts: [sign] (digits [. [digits]] | . digits) [e [sign] digits]
_FLOAT = {("S", "-"): "G", ("S", "+"): "G", ("S", "d"): "I", ("S", "."): "D", ("G", "d"): "I", ("G", "."): "D",
          ("I", "d"): "I", ("I", "."): "F", ("I", "e"): "E", ("D", "d"): "F", ("F", "d"): "F", ("F", "e"): "E",
          ("E", "+"): "X", ("E", "-"): "X", ("E", "d"): "P", ("X", "d"): "P", ("P", "d"): "P"}
_FLOAT_ACC = {"I", "F", "P"}


def regex_facts(cx):
    """(number_ok, number_msg, progress_ok, progress_msg, node) about the token regex."""
    from re import _parser
    from re import _constants as C
    pattern, flags, node = _token_regex(cx)
    tree = _parser.parse(pattern, flags)
    groups = tree.state.groupdict
    if "number" not in groups:
        raise AnalysisError("token regex has no (?P<number>...) group")
    alts = tree.data
    if len(alts) == 1 and alts[0][0] is C.BRANCH:
        alts = [a for a in alts[0][1][1]]
    else:
        alts = [tree]
    prog_ok, prog_msg = True, ""
    number = None
    for a in alts:
        if a.getwidth()[0] < 1:
            prog_ok, prog_msg = False, "a token alternative can match the empty string: the lexer loop would not advance"
        for op, av in a.data if hasattr(a, "data") else a:
            if op is C.SUBPATTERN and av[0] == groups["number"]:
                number = av[3]
    if number is None:
        raise AnalysisError("token regex: number group is not a top-level alternative")
    nfa = _NFA()
    s0 = nfa.new()
    end = _nfa(number, nfa, s0)
    start = (nfa.close({s0}), "S")
    seen, work = {start}, [start]
    ok, msg = True, ""
    while work and ok:
        S, q = work.pop()
        if end in S and q not in _FLOAT_ACC:
            ok, msg = False, "the NUMBER token regex matches a text float() rejects"
        for c in _CLASSES:
            T = set()
            for s in S:
                T |= nfa.e.get((s, c), set())
            if not T:
                continue
            nx = (nfa.close(T), _FLOAT.get((q, c), "dead"))
            if nx not in seen:
                seen.add(nx)
                work.append(nx)
    return ok, msg, prog_ok, prog_msg, node


def _cursor_methods(cx):
    """_Parser methods from which the token cursor (peek/next) is reachable."""
    m = cx.m
    base = {m.func("_Parser.peek"), m.func("_Parser.next")}
    out = set(base)
    changed = True
    while changed:
        changed = False
        for f in cx.closure:
            if f.cls == "_Parser" and f not in out and any(g in out for g in P.callees(f)):
                out.add(f)
                changed = True
    return out


def _is_cursor_call(n, fn, cursor, err_fn):
    if not isinstance(n, ast.Call):
        return False
    k, p = P.resolve(n, fn)
    if k != "func" or not any(g in cursor for g in p):
        return False
    if p == [err_fn] and any(kw.arg == "line" for kw in n.keywords):
        return False        # `line or self.peek().line`: peek is not evaluated for a real (>= 1) line
    return True


def _has_cursor(node, fn, cursor, err_fn):
    return any(_is_cursor_call(n, fn, cursor, err_fn) for n in ast.walk(node))


def _run_block(stmts, know, fn, cursor, err_fn):
    for s in stmts:
        if isinstance(s, ast.Raise):
            if s.exc is not None and _has_cursor(s.exc, fn, cursor, err_fn):
                return "the raise itself uses the cursor"
            return "raise"
        if isinstance(s, ast.If):
            if _has_cursor(s.test, fn, cursor, err_fn):
                return f"line {s.lineno}: the cursor is used before a raise"
            v = know.holds(know.forms.mk(s.test))
            if v is None:
                return f"line {s.lineno}: cannot decide `{P.text(s.test)}` for an 'eof' token"
            r = _run_block(s.body if v else s.orelse, know, fn, cursor, err_fn)
            if r != "fall":
                return r
            continue
        if isinstance(s, ast.Return):
            return f"line {s.lineno}: returns normally with 'eof' consumed"
        if isinstance(s, ast.Expr) and isinstance(s.value, ast.Call) and not any(
                _has_cursor(a, fn, cursor, err_fn) for a in list(s.value.args) + [k.value for k in s.value.keywords]):
            # a helper that always raises is a raise; a pure checking helper is its `if c: raise` at the call site
            if P.is_raise_site(s, fn):
                return "raise"
            tests = P._post_call_tests(s.value, fn)
            if tests:
                undecided = None
                for t in tests:
                    v = know.holds(know.forms.mk(t))
                    if v is True:
                        return "raise"
                    if v is None:
                        undecided = t
                if undecided is not None:
                    return f"line {s.lineno}: cannot decide `{P.text(undecided)[:60]}` for an 'eof' token"
                continue
        if isinstance(s, (ast.Assign, ast.AugAssign, ast.Expr, ast.AnnAssign, ast.Pass)):
            if _has_cursor(s, fn, cursor, err_fn):
                return f"line {s.lineno}: the cursor is used with 'eof' consumed"
            continue
        return f"line {s.lineno}: unsupported statement {type(s).__name__} after next()"
    return "fall"


def _run_after(stmt, know, fn, cursor, err_fn):
    cur = stmt
    while True:
        parent = cur._parent
        lst = getattr(parent, cur._field)
        r = _run_block(lst[cur._idx + 1:], know, fn, cursor, err_fn)
        if r != "fall":
            return r
        if isinstance(parent, ast.If):
            cur = parent
            continue
        if isinstance(parent, (ast.For, ast.While)):
            return "the enclosing loop continues with 'eof' consumed"
        if parent is fn.node:
            return "the function returns normally with 'eof' consumed"
        return f"unsupported enclosing {type(parent).__name__}"


def _const_args(target, pname, cx):
    """Constant values every call site passes for parameter pname, or None if some site is not constant."""
    vals = set()
    sites = cx.sites_of(target)
    if not sites:
        return None
    for caller, call in sites:
        a = P.bind_args(call, target).get(pname)
        if not isinstance(a, ast.Constant):
            return None
        vals.add(a.value)
    return vals


def token_cursor(cx):
    """Obligations of the TOKEN-CURSOR idiom: [(construct, ok, line, msg)]."""
    m = cx.m
    out = []
    lex, init, nxt, peek = m.func("_lex"), m.func("_Parser.__init__"), m.func("_Parser.next"), m.func("_Parser.peek")
    err_fn = m.func("_Parser.error")
    cursor = _cursor_methods(cx)
    # T1 the token list ends with 'eof'
    body = lex.node.body
    rets = [n for n in m.nodes(lex) if isinstance(n, ast.Return)]
    ok = len(rets) == 1 and rets[0] is body[-1] and len(body) >= 2
    if ok:
        r, a = body[-1], body[-2]
        first = r.value.elts[0] if isinstance(r.value, ast.Tuple) and r.value.elts else r.value
        ok = (isinstance(a, ast.Expr) and isinstance(a.value, ast.Call) and isinstance(a.value.func, ast.Attribute)
              and a.value.func.attr == "append" and P.text(a.value.func.value) == P.text(first)
              and isinstance(a.value.args[0], ast.Call) and a.value.args[0].args
              and isinstance(a.value.args[0].args[0], ast.Constant) and a.value.args[0].args[0].value == "eof")
    out.append(("_lex:eof-terminated", ok, body[-1].lineno,
                "" if ok else "_lex's single return is not immediately preceded by appending the 'eof' token to the returned list"))
    # T2 self.tokens / self.pos writers
    writes = []
    for f in m.funcs.values():
        if f.cls != "_Parser":
            continue
        for n in m.nodes(f):
            if isinstance(n, ast.Attribute) and isinstance(n.ctx, ast.Store) and isinstance(n.value, ast.Name) \
                    and n.value.id == "self" and n.attr in ("tokens", "pos"):
                writes.append((f, n))
    ok, msg, line = True, "", init.node.lineno
    for f, n in writes:
        st = P.stmt_of(n)
        if n.attr == "tokens":
            good = f is init and isinstance(st, ast.Assign) and isinstance(st.value, ast.Call) and \
                P.resolve(st.value, f) == ("func", [lex])
        else:
            good = (f is init and isinstance(st, ast.Assign) and isinstance(st.value, ast.Constant) and st.value.value == 0) or \
                   (f is nxt and isinstance(st, ast.AugAssign) and isinstance(st.op, ast.Add)
                    and isinstance(st.value, ast.Constant) and st.value.value == 1)
        if not good:
            ok, msg, line = False, f"{f.qual} writes self.{n.attr} other than `= _lex(..)` / `= 0` in __init__ / `+= 1` in next", n.lineno
    if not any(n.attr == "tokens" for _, n in writes) or not any(n.attr == "pos" for _, n in writes):
        ok, msg = False, "self.tokens / self.pos initialisation not found"
    out.append(("_Parser:cursor-writers", ok, line, msg))
    # T4 every direct next() call
    for f in cx.closure:
        for c in m.nodes(f):
            if not (isinstance(c, ast.Call) and P.resolve(c, f) == ("func", [nxt])):
                continue
            st = P.stmt_of(c)
            construct = f"{f.qual}:next()"
            if isinstance(st, ast.Assign) and st.value is c and len(st.targets) == 1 and isinstance(st.targets[0], ast.Name):
                tok = st.targets[0].id
                construct = f"{f.qual}:{tok}=next()"
                envs = [{}]
                for pn in f.params:
                    if pn == "self":
                        continue
                    vals = _const_args(f, pn, cx)
                    if vals is not None and all(isinstance(v, str) for v in vals):
                        envs = [dict(e, **{pn: v}) for e in envs for v in sorted(vals)]
                bad = None
                for env in envs:
                    k = P.Know(m, f, env)
                    k.assume_eq(f"{tok}.kind", "eof")
                    k.assume_eq(f"{tok}.value", "")
                    r = _run_after(st, k, f, cursor, err_fn)
                    if r != "raise":
                        bad = r + (f" (with {env})" if env else "")
                        break
                out.append((construct, bad is None, c.lineno, "EOF-RAISE: " + bad if bad else "", "EOF-RAISE"))
            else:
                # NEXT-NON-EOF
                k = P.know_at(c, f)
                good, why = False, "next() is neither bound to a name that is then kind-tested nor guarded by a peeked kind test"
                for key, v in k.K.items():
                    if key[0] == "eq" and v and key[1].endswith(".kind"):
                        x = key[1][:-5]
                        stx = P.stores_of(f).get(x, [])
                        if len(stx) != 1 or not isinstance(stx[0]._parent, ast.Assign):
                            continue
                        src = stx[0]._parent.value
                        if not (isinstance(src, ast.Call) and P.resolve(src, f) == ("func", [peek])):
                            continue
                        between = [n for n in m.nodes(f) if isinstance(n, ast.Call) and n is not c and n is not src
                                   and P.pos(src) < P.pos(n) < P.pos(c) and _is_cursor_call(n, f, cursor - {peek}, err_fn)]
                        if between:
                            why = "the cursor moves between the peek and the next()"
                            continue
                        ok2, cv = k.const(key[2])
                        vals = {cv} if ok2 else (_const_args(f, key[2], cx) if key[2] in f.params else None)
                        if vals is None:
                            why = f"the tested kind `{key[2]}` is not a constant at every call site"
                        elif "eof" in vals:
                            why = "a caller passes kind 'eof'"
                        else:
                            good = True
                out.append((construct, good, c.lineno, "" if good else "NEXT-NON-EOF: " + why, "NEXT-NON-EOF"))
    return out


# ============================================================================ R-EXC-OPS
SAFE_BUILTINS = {"isinstance", "len", "bool", "list", "tuple", "set", "frozenset", "str", "dict", "any", "all", "sum",
                 "repr", "sorted", "reversed", "super", "super.__init__"}
SAFE_METHODS = {"get", "values", "items", "keys", "append", "extend", "add", "strip", "join", "match", "group", "end",
                "start", "startswith", "endswith", "update", "setdefault"}
IO_CALLS = {"open", "read"}          # allowed in parse_file only: I/O errors are outside the property's quantifier
HAZARD_METHODS = {"pop", "index", "remove", "popitem"}
HAZARD_BUILTINS = {"next", "max", "min", "iter", "getattr", "int", "float"}
NUMERIC_NAMES = {"int", "float"}


def _optional_source(call, fn, cx):
    if not isinstance(call, ast.Call):
        return False
    f = call.func
    if isinstance(f, ast.Attribute) and f.attr == "get" and len(call.args) == 1 and not call.keywords:
        return True
    if isinstance(f, ast.Attribute) and f.attr in ("match", "search", "fullmatch"):
        return True
    k, p = P.resolve(call, fn)
    if k == "func":
        return any(None in P._ann_names(g.node.returns) for g in p)
    return False


def numeric(expr, fn, at, k, cx, depth=0):
    """The value of expr is an int/float by construction, annotation or a dominating isinstance test."""
    if depth > 6:
        return False
    t = P.text(expr)
    for key, v in k.K.items():
        if key[0] == "isinst" and key[1] == t and v and set(key[2]) <= NUMERIC_NAMES:
            return True
    if isinstance(expr, ast.Constant):
        return isinstance(expr.value, (int, float))
    if isinstance(expr, ast.IfExp):
        return numeric(expr.body, fn, at, k, cx, depth + 1) and numeric(expr.orelse, fn, at, k, cx, depth + 1)
    if isinstance(expr, ast.Call):
        f = expr.func
        if isinstance(f, ast.Name) and f.id in ("len", "int", "float", "abs"):
            return True
        if isinstance(f, ast.Attribute) and f.attr in ("end", "start") and isinstance(f.value, ast.Name):
            st = P.stores_of(fn).get(f.value.id, [])
            return bool(st) and all(isinstance(s._parent, ast.Assign) and isinstance(s._parent.value, ast.Call)
                                    and isinstance(s._parent.value.func, ast.Attribute)
                                    and s._parent.value.func.attr in ("match", "search", "fullmatch") for s in st)
        kind, p = P.resolve(expr, fn)
        if kind == "func":
            return all(P._ann_names(g.node.returns) and P._ann_names(g.node.returns) <= NUMERIC_NAMES for g in p)
        return False
    if isinstance(expr, ast.Attribute):
        ft = cx.sm.field_types(expr.attr)
        return bool(ft) and ft <= NUMERIC_NAMES
    if isinstance(expr, ast.Name):
        scope = P._scope_of(expr.id, fn)
        if scope is None:
            return False
        st = P.stores_of(scope).get(expr.id, [])
        if expr.id in scope.params and not st:
            return P._ann_names(scope.param_ann(expr.id)) <= NUMERIC_NAMES and bool(P._ann_names(scope.param_ann(expr.id)))
        if scope is fn:
            st = P.reaching(expr.id, at, fn)
        for s in st:
            p = s._parent
            if isinstance(p, ast.Assign) and s._field == "targets":
                if not numeric(p.value, scope, p, k, cx, depth + 1):
                    return False
            elif isinstance(p, ast.AugAssign):
                if not numeric(p.value, scope, p, k, cx, depth + 1):
                    return False
            elif isinstance(p, ast.Tuple) and isinstance(p._parent, ast.Assign) and isinstance(p._parent.value, ast.Tuple) \
                    and len(p._parent.value.elts) == len(p.elts):
                if not numeric(p._parent.value.elts[s._idx], scope, p._parent, k, cx, depth + 1):
                    return False
            else:
                return False
        return bool(st)
    if isinstance(expr, ast.Subscript) and isinstance(expr.value, ast.Name):
        # local dict that only ever receives numeric values
        name = expr.value.id
        vals = [n._parent.value for n in cx.m.nodes(fn) if isinstance(n, ast.Subscript) and isinstance(n.ctx, ast.Store)
                and isinstance(n.value, ast.Name) and n.value.id == name and isinstance(n._parent, ast.Assign)]
        inits = [s._parent.value for s in P.stores_of(fn).get(name, []) if isinstance(s._parent, ast.Assign)]
        return bool(vals) and all(numeric(v, fn, v, k, cx, depth + 1) for v in vals) and \
            all(isinstance(i, ast.Dict) and not i.keys for i in inits) and len(inits) == len(P.stores_of(fn).get(name, []))
    return False


def _tuple_returns(g):
    """Common length of the tuple literals returned by g, or None."""
    rets = [n for n in g.mod.nodes(g) if isinstance(n, ast.Return)]
    lens = {len(r.value.elts) if isinstance(r.value, ast.Tuple) else None for r in rets}
    if len(lens) == 1 and None not in lens and P.terminates(g.node.body, g):
        return next(iter(lens))
    return None


def _list_elem_exprs(name, fn):
    """Expressions that become elements of local list `name`: literal initialisers and append() arguments."""
    out = []
    for s in P.stores_of(fn).get(name, []):
        p = s._parent
        if isinstance(p, ast.Assign) and isinstance(p.value, ast.List):
            out.extend(p.value.elts)
        else:
            return None
    for n in fn.mod.nodes(fn):
        if isinstance(n, ast.Call) and isinstance(n.func, ast.Attribute) and isinstance(n.func.value, ast.Name) \
                and n.func.value.id == name:
            if n.func.attr == "append" and len(n.args) == 1:
                out.append(n.args[0])
            elif n.func.attr in ("extend", "insert", "__setitem__"):
                return None
    return out


def _field_arity(field, k, cx):
    """Every construction of a class with list field `field` passes a local list only filled with k-tuples."""
    found = False
    for fn in cx.m.funcs.values():
        for c in cx.m.nodes(fn):
            if isinstance(c, ast.Call) and P.resolve(c, fn)[0] == "class" and field in cx.sm.fields.get(P.resolve(c, fn)[1], {}):
                a = next((kw.value for kw in c.keywords if kw.arg == field), None)
                if not isinstance(a, ast.Name):
                    return False
                el = _list_elem_exprs(a.id, fn)
                if el is None or not all(isinstance(e, ast.Tuple) and len(e.elts) == k for e in el):
                    return False
                found = True
    return found


def _arity_of(value, fn, n):
    """The idiom by which the expression `value` yields exactly n values, or None."""
    if isinstance(value, ast.Tuple) and len(value.elts) == n and not any(isinstance(e, ast.Starred) for e in value.elts):
        return "LITERAL-ARITY"
    if isinstance(value, ast.Call) and fn is not None:
        kind, p = P.resolve(value, fn)
        if kind == "func" and p and all(_tuple_returns(g) == n for g in p):
            return "RETURN-ARITY"
        if isinstance(value.func, ast.Attribute) and value.func.attr == "pop" and isinstance(value.func.value, ast.Name):
            el = _list_elem_exprs(value.func.value.id, fn)
            if el and all(isinstance(e, ast.Tuple) and len(e.elts) == n for e in el):
                return "FIELD-ARITY"
    return None


def _arity_untraceable(value, fn):
    """No possible value of `value` has a known arity (nothing definite can be said about the unpacking)."""
    for node, lf, idx in P.leaves(value, fn):
        if idx is not None:
            continue
        if isinstance(node, (ast.Tuple, ast.List, ast.Constant, ast.Dict, ast.Set, ast.JoinedStr)):
            return False
        if isinstance(node, ast.Call) and lf is not None:
            kind, p = P.resolve(node, lf)
            if kind != "unknown":
                return False
    return True


def _unpack_ok(target, value, fn, cx, is_iter):
    n = len(target.elts)
    if any(isinstance(e, ast.Starred) for e in target.elts):
        return None, "starred unpacking"
    if not is_iter:
        direct = _arity_of(value, fn, n)
        if direct:
            return direct, ""
        # the value is held by a local / taken from a dispatch table: every expression it can stand for must have
        # the arity; None (a `.get` miss) must be excluded by a dominating test
        lv = P.leaves(value, fn)
        if lv and not (len(lv) == 1 and lv[0][0] is value):
            idioms = set()
            for node, lf, idx in lv:
                if idx is not None:
                    return None, f"`{P.text(value)}` can be a component of `{P.text(node)[:40]}`, whose arity is not known"
                if isinstance(node, ast.Constant) and node.value is None:
                    k = P.know_at(target, fn)
                    k.forms.nodes.setdefault(P.text(value), value)
                    if k.val(("isnone", P.text(value))) is not False:
                        return None, f"`{P.text(value)}` can be None here (dispatch miss): unpacking raises TypeError"
                    continue
                a = _arity_of(node, lf, n)
                if not a:
                    return None, f"`{P.text(value)}` can be `{P.text(node)[:40]}`, which is not known to yield exactly {n} values"
                idioms.add(a)
            if idioms:
                return "DISPATCH-ARITY" if idioms == {"LITERAL-ARITY"} else sorted(idioms)[0], ""
        return None, f"cannot prove `{P.text(value)}` yields exactly {n} values"
    if isinstance(value, ast.Call) and isinstance(value.func, ast.Attribute) and value.func.attr == "items" and n == 2:
        return "LITERAL-ARITY", ""
    if isinstance(value, ast.Attribute) and _field_arity(value.attr, n, cx):
        return "FIELD-ARITY", ""
    return None, f"cannot prove every element of `{P.text(value)}` has exactly {n} components"


def rule_ops(res, cx):
    res.rule("R-EXC-OPS", "every operation reachable from parse_string that can raise a non-SchemaError exception "
             "(conversions, subscripts, unpacking, None dereference, union-member attributes, ordering comparisons, "
             "token cursor, hazardous or unclassified calls) is discharged by an idiom of the closed list", floor=52)
    m, sm = cx.m, cx.sm
    guar = P.validator_guarantees()
    num_ok, num_msg, prog_ok, prog_msg, renode = regex_facts(cx)
    expect = m.func("_Parser.expect")
    peek, nxt = m.func("_Parser.peek"), m.func("_Parser.next")
    idiom_count = {}

    def ok(construct, idiom, node):
        idiom_count[idiom] = idiom_count.get(idiom, 0) + 1
        res.ok("R-EXC-OPS", construct, {"file": FILE, "line": node.lineno, "idiom": idiom})

    def bad(construct, node, msg):
        res.bad("R-EXC-OPS", construct, FILE, node.lineno, msg)

    # lexer progress (a stuck loop is not an exception, but it is not "returns or raises" either)
    (ok if prog_ok else bad)("_lex:token-regex-progress", *(("REGEX-PROGRESS", renode) if prog_ok else (renode, prog_msg)))
    # expect(kind) returns only tokens of that kind
    exp_post = False
    for r in [n for n in m.nodes(expect) if isinstance(n, ast.Return)]:
        k = P.know_at(r, expect)
        exp_post = isinstance(r.value, ast.Name) and k.K.get(("eq", f"{r.value.id}.kind", "kind")) is True
        if not exp_post:
            break
    cursor = token_cursor(cx)
    cursor_ok = all(o[1] for o in cursor)
    for o in cursor:
        idiom = o[4] if len(o) > 4 else "TOKEN-CURSOR"
        if o[1]:
            idiom_count[idiom] = idiom_count.get(idiom, 0) + 1
            res.ok("R-EXC-OPS", o[0], {"file": FILE, "line": o[2], "idiom": idiom})
        else:
            res.bad("R-EXC-OPS", o[0], FILE, o[2], o[3])

    for fn in cx.closure:
        for n in m.nodes(fn):
            if n._ann:
                continue
            q = fn.qual
            # ---- assert / del
            if isinstance(n, ast.Assert):
                bad(f"{q}:assert", n, "assert raises AssertionError, not SchemaError")
            if isinstance(n, ast.Delete):
                bad(f"{q}:{P.text(n)}", n, "del of a key/index can raise KeyError/IndexError; no idiom")
            # ---- division
            if isinstance(n, ast.BinOp) and isinstance(n.op, (ast.Div, ast.FloorDiv, ast.Mod)) and \
                    not (isinstance(n.left, (ast.Constant, ast.JoinedStr)) and isinstance(getattr(n.left, "value", ""), str)):
                bad(f"{q}:{P.text(n)}", n, "division/modulo can raise ZeroDivisionError; no idiom")
            # ---- calls
            if isinstance(n, ast.Call):
                kind, p = P.resolve(n, fn)
                name = p if isinstance(p, str) else None
                construct = f"{q}:{P.text(n)[:60]}"
                if kind == "builtin" and name in ("int", "float") and n.args:
                    tries = [a for a in P.ancestors(n) if isinstance(a, ast.Try) and n._fn is a._fn and
                             any(P.inside(n, b) for b in a.body)]
                    caught = False
                    for t in tries:
                        for h in t.handlers:
                            names = set() if h.type is None else {P.text(e) for e in
                                                                  (h.type.elts if isinstance(h.type, ast.Tuple) else [h.type])}
                            if names & {"ValueError", "Exception"} or h.type is None:
                                caught = True
                    if caught:
                        ok(construct, "TRY-VALUEERROR", n)
                        continue
                    a = n.args[0]
                    why = "conversion is neither inside try/except ValueError nor applied to a 'number' token"
                    if name == "float" and isinstance(a, ast.Attribute) and a.attr == "value":
                        tokk = False
                        if isinstance(a.value, ast.Name):
                            k = P.know_at(n, fn)
                            ok2 = [key for key, v in k.K.items() if key[0] == "eq" and key[1] == f"{a.value.id}.kind"
                                   and v and k.const(key[2]) == (True, "number")]
                            tokk = bool(ok2)
                        elif isinstance(a.value, ast.Call) and P.resolve(a.value, fn) == ("func", [expect]) and \
                                a.value.args and isinstance(a.value.args[0], ast.Constant) and a.value.args[0].value == "number":
                            tokk = exp_post
                            if not exp_post:
                                why = "expect(kind) is not proved to return only tokens of that kind"
                        if tokk and num_ok:
                            ok(construct, "NUMBER-TOKEN", n)
                            continue
                        if tokk:
                            why = num_msg
                    bad(construct, n, f"{name}() can raise ValueError: {why}")
                    continue
                if kind == "func" and isinstance(n.func, ast.Name) and P._scope_of(n.func.id, fn) is not None and \
                        any(isinstance(x, ast.Constant) and x.value is None for x, _, _ in P.leaves(n.func, fn)):
                    # a callable taken from a dispatch table with `.get` (or passed as None): calling None is a TypeError
                    k = P.know_at(n, fn)
                    k.forms.nodes.setdefault(n.func.id, n.func)
                    if k.val(("isnone", n.func.id)) is False:
                        ok(construct, "NOT-NONE", n)
                    else:
                        bad(construct, n, f"`{n.func.id}` may be None here (dispatch miss / None argument): calling it raises "
                            "TypeError; no dominating not-None test")
                    continue
                if kind == "func" or kind == "class":
                    continue
                if kind == "builtin":
                    if name == "len" and n.args and isinstance(n.args[0], ast.Attribute):
                        ft = sm.field_types(n.args[0].attr)
                        if ft and (None in ft or ft & NUMERIC_NAMES):
                            k = P.know_at(n, fn)
                            t = P.text(n.args[0])
                            if any(key[0] == "isinst" and key[1] == t and v and set(key[2]) <= {"tuple", "list", "str", "dict"}
                                   for key, v in k.K.items()):
                                ok(construct, "ISINSTANCE", n)
                            else:
                                bad(construct, n, f"len() of `{t}`, which may be None or a number; no dominating isinstance test")
                        continue
                    if name in SAFE_BUILTINS:
                        continue
                    if name == "iter" and len(n.args) == 1 and not n.keywords:
                        if _list_typed(n.args[0], fn, cx):
                            ok(construct, "ITER-OF-LIST", n)
                        else:
                            bad(construct, n, f"iter() of `{P.text(n.args[0])[:40]}`, which is not known to be a list/tuple/dict: TypeError possible")
                        continue
                    if name in IO_CALLS and fn.qual == "parse_file":
                        continue
                    bad(construct, n, f"call of `{name}` is not on the list of non-raising builtins and has no idiom")
                    continue
                if kind == "method":
                    if name in SAFE_METHODS or (name in IO_CALLS and fn.qual == "parse_file"):
                        pass
                    elif name == "pop" and len(n.args) <= 1 and not n.keywords and \
                            (not n.args or (isinstance(n.args[0], ast.Constant) and n.args[0].value in (0, -1))):
                        r1 = loop_nonempty(n, n.func.value, fn)
                        if r1 is None:
                            ok(construct, "LOOP-NONEMPTY", n)
                        else:
                            r2 = paired_stack(n, n.func.value, fn, cx)
                            if r2 is None:
                                ok(construct, "PAIRED-STACK", n)
                            else:
                                bad(construct, n, f".pop() can raise IndexError: not LOOP-NONEMPTY ({r1}); not PAIRED-STACK ({r2})")
                    else:
                        bad(construct, n, f"method `.{name}()` can raise (or is not classified); no idiom")
                    # None receiver handled below
                else:
                    # a call the analyser cannot resolve (a callable it cannot trace): cannot decide, not a violation
                    cx.und.add("R-EXC-OPS", construct, FILE, n.lineno, f"unclassified call `{P.text(n.func)}`: its target "
                               "cannot be resolved to functions of the module")
                    continue
            # ---- subscripts
            if isinstance(n, ast.Subscript) and isinstance(n.ctx, ast.Load) and not isinstance(n.slice, ast.Slice):
                construct = f"{q}:{P.text(n)}"
                k = P.know_at(n, fn)
                kt, ct = P.text(n.slice), P.text(n.value)
                k.forms.nodes.setdefault(kt, n.slice)
                k.forms.nodes.setdefault(ct, n.value)
                if k.val(("in", kt, ct)) is True:
                    ok(construct, "MEMBERSHIP", n)
                elif k.K.get(("cmp", "Lt", kt, f"len({ct})")) is True and isinstance(n.slice, ast.Name) and \
                        numeric(n.slice, fn, n, k, cx) and _nonneg(n.slice.id, fn):
                    ok(construct, "INDEX-LT-LEN", n)
                elif fn in (peek, nxt) and ct == "self.tokens" and kt == "self.pos":
                    if cursor_ok:
                        ok(construct, "TOKEN-CURSOR", n)
                    else:
                        bad(construct, n, "self.tokens[self.pos] can raise IndexError: the TOKEN-CURSOR obligations are not all met")
                elif isinstance(n.value, ast.Name) and ((isinstance(n.slice, ast.Constant) and n.slice.value == 0) or
                                                       kt == "-1") and loop_nonempty(n, n.value, fn) is None:
                    ok(construct, "LOOP-NONEMPTY", n)
                elif isinstance(n.value, ast.Name) and ((isinstance(n.slice, ast.Constant) and n.slice.value == 0) or kt == "-1"):
                    bad(construct, n, "subscript can raise IndexError: not LOOP-NONEMPTY (" + loop_nonempty(n, n.value, fn) + ")")
                elif P.table1(n.value, fn):
                    T = P.table1(n.value, fn)
                    org = P.origins(n.slice, fn, n)
                    miss = [o for o in org if not (o == ("key", T) or (o[0] == "field" and any(
                        g["cls"] == o[1] and g["field"] == o[2] and g["table"] == T and
                        (g["types"] is None or _types_at(n, fn, n.slice, sm) <= g["types"]) for g in guar)))]
                    if org and not miss:
                        ok(construct, "VALIDATOR-GUARANTEE", n)
                    elif not org or all(o[0] == "unknown" or P.weak_guarantee(o, T) for o in miss):
                        cx.und.add("R-EXC-OPS", construct, FILE, n.lineno,
                                   f"key of schema.{T} lookup has an origin the analyser cannot trace: {sorted(map(str, miss or org))}")
                    else:
                        bad(construct, n, f"lookup in schema.{T} with a key of origin {sorted(map(str, miss or org))}: no dominating "
                            "membership test and no validator guarantee")
                else:
                    bad(construct, n, "subscript can raise KeyError/IndexError: no dominating membership/length test, not the "
                        "token cursor, no validator guarantee")
            # ---- unpacking
            tgt = None
            if isinstance(n, ast.Assign) and isinstance(n.targets[0], (ast.Tuple, ast.List)):
                tgt, val, it = n.targets[0], n.value, False
            elif isinstance(n, (ast.For, ast.comprehension)) and isinstance(n.target, (ast.Tuple, ast.List)):
                tgt, val, it = n.target, n.iter, True
            if tgt is not None:
                construct = f"{q}:{P.text(tgt)}={'iter ' if it else ''}{P.text(val)[:50]}"
                idiom, why = _unpack_ok(tgt, val, fn, cx, it)
                if idiom:
                    ok(construct, idiom, tgt)
                elif not it and not why.startswith("!") and _arity_untraceable(val, fn):
                    cx.und.add("R-EXC-OPS", construct, FILE, tgt.lineno, "tuple unpacking: " + why)
                else:
                    bad(construct, tgt, "tuple unpacking can raise ValueError: " + why.lstrip("!"))
            # ---- None dereference / union member attribute
            base = None
            if isinstance(n, ast.Attribute) and isinstance(n.ctx, ast.Load):
                base = n.value
            elif isinstance(n, ast.Subscript) and isinstance(n.ctx, ast.Load):
                base = n.value
            elif isinstance(n, (ast.For, ast.comprehension)):
                base = n.iter
            if base is not None:
                construct = f"{q}:{P.text(n)[:60]}" if not isinstance(n, (ast.For, ast.comprehension)) else f"{q}:iter {P.text(base)[:50]}"
                opt = False
                if _optional_source(base, fn, cx):
                    opt, what = True, P.text(base)
                elif isinstance(base, ast.Name):
                    for s in P.stores_of(fn).get(base.id, []):
                        if isinstance(s._parent, ast.Assign) and s._field == "targets" and _optional_source(s._parent.value, fn, cx):
                            opt, what = True, base.id
                elif isinstance(base, ast.Attribute) and sm.optional_field(base.attr) and not isinstance(n, (ast.For, ast.comprehension)) \
                        and base.attr not in ("line",):
                    opt, what = True, P.text(base)
                if opt:
                    k = P.know_at(n, fn)
                    k.forms.nodes.setdefault(what, base)
                    if k.val(("isnone", what)) is False:
                        ok(construct, "NOT-NONE", n)
                    else:
                        bad(construct, n, f"`{what}` may be None here: dereference can raise AttributeError/TypeError; "
                            "no dominating not-None test")
            if isinstance(n, ast.Attribute) and isinstance(n.ctx, ast.Load) and isinstance(n.value, ast.Name):
                decl = P.declared_classes(n.value.id, fn, n)
                if len(decl) > 1:
                    construct = f"{q}:{P.text(n)}"
                    now = P.classes_of(n.value, fn, n)
                    lacking = sorted(c for c in now if not sm.has_field(c, n.attr))
                    if now and not lacking:
                        ok(construct, "ISINSTANCE", n)
                    else:
                        bad(construct, n, f"`{n.value.id}` ranges over {sorted(decl)}; `.{n.attr}` is not declared by "
                            f"{lacking}: AttributeError unless an isinstance test dominates")
            # ---- ordering comparisons
            if isinstance(n, ast.Compare):
                left = n.left
                for op, right in zip(n.ops, n.comparators):
                    if isinstance(op, (ast.Lt, ast.LtE, ast.Gt, ast.GtE)):
                        construct = f"{q}:{P.text(left)} {type(op).__name__} {P.text(right)}"
                        k = P.know_at(n, fn)
                        lacking = [P.text(x) for x in (left, right) if not numeric(x, fn, n, k, cx)]
                        if not lacking:
                            ok(construct, "NUMERIC", n)
                        else:
                            bad(construct, n, f"ordering comparison can raise TypeError: {lacking} not known to be int/float")
                    left = right
    res.extra["idioms"] = {k: {"why": IDIOMS.get(k, "see checker"), "instances": v} for k, v in sorted(idiom_count.items())}


SAFE_LIST_CONSUMERS = {"len", "list", "iter", "tuple", "sorted", "bool", "any", "all", "str", "repr", "isinstance",
                       "enumerate", "reversed", "set", "frozenset"}


def _family(fn):
    """The outermost enclosing function of fn with all functions nested in it (they share its local lists)."""
    root = fn
    while root.parent is not None:
        root = root.parent
    fam = [g for g in fn.mod.funcs.values() if g is root or _nested_in(g, root)]
    return root, fam


def _nested_in(g, root):
    p = g.parent
    while p is not None:
        if p is root:
            return True
        p = p.parent
    return False


def _refers(node, name, g, owner):
    """node is a Name `name` that denotes owner's local (not shadowed in g)."""
    return isinstance(node, ast.Name) and node.id == name and P._scope_of(name, g) is owner


def _shrinks(name, owner, fam):
    """[(function, node)] of everything that may shrink / rebind / leak the list `name` local to `owner`."""
    out = []
    direct = {}
    for g in fam:
        for n in g.mod.nodes(g):
            hit = False
            if isinstance(n, ast.Call) and isinstance(n.func, ast.Attribute) and _refers(n.func.value, name, g, owner):
                if n.func.attr not in ("append", "extend", "insert", "copy", "index", "count"):
                    hit = True                      # pop, remove, clear, sort, __delitem__, ...: anything not known to keep or grow
            elif isinstance(n, ast.Call):
                fname = n.func.id if isinstance(n.func, ast.Name) else None
                args = list(n.args) + [kw.value for kw in n.keywords]
                if any(_refers(a, name, g, owner) for a in args) and fname not in SAFE_LIST_CONSUMERS:
                    hit = True                      # escapes into a call that could mutate it
            elif isinstance(n, ast.Delete):
                hit = any(_refers(x, name, g, owner) for t in n.targets for x in ast.walk(t))
            elif isinstance(n, (ast.Assign, ast.AugAssign, ast.AnnAssign)):
                tg = n.targets if isinstance(n, ast.Assign) else [n.target]
                for t in tg:
                    for x in ast.walk(t):
                        if _refers(x, name, g, owner) and isinstance(x._parent, ast.Subscript) and isinstance(x._parent.ctx, ast.Store) \
                                and isinstance(x._parent.slice, ast.Slice):
                            hit = True              # slice assignment can shorten
                        elif _refers(x, name, g, owner) and isinstance(x.ctx, ast.Store):
                            hit = True              # re-binding
            elif isinstance(n, (ast.For, ast.comprehension, ast.With, ast.NamedExpr)):
                t = n.target if not isinstance(n, ast.With) else None
                if t is not None and any(_refers(x, name, g, owner) and isinstance(x.ctx, ast.Store) for x in ast.walk(t)):
                    hit = True
            if hit:
                out.append((g, n))
                direct.setdefault(g, []).append(n)
    # calls of family functions that (transitively) shrink
    shrinking = set(direct)
    changed = True
    while changed:
        changed = False
        for g in fam:
            if g in shrinking:
                continue
            if any(h in shrinking for h in P.callees(g) if h in fam):
                shrinking.add(g)
                changed = True
    for g in fam:
        for c in P.calls_in(g):
            k, p = P.resolve(c, g)
            if k == "func" and any(h in shrinking for h in p if h in fam):
                out.append((g, c))
    return out


def loop_nonempty(op, lst, fn):
    """None if the use `op` of local list `lst` (x[-1], x[0], x.pop()) is reached only with x non-empty because it sits
    under `while x:` and nothing on the way from the loop test can shrink x; else the reason."""
    if not isinstance(lst, ast.Name):
        return "container is not a local name"
    owner = P._scope_of(lst.id, fn)
    if owner is None or lst.id in owner.params:
        return f"`{lst.id}` is not a local list"
    if owner is not fn:
        return f"`{lst.id}` belongs to {owner.qual}, the use is in {fn.qual}"
    W = next((a for a in P.ancestors(op) if isinstance(a, ast.While) and a._fn is fn), None)
    if W is None or not any(P.inside(op, b) for b in W.body):
        return f"not in the body of a `while` loop that tests `{lst.id}`"
    # the test that establishes non-emptiness on every pass: the loop condition `while x:` itself, or -- in a loop run by
    # a flag / `while True` -- a test inside the loop whose other side leaves the pass (`if not x: ...; continue/break`)
    guard = None
    forms = P.Forms(fn)
    for f, origin, tag in P.raw_facts(op, fn, forms):
        if f == ("lit", ("truthy", lst.id), True) and (origin is W.test or P.inside(origin, W)) and P.still_valid(origin, op, fn):
            if guard is None or P.pos(origin) > P.pos(guard):
                guard = origin
    if guard is None:
        return f"not in the body of the innermost enclosing `while {lst.id}:` (and no test of `{lst.id}` inside the loop guards it)"
    root, fam = _family(fn)
    inner = [L for L in P.loops_of(op) if L is not W and P.inside(L, W) and
             any(P.inside(op, b) for b in L.body)]           # loops whose *body* (not iter / else) repeats the use
    if guard is not W.test and any(not P.inside(guard, L) for L in inner):
        inner = [L for L in inner if not P.inside(guard, L)]
    elif guard is not W.test:
        inner = []
    for g, sn in _shrinks(lst.id, owner, fam):
        if g is not fn or not P.inside(sn, W):
            if g is fn:
                continue                  # outside the loop: the loop test re-establishes non-emptiness
            continue                      # inside a helper: accounted for at its call sites (listed separately)
        if sn is op or P.inside(op, sn):
            if inner:
                return f"the use shrinks `{lst.id}` itself and repeats inside an inner loop"
            continue
        if P.pos(guard) < P.pos(sn) < P.pos(op) or (guard is W.test and P.pos(sn) < P.pos(op)):
            return f"`{P.text(sn)[:40]}` (line {sn.lineno}) can shrink `{lst.id}` between the loop test and this use"
        if any(any(P.inside(sn, b) for b in L.body) for L in inner):
            return f"`{P.text(sn)[:40]}` (line {sn.lineno}) can shrink `{lst.id}` in an earlier pass of the inner loop"
    return None


def paired_stack(op, lst, fn, cx):
    """None if `y.pop()` is safe because y mirrors a LOOP-NONEMPTY list x; else the reason."""
    if not isinstance(lst, ast.Name):
        return "container is not a local name"
    y = lst.id
    owner = P._scope_of(y, fn)
    if owner is not fn or y in fn.params:
        return f"`{y}` is not a local list of {fn.qual}"
    st = P.stmt_of(op)
    if not (isinstance(st, ast.Expr) and st.value is op and isinstance(st._idx, int) and st._idx > 0):
        return "not a statement `y.pop()` preceded by the paired pop"
    prev = getattr(st._parent, st._field)[st._idx - 1]
    pv = prev.value if isinstance(prev, (ast.Expr, ast.Assign)) else None
    if not (isinstance(pv, ast.Call) and isinstance(pv.func, ast.Attribute) and pv.func.attr == "pop" and not pv.args
            and isinstance(pv.func.value, ast.Name) and pv.func.value.id != y and not op.args):
        return "the statement before it is not `x.pop()` of the mirrored list"
    x = pv.func.value.id
    if P._scope_of(x, fn) is not fn or x in fn.params:
        return f"`{x}` is not a local list of {fn.qual}"
    r = loop_nonempty(pv, pv.func.value, fn)
    if r:
        return f"the paired `{x}.pop()` is not LOOP-NONEMPTY: {r}"
    root, fam = _family(fn)
    # x starts empty, y starts as any list
    xs, ys = P.stores_of(fn).get(x, []), P.stores_of(fn).get(y, [])
    if len(xs) != 1 or not (isinstance(xs[0]._parent, ast.Assign) and isinstance(xs[0]._parent.value, ast.List)
                            and not xs[0]._parent.value.elts):
        return f"`{x}` is not initialised exactly once to []"
    if len(ys) != 1 or not isinstance(ys[0]._parent, ast.Assign):
        return f"`{y}` is not initialised exactly once"
    # every growth of x is adjacent to a growth of y
    for g in fam:
        for n in g.mod.nodes(g):
            if isinstance(n, ast.Call) and isinstance(n.func, ast.Attribute) and _refers(n.func.value, x, g, fn):
                if n.func.attr in ("copy", "index", "count", "pop", "remove", "clear"):
                    continue
                s2 = P.stmt_of(n)
                ok = n.func.attr == "append" and isinstance(s2, ast.Expr) and s2.value is n and isinstance(s2._idx, int)
                if ok:
                    sib = getattr(s2._parent, s2._field)
                    near = [sib[i] for i in (s2._idx - 1, s2._idx + 1) if 0 <= i < len(sib)]
                    ok = any(isinstance(t, ast.Expr) and isinstance(t.value, ast.Call) and isinstance(t.value.func, ast.Attribute)
                             and t.value.func.attr == "append" and _refers(t.value.func.value, y, g, fn) for t in near)
                if not ok:
                    return f"`{P.text(n)[:40]}` (line {n.lineno}) grows `{x}` without an adjacent `{y}.append(..)`"
    # y shrinks only in such pairs
    for g, sn in _shrinks(y, fn, fam):
        if isinstance(sn, ast.Call) and isinstance(sn.func, ast.Attribute) and _refers(sn.func.value, y, g, fn) \
                and sn.func.attr == "pop" and not sn.args:
            s3 = P.stmt_of(sn)
            if isinstance(s3, ast.Expr) and s3.value is sn and isinstance(s3._idx, int) and s3._idx > 0:
                pr = getattr(s3._parent, s3._field)[s3._idx - 1]
                pc = pr.value if isinstance(pr, (ast.Expr, ast.Assign)) else None
                if isinstance(pc, ast.Call) and isinstance(pc.func, ast.Attribute) and pc.func.attr == "pop" and \
                        _refers(pc.func.value, x, g, fn):
                    continue
        if ys and sn is ys[0]._parent:
            continue
        return f"`{P.text(sn)[:40]}` (line {sn.lineno}) shrinks or leaks `{y}` outside a `{x}.pop(); {y}.pop()` pair"
    return None


def _list_typed(e, fn, cx, depth=0):
    """e evaluates to a list / tuple / dict (iter() of it cannot raise)."""
    if isinstance(e, (ast.List, ast.Tuple, ast.ListComp, ast.Dict, ast.DictComp)):
        return True
    if isinstance(e, ast.Call) and isinstance(e.func, ast.Name) and e.func.id in ("list", "tuple", "sorted", "dict"):
        return True
    if isinstance(e, ast.Attribute):
        ft = cx.sm.field_types(e.attr)
        return bool(ft) and ft <= {"list", "tuple", "dict", "List", "Dict", "Tuple"}
    if isinstance(e, ast.Name) and depth < 3:
        st = P.stores_of(fn).get(e.id, [])
        return bool(st) and e.id not in fn.params and all(
            isinstance(x._parent, ast.Assign) and x._field == "targets" and _list_typed(x._parent.value, fn, cx, depth + 1)
            for x in st)
    return False


def _nonneg(name, fn):
    for s in P.stores_of(fn).get(name, []):
        p = s._parent
        if isinstance(p, ast.Assign) and isinstance(p.value, ast.Constant) and isinstance(p.value.value, int) and p.value.value >= 0:
            continue
        if isinstance(p, ast.Assign) and isinstance(p.value, ast.Call) and isinstance(p.value.func, ast.Attribute) \
                and p.value.func.attr in ("end", "start"):
            continue
        if isinstance(p, ast.AugAssign) and isinstance(p.op, ast.Add) and isinstance(p.value, ast.Constant) and p.value.value >= 0:
            continue
        return False
    return True


def _types_at(node, fn, key_expr, sm):
    """Possible attribute types of the object whose field is used as key (`x.target` -> values of x.type)."""
    if isinstance(key_expr, ast.Attribute) and isinstance(key_expr.value, ast.Name):
        return frozenset(P.know_at(node, fn).values(f"{key_expr.value.id}.type", sm.types))
    return frozenset(sm.types)


# ============================================================================ R-ASSUME-GUAR
def rule_guar(res, cx):
    res.rule("R-ASSUME-GUAR", "schema-table lookups of consumers inside mjcf_schema.py rely only on membership checks that "
             "_validate performs for every declaration, earlier than the consumer; _validate post-dominates parsing", floor=3)
    m, sm = cx.m, cx.sm
    guar = P.validator_guarantees()
    V = m.func("_validate")
    for g in guar:
        res.ok("R-ASSUME-GUAR", f"guarantee:{g['cls']}.{g['field']} in {g['table']}",
               {"file": FILE, "line": g["line"], "types": sorted(g["types"]) if g["types"] else "all", "in": g["fn"]})
    for construct, ok, line, msg in P.validate_postdominates():
        if ok:
            res.ok("R-ASSUME-GUAR", construct, {"file": FILE, "line": line})
        else:
            res.bad("R-ASSUME-GUAR", construct, FILE, line, msg + ": consumers can see an unvalidated schema")
    # consumers: functions outside the validator's own frame that subscript a table without a local membership fact
    for fn in m.funcs.values():
        for n in m.nodes(fn):
            if not (isinstance(n, ast.Subscript) and isinstance(n.ctx, ast.Load) and P.table1(n.value, fn) and not n._ann):
                continue
            T = P.table1(n.value, fn)
            k = P.know_at(n, fn)
            kt, ct = P.text(n.slice), P.text(n.value)
            k.forms.nodes.setdefault(kt, n.slice)
            k.forms.nodes.setdefault(ct, n.value)
            if k.val(("in", kt, ct)) is True:
                continue                      # locally guarded: an R-EXC-OPS MEMBERSHIP instance
            construct = f"{fn.qual}:{P.text(n)}"
            org = P.origins(n.slice, fn, n)
            used = []
            miss = []
            for o in org:
                if o == ("key", T):
                    continue
                gs = [g for g in guar if o[0] == "field" and g["cls"] == o[1] and g["field"] == o[2] and g["table"] == T
                      and (g["types"] is None or _types_at(n, fn, n.slice, sm) <= g["types"])]
                if gs:
                    used.extend(gs)
                else:
                    miss.append(o)
            if not org or (miss and all(o[0] == "unknown" or P.weak_guarantee(o, T) for o in miss)):
                cx.und.add("R-ASSUME-GUAR", construct, FILE, n.lineno,
                           f"key of schema.{T} lookup has an origin the analyser cannot trace: {sorted(map(str, miss or org))}")
                continue
            if miss or not org:
                res.bad("R-ASSUME-GUAR", construct, FILE, n.lineno,
                        f"key origin {sorted(map(str, miss or org))} is not covered by any check in _validate "
                        f"(a dangling name raises KeyError instead of SchemaError)")
                continue
            # ordering: if the consumer is (transitively) called from _validate, the guarantee must come first
            late = None
            for c in P.calls_in(V):
                kind, p = P.resolve(c, V)
                if kind == "func" and any(fn in P.closure([g0]) for g0 in p):
                    idx = V.node.body.index(P.top_stmt(c, V))
                    for g in used:
                        if g["top"] >= idx:
                            late = (c, g)
            if late:
                res.bad("R-ASSUME-GUAR", construct, FILE, late[0].lineno,
                        f"_validate reaches this lookup (via `{P.text(late[0].func)}`) before its own check of "
                        f"{late[1]['cls']}.{late[1]['field']} at line {late[1]['line']}")
            else:
                res.ok("R-ASSUME-GUAR", construct, {"file": FILE, "line": n.lineno,
                                                    "guarantee_line": sorted({g["line"] for g in used})})


# ============================================================================ R-RECURSION
def _depth_bound(fn, cx):
    """A guard `if <len(p) | p> <cmp> <constant>: raise` on a parameter, or an enclosing except RecursionError."""
    m = cx.m
    for n in m.nodes(fn):
        if isinstance(n, ast.If) and P._always(n.body, fn, cx.noret, raise_only=True) and isinstance(n.test, ast.Compare) \
                and len(n.test.ops) == 1 and isinstance(n.test.ops[0], (ast.Lt, ast.LtE, ast.Gt, ast.GtE)):
            sides = [n.test.left, n.test.comparators[0]]
            for a, b in (sides, sides[::-1]):
                core = a.args[0] if isinstance(a, ast.Call) and isinstance(a.func, ast.Name) and a.func.id == "len" and a.args else a
                try:
                    bound = P.lit(b, m, fn.cls)
                except P.NotLit:
                    continue
                if isinstance(core, ast.Name) and core.id in fn.params and isinstance(bound, int) and \
                        not (isinstance(b, ast.Name) and P._scope_of(b.id, fn)):
                    return f"depth guard `{P.text(n.test)}`"
    return None


def rule_recursion(res, cx):
    res.rule("R-RECURSION", "no function reachable from parse_string recurses to a depth bounded only by the input "
             "(RecursionError is not a SchemaError)", floor=0)
    m = cx.m
    comps = P.sccs(cx.closure)
    res.count("functions_in_closure", len(cx.closure))
    res.count("recursive_groups", len(comps))
    for comp in comps:
        names = sorted(f.qual for f in comp)
        for f in comp:
            construct = f.qual
            why = _depth_bound(f, cx)
            # a caller outside the group that converts RecursionError
            if not why:
                conv = True
                outside = [(c, call) for c, call in cx.sites_of(f) if c not in comp]
                for c, call in outside:
                    tr = [a for a in P.ancestors(call) if isinstance(a, ast.Try) and any(P.inside(call, b) for b in a.body)]
                    if not any(h.type is not None and "RecursionError" in P.text(h.type) and
                               P._always(h.body, c, cx.noret, raise_only=True) for t in tr for h in t.handlers):
                        conv = False
                if outside and conv:
                    why = "every outside caller converts RecursionError"
            if why:
                res.ok("R-RECURSION", construct, {"file": FILE, "line": f.node.lineno, "bounded_by": why})
                continue
            rec = [c for c in P.calls_in(f) if P.resolve(c, f)[0] == "func" and any(g in comp for g in P.resolve(c, f)[1])]
            args = "; ".join(P.text(c) for c in rec)[:120]
            res.bad("R-RECURSION", construct, FILE, rec[0].lineno if rec else f.node.lineno,
                    f"recursive ({' <-> '.join(names)}): one Python frame per level of the input's nesting "
                    f"(`{args}`), no depth bound and no conversion of RecursionError, which therefore escapes "
                    "parse_string as a non-SchemaError exception")


# ============================================================================ R-COVER
class Site:
    """A SchemaError raise site with what is known to hold there, in canonical (class-named, local-expanded) form."""

    def __init__(self, fn, stmt, cx, subst=None, anchor=None, case=None):
        self.fn, self.stmt, self.cx = fn, stmt, cx
        self.anchor = anchor or stmt
        self.know = P.know_at(stmt, fn)
        self.subst = subst or {}
        self.case = case or {}          # dispatch case of the function the anchor is in: local name -> expression text
        self.keys = []
        for key, v in self.know.K.items():
            self.keys.append((tuple(self.canon(x) if i and isinstance(x, str) else x for i, x in enumerate(key)), v))
        for f in self.know.fs:          # atoms of undecided disjunctions: the raise depends on them, polarity unknown
            for key in _atoms(f):
                self.keys.append((tuple(self.canon(x) if i and isinstance(x, str) else x for i, x in enumerate(key)), None))
        sm = cx.sm
        var = None
        for key, _ in self.know.K.items():
            for x in key[1:]:
                if isinstance(x, str) and x.endswith(".type") and "(" not in x:
                    v0 = x[:-5]
                    if v0.isidentifier() and self._cls(v0) == "Attr":
                        var = v0
        for f in self.know.fs:
            for x in _atoms(f):
                if isinstance(x[1], str) and x[1].endswith(".type") and x[1][:-5].isidentifier() and self._cls(x[1][:-5]) == "Attr":
                    var = x[1][:-5]
        self.tset = frozenset(self.know.values(f"{var}.type", sm.types)) if var else frozenset(sm.types)

    def _cls(self, name):
        if name == "self" and self.fn.cls:
            return self.fn.cls
        for key, v in self.know.K.items():
            if key[0] == "isinst" and key[1] == name and v and len(key[2]) == 1 and key[2][0] in self.cx.m.classes:
                return key[2][0]
        c = P.declared_classes(name, self.fn, self.stmt)
        return next(iter(c)) if len(c) == 1 else None

    def canon(self, txt, depth=0):
        try:
            tree = ast.parse(txt, mode="eval").body
        except SyntaxError:
            return txt
        site = self

        class T(ast.NodeTransformer):
            def visit_Name(self, n):
                if n.id in site.subst:
                    return ast.parse(site.subst[n.id], mode="eval").body
                if n.id in site.case and not site.subst and depth < 4:
                    return ast.parse("(" + site.canon(site.case[n.id], depth + 1) + ")", mode="eval").body
                c = site._cls(n.id)
                if c:
                    return ast.Name(id=c, ctx=ast.Load())
                scope = P._scope_of(n.id, site.fn)
                if scope is site.fn and n.id not in site.fn.params and depth < 4:
                    st = P.stores_of(site.fn).get(n.id, [])
                    mutated = any((isinstance(x, ast.Call) and isinstance(x.func, ast.Attribute) and
                                   isinstance(x.func.value, ast.Name) and x.func.value.id == n.id and
                                   x.func.attr in ("add", "append", "extend", "update", "insert", "pop", "remove")) or
                                  (isinstance(x, ast.Subscript) and isinstance(x.ctx, ast.Store) and
                                   isinstance(x.value, ast.Name) and x.value.id == n.id)
                                  for x in site.fn.mod.nodes(site.fn))
                    if len(st) == 1 and not mutated:
                        p = st[0]._parent
                        val = None
                        if isinstance(p, ast.Assign) and st[0]._field == "targets":
                            val = p.value
                        elif isinstance(p, ast.Tuple) and isinstance(p._parent, ast.Assign) and \
                                isinstance(p._parent.value, ast.Tuple) and len(p._parent.value.elts) == len(p.elts):
                            val = p._parent.value.elts[st[0]._idx]
                        if val is not None:
                            return ast.parse("(" + site.canon(P.text(val), depth + 1) + ")", mode="eval").body
                return n

            def visit_Attribute(self, n):
                if isinstance(n.value, ast.Name) and n.value.id == "self" and site.fn.cls and not site.subst and \
                        "self" not in site.case:
                    # a field of a helper class that holds a schema object (`self.schema`): named by its class
                    probe = P.graft(P.clone(n), site.stmt)
                    c = P.classes_of(probe, site.fn, site.stmt)
                    if len(c) == 1:
                        return ast.Name(id=next(iter(c)), ctx=ast.Load())
                return self.generic_visit(n)

        return ast.unparse(T().visit(tree))

    def untyped(self):
        """Local variables whose attributes the conditions of this raise read, but whose class could not be inferred
        (the canonical form keeps their name): the site may be the one a rule is looking for."""
        out = set()
        for key, _ in self.keys:
            for x in key[1:]:
                if not isinstance(x, str):
                    continue
                try:
                    tree = ast.parse(x, mode="eval").body
                except SyntaxError:
                    continue
                bound = {y.id for c in ast.walk(tree) if isinstance(c, ast.comprehension) for y in ast.walk(c.target)
                         if isinstance(y, ast.Name)}
                for a in ast.walk(tree):
                    if isinstance(a, ast.Attribute) and isinstance(a.value, ast.Name) and a.value.id not in bound and \
                            a.value.id not in self.cx.m.classes and P._scope_of(a.value.id, self.fn) is not None:
                        out.add(a.value.id)
        return out

    def has(self, pred, pol=None):
        return any(pred(k) and (pol is None or v == pol) for k, v in self.keys)


def _atoms(f):
    if f[0] == "lit":
        return [f[1]]
    out = []
    for x in f[1]:
        out.extend(_atoms(x))
    return out


def _dispatch_cases(fn):
    """[{local name: expression text}]: one environment per entry of a dispatch table `fn` selects a handler from --
    `h = D.get(k)` / `h = D[k]` on a lookup-only dict literal, optionally unpacked `a, b = h` -- so that what follows can
    be read once per entry, as the if/elif chain it stands for.  [{}] when fn has no such table."""
    tables = {}
    for name, st in P.stores_of(fn).items():
        st = [x for x in st if not any(isinstance(a, ast.comprehension) for a in P.ancestors(x))]
        if len(st) != 1 or name in fn.params:
            continue
        x = st[0]
        top = x
        while not isinstance(top._parent, ast.stmt):
            top = top._parent
        a = top._parent
        if not (isinstance(a, ast.Assign) and top._field == "targets" and len(a.targets) == 1):
            continue
        idx = None if top is x else P._target_pos(top, name)
        if idx is False:
            continue
        src = a.value
        if isinstance(src, ast.Name):               # a, b = h   with   h = D.get(k)
            hs = [y for y in P.stores_of(fn).get(src.id, [])]
            if len(hs) != 1 or not (isinstance(hs[0]._parent, ast.Assign) and hs[0]._field == "targets"):
                continue
            src = hs[0]._parent.value
        look = P._lookup_source(src, fn)
        if not look or look[1] is not fn and look[1] is not None:
            continue
        vals = look[0]
        if idx is not None and not all(isinstance(v, ast.Tuple) and idx < len(v.elts) for v in vals):
            continue
        d = src.value if isinstance(src, ast.Subscript) else src.func.value
        tables.setdefault(P.text(d), {})[name] = [P.text(v if idx is None else v.elts[idx]) for v in vals]
    if len(tables) != 1:
        return [{}]
    cols = next(iter(tables.values()))
    n = len(next(iter(cols.values())))
    return [{name: texts[i] for name, texts in cols.items()} for i in range(n)] or [{}]


def _sites(cx):
    """All raise sites of the closure, plus one instantiated copy per call site for helpers whose conditions
    read their parameters (and one per dispatch-table entry where the function selects a handler from a table)."""
    out = []
    for fn in cx.closure:
        if fn in cx.noret and fn.parent is not None:
            continue
        for st in P.raise_sites(fn):
            base = Site(fn, st, cx)
            out.append(base)
            for case in _dispatch_cases(fn):
                if case:
                    out.append(Site(fn, st, cx, case=case))
            params = [p for p in fn.params if p != "self"]
            mentions = any(any(isinstance(x, str) and re.search(r"(?<![\w.])" + re.escape(p) + r"(?![\w])", x)
                               for x in key[1:]) for key, _ in base.know.K.items() for p in params)
            if not mentions or fn.parent is not None:
                continue
            for caller, call in cx.sites_of(fn):
                if caller is fn:
                    continue
                for case in _dispatch_cases(caller):
                    cs = Site(caller, P.stmt_of(call), cx, case=case)
                    sub = {p: "(" + cs.canon(P.text(a)) + ")" for p, a in P.bind_args(call, fn).items()}
                    out.append(Site(fn, st, cx, subst=sub, anchor=P.stmt_of(call), case=case))
    return out


NUMERIC_T = {"double", "float", "int"}


def _strip(t):
    while t.startswith("(") and t.endswith(")") and ast.parse(t, mode="eval") is not None:
        inner = t[1:-1]
        try:
            if ast.unparse(ast.parse(inner, mode="eval")) and inner.count("(") == inner.count(")"):
                t = inner
                continue
        except SyntaxError:
            pass
        break
    return t


def rule_cover(res, cx):
    res.rule("R-COVER", "each documented rule (unique declarations, dangling use/child/alias/enum/namespace, use cycles, "
             "duplicate attributes after expansion, arity well-formedness, default vs type/arity) has a SchemaError "
             "raise control-dependent on a condition reading that rule's data", floor=24)
    m, sm = cx.m, cx.sm
    sites = _sites(cx)
    res.count("raise_sites", len([s for s in sites if not s.subst and not s.case]))
    intparse = {f for f in cx.closure if any(isinstance(n, ast.Call) and isinstance(n.func, ast.Name) and n.func.id == "int"
                                            for n in m.nodes(f))}
    grew = True                 # ... or that hand the conversion to a helper: a value they return is still a parsed int
    while grew:
        grew = False
        for f in cx.closure:
            if f not in intparse and f.node.returns is not None and P._ann_names(f.node.returns) <= {"int"} and \
                    any(g in intparse for g in P.callees(f)):
                intparse.add(f)
                grew = True

    def k_in(s, left, right, pol):
        return s.has(lambda k: k[0] == "in" and left(_strip(k[1])) and right(_strip(k[2])), pol)

    def notnone_default(s):
        return s.has(lambda k: k == ("isnone", "Attr.default"), False)

    def default_keys(s):
        return [(k, v) for k, v in s.keys if any(isinstance(x, str) and "Attr.default" in x for x in k[1:])]

    def unique(T):
        def pred(s):
            for k, v in s.keys:
                if k[0] == "in" and v and _strip(k[2]) == f"Schema.{T}":
                    A = _strip(k[1])
                    owner = Site(s.anchor._fn, s.anchor, cx, case=s.case) if s.subst else s
                    cur = s.anchor
                    while isinstance(cur, ast.stmt) and isinstance(cur._idx, int):
                        for later in getattr(cur._parent, cur._field)[cur._idx + 1:]:
                            if isinstance(later, ast.Assign) and isinstance(later.targets[0], ast.Subscript) and \
                                    _strip(owner.canon(P.text(later.targets[0].value))) == f"Schema.{T}" and \
                                    _strip(owner.canon(P.text(later.targets[0].slice))) == A:
                                return True
                        cur = cur._parent
                        if not isinstance(cur, ast.If):
                            break
            return False
        return pred

    def grows(fn, S, A):
        """Container S is extended with A somewhere in fn: S + [A], S.append(A), S.add(A), S[A] = .."""
        for n in m.nodes(fn):
            if isinstance(n, ast.BinOp) and isinstance(n.op, (ast.Add, ast.BitOr)) and P.text(n.left) == S and \
                    isinstance(n.right, (ast.List, ast.Set, ast.Tuple)) and any(P.text(e) == A for e in n.right.elts):
                # the extended value must persist: passed on to the walk (recursive / helper call, work-list push)
                # or assigned back; `' -> '.join(S + [A])` in a message is not growth
                top = n
                while isinstance(top._parent, ast.Tuple):
                    top = top._parent
                par = top._parent
                if isinstance(par, ast.Call) and top in par.args:
                    if isinstance(par.func, ast.Attribute) and par.func.attr == "append":
                        return True
                    k2, p2 = P.resolve(par, fn)
                    if k2 == "func" and any(g in _family(fn)[1] for g in p2):
                        return True
                if isinstance(par, ast.Assign) and P.text(par.targets[0]) == S:
                    return True
                continue
            if isinstance(n, ast.Call) and isinstance(n.func, ast.Attribute) and n.func.attr in ("append", "add") and \
                    P.text(n.func.value) == S and n.args and P.text(n.args[0]) == A:
                return True
            if isinstance(n, ast.Subscript) and isinstance(n.ctx, ast.Store) and P.text(n.value) == S and P.text(n.slice) == A:
                return True
        return False

    def cycle(s):
        if s.subst:
            return False
        fn = s.fn
        fam_nodes = [n for g in _family(fn)[1] for n in m.nodes(g)]     # the walk may be split over nested helpers
        reads_group = any(isinstance(n, ast.Attribute) and n.attr == "group" for n in fam_nodes)
        reads_table = any(P.table_of(n) == "groups" for n in fam_nodes)
        if not (reads_group and reads_table):
            return False
        def looked_up(A):       # the walk looks the same name up in the groups table
            for n in m.nodes(fn):
                if isinstance(n, ast.Subscript) and P.table_of(n.value) == "groups" and P.text(n.slice) == A:
                    return True
                if isinstance(n, ast.Call) and isinstance(n.func, ast.Attribute) and n.func.attr == "get" and \
                        P.table_of(n.func.value) == "groups" and n.args and P.text(n.args[0]) == A:
                    return True
            return False
        return any(k[0] == "in" and v and k[2].isidentifier() and grows(fn, k[2], k[1]) and looked_up(k[1])
                   for k, v in s.know.K.items())

    def dup_attr(s):
        if s.subst:
            return False
        for a in P.ancestors(s.stmt):
            if isinstance(a, ast.For) and isinstance(a.target, ast.Name) and isinstance(a.iter, ast.Call) and \
                    isinstance(a.iter.func, ast.Attribute) and a.iter.func.attr == "expanded_attrs":
                key = f"{a.target.id}.name"
                if any(k[0] == "in" and v and k[1] == key and k[2].isidentifier() and grows(s.fn, k[2], key)
                       for k, v in s.know.K.items()):
                    return True
        return False

    def namespace(s):
        if not s.has(lambda k: k[0] == "eq" and k[1] == "Attr.type" and k[2] == "'ref'", True) and s.tset != {"ref"}:
            return False
        for k, v in s.keys:
            if k[0] == "in" and not v and _strip(k[1]) == "Attr.target":
                N = _strip(k[2])
                scope = s.anchor._fn if s.subst else s.fn
                # the set N is made of the targets of id<..> attributes: grown by N.add(x.target) or built by a set
                # comprehension over x.target, in either case where x.type == 'id' is known
                elems = []
                try:
                    nt = ast.parse(N, mode="eval").body
                except SyntaxError:
                    nt = None
                comps = [nt]
                if isinstance(nt, ast.Call) and isinstance(nt.func, ast.Name) and nt.func.id in m.funcs:
                    # built by a helper: what the helper returns
                    comps = [r.value for r in m.nodes(m.funcs[nt.func.id]) if isinstance(r, ast.Return)]
                for ct in comps:
                    if isinstance(ct, ast.SetComp) and isinstance(ct.elt, ast.Attribute) and ct.elt.attr == "target" and \
                            isinstance(ct.elt.value, ast.Name):
                        # the (single-assigned) set was expanded to its comprehension by the canonical form
                        forms = P.Forms()
                        lits = []
                        for g in ct.generators:
                            for c in g.ifs:
                                f = forms.mk(c)
                                lits.extend(f[1] if f[0] == "and" else [f])
                        if ("lit", ("eq", f"{ct.elt.value.id}.type", "'id'"), True) in lits and len(comps) == 1:
                            return True
                for n in m.nodes(scope):
                    if isinstance(n, ast.Call) and isinstance(n.func, ast.Attribute) and n.func.attr == "add" and \
                            P.text(n.func.value) == N and n.args:
                        elems.append(n.args[0])
                    if isinstance(n, ast.Assign) and len(n.targets) == 1 and P.text(n.targets[0]) == N and \
                            isinstance(n.value, ast.SetComp):
                        elems.append(n.value.elt)
                for e in elems:
                    if isinstance(e, ast.Attribute) and e.attr == "target" and isinstance(e.value, ast.Name):
                        kk = P.know_at(e, scope)
                        if kk.K.get(("eq", f"{e.value.id}.type", "'id'")) is True:
                            return True
        return False

    def arity_increasing(s):
        if s.subst:
            return False
        for k, v in s.know.K.items():
            if k[0] == "cmp" and v and k[2].isidentifier() and k[3].isidentifier():
                src = []
                for nm in (k[2], k[3]):
                    src.append(any(isinstance(x._parent, ast.Assign) and isinstance(x._parent.value, ast.Call) and
                                   P.resolve(x._parent.value, s.fn)[0] == "func" and
                                   any(g in intparse for g in P.resolve(x._parent.value, s.fn)[1])
                                   for x in P.stores_of(s.fn).get(nm, [])))
                if all(src):
                    return True
        return False

    def arity_nonneg(s):
        return not s.subst and s.fn in intparse and any(
            k[0] == "cmp" and v and ((k[1] in ("Lt", "LtE") and k[3] == "0") or (k[1] in ("Gt", "GtE") and k[2] == "0"))
            for k, v in s.know.K.items())

    REQ = [
        ("unique:enums", unique("enums")), ("unique:groups", unique("groups")), ("unique:elements", unique("elements")),
        ("dangling:use", lambda s: k_in(s, lambda a: a == "Use.group", lambda b: b == "Schema.groups", False)),
        ("dangling:child", lambda s: k_in(s, lambda a: a == "Child.name", lambda b: b == "Schema.elements", False)),
        ("dangling:alias", lambda s: k_in(s, lambda a: "facets" in a and "'alias'" in a, lambda b: b == "Schema.elements", False)),
        ("dangling:enum", lambda s: k_in(s, lambda a: a == "Attr.target", lambda b: b == "Schema.enums", False)
         and {"enum", "flags"} <= s.tset),
        ("dangling:namespace", namespace),
        ("cycle:use", cycle),
        ("duplicate:expanded-attr", dup_attr),
        ("arity:increasing", arity_increasing),
        ("arity:non-negative", arity_nonneg),
        ("arity:file-bool-scalar", lambda s: {"file", "bool"} <= s.tset and not (s.tset & NUMERIC_T) and
         s.has(lambda k: any(isinstance(x, str) and "Attr.arity" in x for x in k[1:]))),
        ("arity:chars-bounded", lambda s: "chars" in s.tset and not (s.tset & NUMERIC_T) and
         s.has(lambda k: k[0] == "isinst" and k[1] == "Attr.arity.hi" and k[2] == ("int",), False)),
        ("default:required-has-none", lambda s: notnone_default(s) and
         s.has(lambda k: k[0] == "truthy" and "facets" in k[1] and "'required'" in k[1], True)),
        ("default:enum-is-keyword-string", lambda s: notnone_default(s) and "enum" in s.tset and not (s.tset & NUMERIC_T) and
         s.has(lambda k: k == ("isinst", "Attr.default", ("str",)), False)),
        ("default:enum-keyword-declared", lambda s: notnone_default(s) and "enum" in s.tset and
         s.has(lambda k: k[0] == "in" and _strip(k[1]) == "Attr.default" and "Schema.enums" in k[2], False)),
        ("default:forbidden-for-ref-id-chars", lambda s: notnone_default(s) and {"ref", "id", "chars"} <= s.tset and
         not (s.tset & NUMERIC_T) and all(k == ("isnone", "Attr.default") for k, v in default_keys(s))),
        ("default:bool-keyword", lambda s: notnone_default(s) and "bool" in s.tset and not (s.tset & NUMERIC_T) and
         s.has(lambda k: k[0] == "in" and _strip(k[1]) == "Attr.default" and
               _lit_set(k[2]) == {"true", "false"}, False)),
        ("default:text-is-string", lambda s: notnone_default(s) and {"string", "file"} <= s.tset and not (s.tset & NUMERIC_T)
         and s.has(lambda k: k == ("isinst", "Attr.default", ("str",)), False)),
        ("default:numeric-not-string", lambda s: notnone_default(s) and NUMERIC_T <= s.tset and
         not (s.tset & {"string", "file", "enum", "bool"}) and
         s.has(lambda k: k == ("isinst", "Attr.default", ("str",)), True)),
        ("default:no-vector-for-scalar", lambda s: notnone_default(s) and NUMERIC_T <= s.tset and
         s.has(lambda k: k == ("isinst", "Attr.default", ("tuple",)), True) and
         s.has(lambda k: any(isinstance(x, str) and "Attr.arity" in x for x in k[1:]))),
        ("default:count-at-least-lo", lambda s: notnone_default(s) and NUMERIC_T <= s.tset and
         s.has(lambda k: k[0] == "cmp" and "len(Attr.default)" in k[2] + k[3] and "Attr.arity.lo" in k[2] + k[3], True)),
        ("default:count-at-most-hi", lambda s: notnone_default(s) and NUMERIC_T <= s.tset and
         s.has(lambda k: k[0] == "cmp" and "len(Attr.default)" in k[2] + k[3] and "Attr.arity.hi" in k[2] + k[3], True)),
    ]
    untyped = sorted({(v, s.stmt.lineno) for s in sites for v in s.untyped()})
    res.extra["untyped_raise_conditions"] = [f"{v}@{ln}" for v, ln in untyped]
    for name, pred in REQ:
        hit = [s for s in sites if pred(s)]
        if hit:
            res.ok("R-COVER", f"rule:{name}", {"file": FILE, "line": hit[0].stmt.lineno, "in": hit[0].fn.qual,
                                                "sites": len(hit)})
        elif untyped:
            # some raise depends on attributes of a variable whose class the analyser could not infer: it may be the
            # check this rule is looking for -- cannot decide
            cx.und.add("R-COVER", f"rule:{name}", FILE, untyped[0][1], "no raise site matches the rule's data, but the class of "
                       f"`{untyped[0][0]}` (read by the raise at line {untyped[0][1]}) could not be inferred")
        else:
            anchor = m.func("_validate").node.lineno
            res.bad("R-COVER", f"rule:{name}", FILE, anchor,
                    f"no SchemaError raise in the parse/validate closure is control-dependent on the data of rule "
                    f"`{name}`: schemas breaking it are accepted")


def _lit_set(t):
    try:
        v = ast.literal_eval(_strip(t))
        return set(v) if isinstance(v, (tuple, list, set, frozenset)) else None
    except (ValueError, SyntaxError):
        return None


# ============================================================================ R-LINE-COUNT
TERMINATORS = ("\n", "\r\n", "\r")
_WILD = "\x00<any>"          # stands for "some character that is not a line terminator"


def _ord_lang(seq, depth=0):
    """Finite language of a regex sequence as an ordered list [(string, not_followed_by or None)], in the order a
    backtracking matcher tries it (alternatives left to right, greedy repeats longest first, lazy shortest first).
    Unbounded / wildcard parts are represented by strings that are not terminators (so clause 1 reports them);
    constructs whose match set cannot be enumerated raise AnalysisError (fail closed)."""
    from re import _constants as C
    if depth > 6:
        raise AnalysisError("newline token pattern nests too deeply")
    out = [("", None)]
    items = list(seq)
    for i, (op, av) in enumerate(items):
        if op is C.ASSERT_NOT and av[0] == 1:
            if i != len(items) - 1:
                raise AnalysisError("newline token pattern: negative lookahead that is not at the end of its alternative")
            nf = frozenset(x for x, _ in _ord_lang(av[1], depth + 1))
            out = [(a, (na or frozenset()) | nf) for a, na in out]
            continue
        if op is C.LITERAL:
            alts = [(chr(av), None)]
        elif op in (C.NOT_LITERAL, C.ANY):
            alts = [(_WILD, None)]
        elif op is C.IN:
            chars, wild = [], False
            for o2, a2 in av:
                if o2 is C.LITERAL:
                    chars.append(chr(a2))
                elif o2 is C.RANGE and a2[1] - a2[0] < 16:
                    chars.extend(chr(x) for x in range(a2[0], a2[1] + 1))
                else:
                    wild = True      # negation, category, wide range: matches characters that are not terminators
            alts = [(c, None) for c in dict.fromkeys(chars)] + ([(_WILD, None)] if wild else [])
        elif op is C.BRANCH:
            alts = []
            for alt in av[1]:
                alts.extend(_ord_lang(alt, depth + 1))
        elif op is C.SUBPATTERN:
            alts = _ord_lang(av[3], depth + 1)
        elif op is C.ATOMIC_GROUP:
            alts = _ord_lang(av, depth + 1)
        elif op in (C.MAX_REPEAT, C.MIN_REPEAT, C.POSSESSIVE_REPEAT):
            lo, hi, sub = av
            hi = min(lo + 2, 3) if hi is C.MAXREPEAT or hi > 3 else hi      # longer repeats are not terminators either
            sublang = _ord_lang(sub, depth + 1)
            if any(nf for _, nf in sublang):
                raise AnalysisError("newline token pattern: lookahead inside a repeat")
            greedy = op is not C.MIN_REPEAT

            def rep(nmin, nmax):
                if nmax == 0:
                    return [""]
                more = [a + b for a, _ in sublang for b in rep(max(nmin - 1, 0), nmax - 1)]
                if nmin > 0:
                    return more
                return more + [""] if greedy else [""] + more
            alts = [(x, None) for x in rep(lo, hi)]
        else:
            raise AnalysisError(f"newline token pattern: construct {op} cannot be enumerated")
        nxt = []
        for a, na in out:
            if na:
                raise AnalysisError("newline token pattern: lookahead followed by more pattern")
            for b, nb in alts:
                nxt.append((a + b, nb))
        out = nxt
        if len(out) > 256:
            raise AnalysisError("newline token pattern: language too large to enumerate")
    return out


def _winner(lang, t):
    """The alternative a backtracking matcher takes first on input t (followed by unknown text)."""
    for s, nf in lang:
        if s and t.startswith(s):
            rest = t[len(s):]
            if nf and rest and any(rest.startswith(x) for x in nf if x):
                continue
            return s
    return None


def _can_match_char(seq, ch):
    """Over-approximation: some character-consuming atom of the pattern accepts ch (lookarounds consume nothing)."""
    from re import _constants as C
    for op, av in seq:
        if op is C.LITERAL:
            if chr(av) == ch:
                return True
        elif op is C.NOT_LITERAL:
            if chr(av) != ch:
                return True
        elif op is C.ANY:
            return True                  # '.' excludes only "\n" without DOTALL; treated as able to match (conservative)
        elif op is C.IN:
            hit, negate = False, False
            for o2, a2 in av:
                if o2 is C.NEGATE:
                    negate = True
                elif o2 is C.LITERAL:
                    hit |= chr(a2) == ch
                elif o2 is C.RANGE:
                    hit |= a2[0] <= ord(ch) <= a2[1]
                elif o2 is C.CATEGORY:
                    name = str(a2)
                    if "NOT" in name:
                        hit |= not ("SPACE" in name or "LINEBREAK" in name)
                    else:
                        hit |= "SPACE" in name or "LINEBREAK" in name
                else:
                    hit = True
            if hit != negate:
                return True
        elif op is C.BRANCH:
            if any(_can_match_char(alt, ch) for alt in av[1]):
                return True
        elif op is C.SUBPATTERN:
            if _can_match_char(av[3], ch):
                return True
        elif op is C.ATOMIC_GROUP:
            if _can_match_char(av, ch):
                return True
        elif op in (C.MAX_REPEAT, C.MIN_REPEAT, C.POSSESSIVE_REPEAT):
            if _can_match_char(av[2], ch):
                return True
        elif op in (C.ASSERT, C.ASSERT_NOT, C.AT):
            continue
        else:
            raise AnalysisError(f"token regex: unsupported construct {op}")
    return False


def rule_line_count(res, cx):
    res.rule("R-LINE-COUNT", "the lexer's line counter advances exactly once per physical line terminator: the newline "
             "token's language is a set of terminators, a CRLF is never two newline tokens, no other token class can "
             "consume a character the newline token is made of, and `line += 1` runs once per newline token and nowhere else",
             floor=8)
    from re import _parser
    from re import _constants as C
    m = cx.m
    lex = m.func("_lex")
    pattern, flags, renode = _token_regex(cx)
    tree = _parser.parse(pattern, flags)
    names = {v: k for k, v in tree.state.groupdict.items()}
    top = tree.data
    alts = top[0][1][1] if len(top) == 1 and top[0][0] is C.BRANCH else [tree]
    groups = {}
    for a in alts:
        items = list(a)
        if len(items) != 1 or items[0][0] is not C.SUBPATTERN or items[0][1][0] not in names:
            raise AnalysisError("token regex: a top-level alternative is not a single named group")
        groups[names[items[0][1][0]]] = items[0][1][3]
    # ---- (2) the counter
    raises = [n for n in m.nodes(lex) if isinstance(n, ast.Raise) and isinstance(n.exc, ast.Call)]
    counter = None
    for r in raises:
        a = _line_arg(r.exc, m.funcs.get("SchemaError.__init__"))
        if isinstance(a, ast.Name):
            counter = a.id
    if counter is None:
        raise AnalysisError("anchor vanished: _lex's line counter (line argument of its SchemaError)")
    incs = [s._parent for s in P.stores_of(lex).get(counter, []) if isinstance(s._parent, ast.AugAssign)]
    inits = [s._parent for s in P.stores_of(lex).get(counter, []) if not isinstance(s._parent, ast.AugAssign)]
    construct = f"_lex:{counter}-once-per-newline-token"
    why = None
    tokname = None
    if len(incs) != 1 or len(inits) != 1:
        why = f"`{counter}` has {len(inits)} initialisations and {len(incs)} increments (expected one of each)"
    else:
        inc, init = incs[0], inits[0]
        if not (isinstance(init, ast.Assign) and isinstance(init.value, ast.Constant) and init.value.value == 1 and not P.loops_of(init)):
            why = f"`{counter}` is not initialised to 1 before the loop"
        elif not (isinstance(inc.op, ast.Add) and isinstance(inc.value, ast.Constant) and inc.value.value == 1):
            why = f"`{P.text(inc)}` is not `+= 1`"
        else:
            k = P.know_at(inc, lex)
            kinds = [(key, k.const(key[2])[1]) for key, v in k.K.items()
                     if key[0] == "eq" and v and k.const(key[2])[0] and isinstance(k.const(key[2])[1], str) and key[1].isidentifier()]
            kinds = [(key, c) for key, c in kinds if any(
                isinstance(s._parent, ast.Assign) and isinstance(s._parent.value, ast.Attribute) and s._parent.value.attr == "lastgroup"
                for s in P.stores_of(lex).get(key[1], []))]
            if len(kinds) != 1:
                why = "the increment is not under a test `kind == '<group>'` with kind = match.lastgroup"
            else:
                (key, tokname) = kinds[0]
                kv = key[1]
                # every condition on the way must hold for every token of that kind
                kk = P.Know(m, lex)
                kk.forms = k.forms
                kk.assume_eq(kv, tokname)
                for f, origin, tag in P.raw_facts(inc, lex, kk.forms):
                    used = {x.id for x in ast.walk(origin) if isinstance(x, ast.Name)}
                    if tag == "pred-raise" or isinstance(origin._parent, ast.While):
                        continue
                    if kk.holds(f) is not True:
                        why = f"the increment also depends on `{P.text(origin)}`, which does not hold for every '{tokname}' token"
                        break
    if why:
        res.bad("R-LINE-COUNT", construct, FILE, (incs[0] if incs else lex.node).lineno, why)
    else:
        res.ok("R-LINE-COUNT", construct, {"file": FILE, "line": incs[0].lineno, "token": tokname})
    tokname = tokname or "newline"
    if tokname not in groups:
        raise AnalysisError(f"token regex has no (?P<{tokname}>...) group although _lex counts lines on it")
    # ---- (1) language of the newline token
    lang = _ord_lang(groups[tokname])
    L = list(dict.fromkeys(s for s, _ in lang))
    shown = [x.replace(_WILD, "<non-terminator>") for x in L]
    res.extra["newline_token_language"] = [repr(x) for x in shown]
    badstr = [x for x in L if x not in TERMINATORS]
    if badstr:
        res.bad("R-LINE-COUNT", f"_lex:{tokname}-language", FILE, renode.lineno,
                f"the '{tokname}' token can match {[repr(x.replace(_WILD, '<non-terminator>')) for x in badstr]}, which is not one "
                "line terminator (\\n, \\r\\n, \\r): the counter advances where the text has no line break, or once for several")
    else:
        res.ok("R-LINE-COUNT", f"_lex:{tokname}-language", {"file": FILE, "line": renode.lineno, "language": [repr(x) for x in L]})
    # ---- (3) CRLF is one token
    w = _winner(lang, "\r\n")
    second = _winner(lang, "\n")
    if w == "\r" and second is not None:
        res.bad("R-LINE-COUNT", f"_lex:{tokname}-crlf-single-token", FILE, renode.lineno,
                f"on \"\\r\\n\" the '{tokname}' token matches \"\\r\" alone and then \"\\n\" again: one physical line terminator "
                f"advances `{counter}` twice, so error lines in CRLF text run past the end of the text "
                "(use `\\r\\n?|\\n` or put `\\r\\n` before `\\r`)")
    else:
        res.ok("R-LINE-COUNT", f"_lex:{tokname}-crlf-single-token",
               {"file": FILE, "line": renode.lineno, "on_crlf": repr(w), "then_on_lf": repr(second)})
    # ---- (4) nothing else consumes the characters the newline token is made of
    alphabet = sorted({ch for x in L for ch in x if x in TERMINATORS} | {ch for x in L if _WILD not in x for ch in x if ch in "\r\n"})
    for g, sub in groups.items():
        if g == tokname:
            continue
        eaten = [ch for ch in alphabet if _can_match_char(sub, ch)]
        construct = f"_lex:{tokname}-not-swallowed[{g}]"
        if eaten:
            # an unaccounted terminator only UNDER-counts: the reported line stays within the text, which is all the
            # property states.  Recorded as an observation, not a violation.
            res.extra.setdefault("observations_outside_property", []).append(
                {"construct": construct, "note": f"token class '{g}' can consume {[repr(c) for c in eaten]} without advancing the line counter"})
            res.ok("R-LINE-COUNT", construct, None)
        elif False:
            res.bad("R-LINE-COUNT", construct, FILE, renode.lineno,
                    f"token class '{g}' can consume {[repr(c) for c in eaten]}, which the '{tokname}' token treats as (part of) a line "
                    f"terminator: such a terminator is consumed without advancing `{counter}` and the text after it joins the token")
        else:
            res.ok("R-LINE-COUNT", construct, {"file": FILE, "line": renode.lineno, "terminator_chars": [repr(c) for c in alphabet]})


# ============================================================================ entry
def run(res, tier):
    cx = Ctx()
    res.trusted = ["CPython ast/re._parser (parsing only; nothing from /repo is imported or executed)",
                   "objects carrying schema field names are instances of mjcf_schema's own dataclasses"]
    rule_raise(res, cx)
    rule_ops(res, cx)
    rule_guar(res, cx)
    rule_recursion(res, cx)
    rule_cover(res, cx)
    rule_line_count(res, cx)
    rule_expand_total(res, cx)
    res.count("functions", len(cx.closure))
    cx.und.finish(res)
    res.explanation = (
        "Exception-escape analysis of mjcf_schema.py over the call closure of parse_string/parse_file (ast only). "
        "Decided: every raise is a SchemaError whose line comes from a token/declaration line or the lexer's newline "
        "counter; every conversion, subscript, unpacking, possibly-None dereference, union-member attribute, ordering "
        "comparison, token-cursor access and call is either discharged by one idiom of a closed list (evidence: "
        "coverage.idioms) or reported; NUMBER token regex is included in float()'s grammar (regex AST -> NFA, product "
        "with a float DFA) and no token alternative matches the empty string; lookups relying on the validator are "
        "matched against membership checks _validate performs for every declaration before the consumer; recursion "
        "with input-bounded depth is reported; each documented rule has a raise control-dependent on its data.")
    res.not_decided = ("that the reported line is the most helpful one; TypeError from operand types other than ordering "
                       "comparisons (str.join, +, iteration: left to the repo's type checker); I/O and decoding errors of "
                       "parse_file (the property quantifies over texts); time/termination of the regex engine; that an "
                       "'in-text' line is <= the number of lines (the eof token's line is last_line, +1 after a trailing newline).")
    res.assumptions = ["token lines are >= 1, so `line or self.peek().line` never evaluates peek() when line= is passed",
                       "dict tables are never shrunk between a membership test and the lookup (no del/pop/clear in the closure: checked)",
                       "dataclass field annotations in mjcf_schema.py describe the values stored (name-based typing)"]


# ============================================================================ R-EXPAND-TOTAL
_GROW = {"add", "append", "update", "extend", "insert", "setdefault"}


def _grown_locals(fn, m):
    """locals of fn that start as an empty / literal container and are grown inside fn"""
    born, grown = set(), set()
    for n in m.nodes(fn):
        if isinstance(n, ast.Assign) and len(n.targets) == 1 and isinstance(n.targets[0], ast.Name):
            v = n.value
            if isinstance(v, (ast.Set, ast.Dict, ast.List, ast.SetComp, ast.DictComp, ast.ListComp)) or (
                    isinstance(v, ast.Call) and isinstance(v.func, ast.Name) and v.func.id in ("set", "dict", "list", "frozenset")):
                born.add(n.targets[0].id)
        if isinstance(n, ast.Call) and isinstance(n.func, ast.Attribute) and n.func.attr in _GROW \
                and isinstance(n.func.value, ast.Name):
            grown.add(n.func.value.id)
        if isinstance(n, ast.Subscript) and isinstance(n.ctx, ast.Store) and isinstance(n.value, ast.Name):
            grown.add(n.value.id)
        if isinstance(n, ast.AugAssign) and isinstance(n.target, ast.Name):
            grown.add(n.target.id)
    return born & grown


def rule_expand_total(res, cx):
    res.rule("R-EXPAND-TOTAL", "the validator's duplicate-attribute rule is checked on the group expansion "
             "(Schema.expanded_attrs and what it calls), so the expansion must yield one entry per `use` path: no decision "
             "in it is a membership test against a container the same function grows while expanding (a visited set "
             "de-duplicates: the second copy of an attribute reached along two `use` paths would never be seen) unless the "
             "arm taken on a hit raises; acyclicity is the validator's job (_check_group_cycle runs first)", floor=2)
    m = cx.m
    fns = [f for f in P.closure([m.func("Schema.expanded_attrs")]) if f.mod is m]
    expanding = [f for f in fns if any(isinstance(n, ast.Call) and isinstance(n.func, ast.Name) and n.func.id == "isinstance"
                                       and len(n.args) == 2 and "Use" in P.text(n.args[1]) for n in m.nodes(f))]
    if not expanding:
        raise AnalysisError("anchor vanished: no function reachable from Schema.expanded_attrs tests isinstance(.., Use)")
    for fn in expanding:
        grown = _grown_locals(fn, m)
        # a container handed in by the caller and grown here is shared expansion state as well
        for n in m.nodes(fn):
            if isinstance(n, ast.Call) and isinstance(n.func, ast.Attribute) and n.func.attr in ("add", "update") \
                    and isinstance(n.func.value, ast.Name) and n.func.value.id in fn.params:
                grown.add(n.func.value.id)
        bad = False
        for n in m.nodes(fn):
            if not isinstance(n, ast.Compare):
                continue
            for op, c in zip(n.ops, n.comparators):
                if isinstance(op, (ast.In, ast.NotIn)) and isinstance(c, ast.Name) and c.id in grown:
                    # the arm taken when the item IS in the container
                    st = n
                    while st is not None and not isinstance(st, (ast.If, ast.IfExp, ast.comprehension, ast.While, ast.Assert)):
                        st = getattr(st, "_parent", None)
                    hit_raises = False
                    if isinstance(st, ast.If) and st.test is n:
                        arm = st.body if isinstance(op, ast.In) else st.orelse
                        hit_raises = bool(arm) and P._always(arm, fn, cx.noret, raise_only=True)
                    elif isinstance(st, ast.Assert):
                        hit_raises = isinstance(op, ast.NotIn)
                    if hit_raises:
                        continue
                    bad = True
                    res.bad("R-EXPAND-TOTAL", f"{fn.qual}:{c.id}:membership-decides-expansion", m.rel, n.lineno,
                            f"`{P.text(n)}` decides what the expansion does, and `{c.id}` is grown by {fn.qual} itself while it "
                            "expands: a group reached a second time (two `use` paths to one base group, or `use` of the same "
                            "group twice) is skipped, so the duplicate-attribute rule of _validate, which runs over this "
                            "expansion, accepts a schema with duplicate attributes after group expansion and expanded_attrs() "
                            "is no longer the expansion")
        if not bad:
            res.ok("R-EXPAND-TOTAL", f"{fn.qual}:no-dedup", {"file": m.rel, "line": fn.node.lineno,
                                                              "grown_locals": sorted(grown)})
    # the duplicate rule really consumes the expansion
    val = m.func("_validate")
    users = [f for f in P.closure([val]) if any(isinstance(n, ast.Call) and isinstance(n.func, ast.Attribute)
                                               and n.func.attr == "expanded_attrs" for n in m.nodes(f))]
    if users:
        res.ok("R-EXPAND-TOTAL", "_validate:consumes-expanded_attrs", {"file": m.rel, "functions": sorted(f.qual for f in users)})
    else:
        res.bad("R-EXPAND-TOTAL", "_validate:consumes-expanded_attrs", m.rel, val.node.lineno,
                "nothing reachable from _validate calls expanded_attrs: the duplicate-attribute rule is not checked on the expansion")


# ============================================================================ self-test (thorough tier)
_PARSE_CHAIN = """      token = self.expect('ident')
      if token.value == 'enum':
        enum = self.parse_enum(token.line)
        self.declare(schema.enums, enum.name, 'enum', token.line)
        schema.enums[enum.name] = enum
      elif token.value == 'group':
        group = self.parse_group(token.line)
        self.declare(schema.groups, group.name, 'group', token.line)
        schema.groups[group.name] = group
      elif token.value == 'element':
        element = self.parse_element(token.line)
        self.declare(schema.elements, element.name, 'element', token.line)
        schema.elements[element.name] = element
      else:
        raise self.error(
            f"expected 'enum', 'group' or 'element', "
            f'got {token.value!r}', line=token.line)
"""
_PARSE_WHILE = "    while self.peek().kind != 'eof':\n"


def _dispatch(entries, guard=True, unpack="parse_decl, table = handler"):
    """parse() rewritten as a dict dispatch to bound methods (the shape of refactor E-p1), with knobs for defects."""
    table = "    declarations = {\n" + "".join(f"        {e},\n" for e in entries) + "    }\n"
    body = "      keyword = self.expect('ident')\n      handler = declarations.get(keyword.value)\n"
    if guard:
        body += ("      if handler is None:\n        raise self.error(\n            f\"expected 'enum', 'group' or 'element', \"\n"
                 "            f'got {keyword.value!r}', line=keyword.line)\n")
    body += (f"      {unpack}\n      decl = parse_decl(keyword.line)\n"
             "      self.declare(table, decl.name, keyword.value, keyword.line)\n      table[decl.name] = decl\n")
    return [(FILE, _PARSE_WHILE + _PARSE_CHAIN, table + _PARSE_WHILE + body)]


_ENTRIES = ["'enum': (self.parse_enum, schema.enums)", "'group': (self.parse_group, schema.groups)",
            "'element': (self.parse_element, schema.elements)"]
_CHILD_CHECK = ("      if child.name not in schema.elements:\n"
                "        err(child.line, f'child references undeclared element {child.name!r}')\n")
_FACETS_LOOP = """    while True:
      token = self.expect('ident')
      if token.value not in known:
        raise self.error(f'unknown facet {token.value!r}', line=token.line)
      if token.value in facets:
        raise self.error(f'duplicate facet {token.value!r}', line=token.line)
      if self.accept('='):
        value_token = self.next()
        if value_token.kind == 'string':
          facets[token.value] = value_token.value.strip('"')
        elif value_token.kind == 'ident':
          facets[token.value] = value_token.value
        elif value_token.kind == 'number':
          facets[token.value] = float(value_token.value)
        else:
          raise self.error(f'expected facet value, got {value_token.value!r}',
                           line=value_token.line)
      else:
        facets[token.value] = True
      if self.accept(')'):
        return facets
      self.expect(',')
"""
_FACETS_FLAG = """    closed = False
    while not closed:
      token = self.expect('ident')
      facet = token.value
      if facet not in known:
        raise self.error(f'unknown facet {facet!r}', line=token.line)
      if facet in facets:
        raise self.error(f'duplicate facet {facet!r}', line=token.line)
      facets[facet] = self._parse_facet_value() if self.accept('=') else True
      closed = self.accept(')') is not None
      if not closed:
        self.expect(',')
    return facets

  def _parse_facet_value(self):
    token = self.next()
    if token.kind == 'string':
      return token.value.strip('"')
    if token.kind == 'ident':
      return token.value
    if token.kind == 'number':
      return float(token.value)
    raise self.error(f'expected facet value, got {token.value!r}',
                     line=token.line)
"""
_NUMERIC_TAIL = """  if isinstance(attr.default, str):
    err(f'default for numeric attribute {attr.name!r} must be numeric')
  n = len(attr.default) if isinstance(attr.default, tuple) else 1
  lo, hi = attr.arity.lo, attr.arity.hi
  if isinstance(attr.default, tuple) and attr.arity.is_scalar():
    err(f'vector default for scalar attribute {attr.name!r}')
  if n < lo:
    err(f'default for {attr.name!r} has {n} values, arity requires '
        f'at least {lo}')
  if isinstance(hi, int) and n > hi:
    err(f'default for {attr.name!r} has {n} values, arity allows '
        f'at most {hi}')
"""


def _numeric_helper(first_check=True):
    helper = "\n\ndef _validate_numeric_default(attr: Attr, fail):\n  default = attr.default\n"
    if first_check:
        helper += "  if isinstance(default, str):\n    fail(f'default for numeric attribute {attr.name!r} must be numeric')\n"
    helper += ("  is_vector = isinstance(default, tuple)\n  n = len(default) if is_vector else 1\n"
               "  lo, hi = attr.arity.lo, attr.arity.hi\n  if is_vector and attr.arity.is_scalar():\n"
               "    fail(f'vector default for scalar attribute {attr.name!r}')\n  if n < lo:\n"
               "    fail(f'default for {attr.name!r} has {n} values, arity requires at least {lo}')\n"
               "  if isinstance(hi, int) and n > hi:\n"
               "    fail(f'default for {attr.name!r} has {n} values, arity allows at most {hi}')\n")
    return [(FILE, _NUMERIC_TAIL, "  _validate_numeric_default(attr, err)\n" + helper)]


_CHILD_LOOP = ("    seen_children = set()\n    for child in element.children():\n" + _CHILD_CHECK +
               "      if child.name in seen_children:\n        err(child.line, f'duplicate child {child.name!r}')\n"
               "      seen_children.add(child.name)\n")
_VALIDATE_HEAD = 'def _validate(schema: Schema):\n  """Semantic checks; raises SchemaError on the first violation."""\n'


def _children_helper(check=True, exc="SchemaError(schema.path, line, message)"):
    helper = (f"def _fail(schema: Schema, line: int, message: str):\n  raise {exc}\n\n\n"
              "def _declared(schema: Schema, name: str) -> bool:\n  return name in schema.elements\n\n\n"
              "def _check_children(schema: Schema, element: Element):\n  seen_children = set()\n"
              "  for child in element.children():\n")
    if check:
        helper += ("    if not _declared(schema, child.name):\n"
                   "      _fail(schema, child.line, f'child references undeclared element {child.name!r}')\n")
    helper += ("    if child.name in seen_children:\n      _fail(schema, child.line, f'duplicate child {child.name!r}')\n"
               "    seen_children.add(child.name)\n\n\n")
    return [(FILE, _VALIDATE_HEAD, helper + _VALIDATE_HEAD), (FILE, _CHILD_LOOP, "    _check_children(schema, element)\n")]


MUTANTS = [
    # ---- must fire: defects of the kind each rule exists for
    {"id": "drop-dangling-child-check", "expect": ("R-COVER", "dangling:child"), "edits": [(FILE, _CHILD_CHECK, "")]},
    {"id": "drop-duplicate-group-check", "expect": ("R-COVER", "unique:groups"),
     "edits": [(FILE, "        self.declare(schema.groups, group.name, 'group', token.line)\n", "")]},
    {"id": "unpack-wrong-arity", "expect": ("R-EXC-OPS", "_Parser.parse_attr:(attr_type,"),
     "edits": [(FILE, "    attr_type, target, arity = self.parse_type()\n",
                "    attr_type, target = self.parse_type()\n    arity = Arity(1, 1)\n")]},
    {"id": "keyerror-escapes-validate-attr", "expect": ("R-EXC-OPS", "schema.enums[attr.target]"),
     "edits": [(FILE, "  if attr.type in ('enum', 'flags') and attr.target not in schema.enums:",
                "  if attr.type == 'flags' and attr.target not in schema.enums:")]},
    {"id": "valueerror-escapes-parse-int", "expect": ("R-EXC-OPS", "_Parser.parse_int:int("),
     "edits": [(FILE, "    try:\n      value = int(token.value)\n    except ValueError:\n      raise self.error(f'expected integer, got {token.value!r}',\n"
                "                       line=token.line) from None\n", "    value = int(token.value)\n")]},
    {"id": "raise-not-schemaerror", "expect": ("R-EXC-RAISE", "_Parser.parse_type"),
     "edits": [(FILE, "      raise self.error(f'unknown type {token.value!r}', line=token.line)",
                "      raise ValueError(f'unknown type {token.value!r}')")]},
    {"id": "eof-consumed-without-raise", "expect": ("R-EXC-OPS", "_Parser.expect"),
     "edits": [(FILE, "    if token.kind != kind:\n      raise self.error(f'expected {kind!r}, got {token.value!r}',",
                "    if token.kind != kind and token.kind != 'eof':\n      raise self.error(f'expected {kind!r}, got {token.value!r}',")]},
    {"id": "error-without-line", "expect": ("R-EXC-RAISE", "_Parser.parse_group"),
     "edits": [(FILE, "      raise self.error(f'group {name!r} is empty', line=line)", "      raise self.error(f'group {name!r} is empty')")]},
    # the same kinds of defect in the refactored shapes (dispatch table, helpers): the rules must still see them
    {"id": "dispatch-entry-wrong-arity", "expect": ("R-EXC-OPS", "_Parser.parse:(parse_decl,"),
     "edits": _dispatch(_ENTRIES[:2] + ["'element': (self.parse_element, schema.elements, 'element')"])},
    {"id": "dispatch-miss-not-tested", "expect": ("R-EXC-OPS", "_Parser.parse:(parse_decl,"),
     "edits": _dispatch(_ENTRIES, guard=False)},
    {"id": "dispatch-wrong-table", "expect": ("R-COVER", "unique:elements"),
     "edits": _dispatch(_ENTRIES[:2] + ["'element': (self.parse_element, schema.groups)"])},
    {"id": "helper-raises-other-exception", "expect": ("R-EXC-RAISE", "_fail"),
     "edits": _children_helper(exc="KeyError(message)")},
    {"id": "helper-drops-dangling-child-check", "expect": ("R-COVER", "dangling:child"), "edits": _children_helper(check=False)},
    {"id": "split-default-drops-string-check", "expect": ("R-COVER", "default:numeric-not-string"),
     "edits": _numeric_helper(first_check=False)},
    # ---- controls: behaviour-preserving shapes (small versions of the stored refactors E-p1 / E-p2)
    {"id": "ctl-dispatch-table-of-bound-methods", "expect": None, "edits": _dispatch(_ENTRIES)},
    {"id": "ctl-flag-loop-and-value-helper", "expect": None, "edits": [(FILE, _FACETS_LOOP, _FACETS_FLAG)]},
    {"id": "ctl-check-in-helper-with-predicate-and-fail", "expect": None, "edits": _children_helper()},
    {"id": "ctl-default-tail-in-helper-with-callable-param", "expect": None, "edits": _numeric_helper()},
    {"id": "ctl-checker-helper-before-lookup", "expect": None,
     "edits": [(FILE, "def _validate_attr(schema: Schema, attr: Attr, namespaces: set[str]):",
                "def _require_enum(schema: Schema, attr: Attr):\n  if attr.target not in schema.enums:\n"
                "    raise SchemaError(schema.path, attr.line, f'attribute {attr.name!r} references undeclared enum {attr.target!r}')\n\n\n"
                "def _validate_attr(schema: Schema, attr: Attr, namespaces: set[str]):"),
               (FILE, "  if attr.type in ('enum', 'flags') and attr.target not in schema.enums:\n"
                "    err(f'attribute {attr.name!r} references undeclared enum {attr.target!r}')\n",
                "  if attr.type in ('enum', 'flags'):\n    _require_enum(schema, attr)\n")]},
]


_GA_LOOP = """    while pending:
      for member in pending[-1]:
        if isinstance(member, Attr):
          out.append(member)
"""
_GA_FLAG = """    done = False
    while not done:
      if not pending:
        done = True
        continue
      for member in pending[-1]:
        if isinstance(member, Attr):
          out.append(member)
"""
_EXPECT = """    token = self.next()
    if token.kind != kind:
      raise self.error(f'expected {kind!r}, got {token.value!r}',
                       line=token.line)
    return token
"""


def _expect_helper(test="token.kind != kind"):
    return [(FILE, _EXPECT, "    token = self.next()\n    self._require_kind(token, kind)\n    return token\n\n"
             "  def _require_kind(self, token: _Token, kind: str):\n"
             f"    if {test}:\n      raise self.error(f'expected {{kind!r}}, got {{token.value!r}}',\n"
             "                       line=token.line)\n")]


_CHECKER_CLASS = '''class _ElementChecker:
  """Per-element checks."""

  def __init__(self, schema: Schema):
    self.schema = schema

  def fail(self, line: int, message: str):
    raise SchemaError(self.schema.path, line, message)

  def known(self, name: str) -> bool:
    return name in self.schema.elements

  def check_children(self, element: Element):
    seen_children = set()
    for child in element.children():
      if not self.known(child.name):
        self.fail(child.line, f'child references undeclared element {child.name!r}')
      if child.name in seen_children:
        self.fail(child.line, f'duplicate child {child.name!r}')
      seen_children.add(child.name)


'''
_ATTR_LOOP = ("  for container in containers:\n    for attr in container.members:\n      if isinstance(attr, Attr):\n"
              "        _validate_attr(schema, attr, namespaces)\n")

MUTANTS += [
    {"id": "flag-loop-without-emptiness-test", "expect": ("R-EXC-OPS", "Schema._group_attrs:pending"),
     "edits": [(FILE, _GA_LOOP, _GA_FLAG.replace("      if not pending:\n", "      if len(out) > 100000:\n"))]},
    {"id": "kind-check-helper-lets-eof-through", "expect": ("R-EXC-OPS", "_Parser.expect"),
     "edits": _expect_helper("token.kind != kind and token.kind != 'eof'")},
    {"id": "ctl-flag-loop-with-emptiness-test", "expect": None, "edits": [(FILE, _GA_LOOP, _GA_FLAG)]},
    {"id": "ctl-kind-check-in-checking-helper", "expect": None, "edits": _expect_helper()},
    {"id": "ctl-checks-in-helper-class", "expect": None,
     "edits": [(FILE, _VALIDATE_HEAD, _CHECKER_CLASS + _VALIDATE_HEAD + "  checker = _ElementChecker(schema)\n"),
               (FILE, _CHILD_LOOP, "    checker.check_children(element)\n")]},
    {"id": "ctl-attribute-loop-over-comprehension", "expect": None,
     "edits": [(FILE, _ATTR_LOOP, "  attrs = [m for c in containers for m in c.members if isinstance(m, Attr)]\n"
                "  for attr in attrs:\n    _validate_attr(schema, attr, namespaces)\n")]},
    {"id": "ctl-int-conversion-in-helper", "expect": None,
     "edits": [(FILE, "    try:\n      value = int(token.value)\n    except ValueError:\n      raise self.error(f'expected integer, got {token.value!r}',\n"
                "                       line=token.line) from None\n    if value < 0:\n      raise self.error('arity may not be negative', line=token.line)\n    return value\n",
                "    value = self._to_int(token)\n    if value < 0:\n      raise self.error('arity may not be negative', line=token.line)\n    return value\n\n"
                "  def _to_int(self, token: _Token) -> int:\n    try:\n      return int(token.value)\n    except ValueError:\n"
                "      raise self.error(f'expected integer, got {token.value!r}',\n                       line=token.line) from None\n")]},
]


_GA_USE = ("        elif isinstance(member, Use):\n          pending.append(iter(self.groups[member.group].members))\n          break\n")
MUTANTS += [
    # R-EXPAND-TOTAL: the expansion the duplicate rule runs on never de-duplicates
    {"id": "expansion-enters-each-group-once", "expect": ("R-EXPAND-TOTAL", "Schema._group_attrs:entered"),
     "edits": [(FILE, "    pending = [iter(self.groups[name].members)]\n", "    entered = {name}\n    pending = [iter(self.groups[name].members)]\n"),
               (FILE, _GA_USE, "        elif isinstance(member, Use) and member.group not in entered:\n          entered.add(member.group)\n"
                "          pending.append(iter(self.groups[member.group].members))\n          break\n")]},
    {"id": "expansion-skips-seen-group-with-continue", "expect": ("R-EXPAND-TOTAL", "Schema._group_attrs:seen"),
     "edits": [(FILE, "    pending = [iter(self.groups[name].members)]\n", "    seen = set()\n    pending = [iter(self.groups[name].members)]\n"),
               (FILE, _GA_USE, "        elif isinstance(member, Use):\n          if member.group in seen:\n            continue\n          seen.add(member.group)\n"
                "          pending.append(iter(self.groups[member.group].members))\n          break\n")]},
    {"id": "ctl-expansion-use-branch-first", "expect": None,
     "edits": [(FILE, "        if isinstance(member, Attr):\n          out.append(member)\n" + _GA_USE,
                "        if isinstance(member, Use):\n          pending.append(iter(self.groups[member.group].members))\n          break\n"
                "        elif isinstance(member, Attr):\n          out.append(member)\n")]},
]


def selftest(res):
    from .. import r_misc
    r_misc.run_mutants("C41", res, MUTANTS, parts=("doc/generate",))
