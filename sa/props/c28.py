"""C28 Sensors: own slice of sensordata, cutoff where documented, computed in the right stage.

Decided (clang AST of src/engine/*.c, of sensorNeedstage in src/user/user_objects.cc and mjs_sensorDim in
src/user/user_api.cc; all-paths exploration; nothing is executed):
  R-TABLE       for every mjtSensor enumerator: the stage the compiler assigns (sensorNeedstage) is the stage whose compute
                function (found through the dispatcher's switch on m->sensor_needstage[i]) has its case label, in exactly
                one of them; the size table sensorSize has a case for it; enumerators handled by no switch are in the
                reasoned exception table and every compute delivery of a stage loop is guarded by
                `m->sensor_type[i] != E` for its own i (early continue or the other arm of E's branch)
  R-WHO-WRITES  the closure of the per-stage compute functions never touches d->sensordata (no store, non-const pass,
                alias); the compute functions store into no mjData array themselves; every call of a function of the slice
                family (compute functions, the cutoff function and the functions forwarding their own index/slice pair to
                them) passes its own pair unchanged, or `d->sensordata + m->sensor_adr[I]` / the history slot of I with the
                same I it passes as the sensor index.  Private helpers (static, address never taken, not in the family)
                are analysed inside their callers with the arguments substituted; the instances are the distinct
                deliveries (entry function, callee, index, slice), so a driver shared by the three stage entry points
                counts once per stage and a call repeated on several branches counts once
  R-SIZE        per case label (function explored with `type == T` decided): the elements written through the slice are the
                first k with k a literal equal to sensorSize(T) and mjs_sensorDim(T), or exactly m->sensor_dim[i]
  R-CUTOFF      every compute call for (i, slice) is followed by the cutoff call for the same (i, slice) on every returning
                path; after the user callback and after plugin->compute a sweep over all sensors applies the cutoff to
                `d->sensordata + m->sensor_adr[j]`, guarded only by conditions implied by the condition under which the
                callback ran
  R-LAZY        producers = functions that set d->flg_x = 1; lazy locations = their mod sets (minus the stack allocator's);
                for every case label T of every stage switch (function explored with `type == T` decided): each read of a
                lazy location, directly or in the closure of a callee, happens with flg_x known set
Not decided: the measured quantities; user callbacks and plugin code.
"""
from __future__ import annotations

import re

from .. import callgraph, cfront, cir, ctypeinfo, engine, r_acquire, r_frame, r_sensor
from ..cfront import AnalysisError

SENSOR = "src/engine/engine_sensor.c"
IO = "src/engine/engine_io.c"
ANCHORS = ("mj_computeSensorPos", "mj_computeSensorVel", "mj_computeSensorAcc")
CUTOFF = "apply_cutoff"
COMPILER = ("src/user/user_objects.cc", "sensorNeedstage")
COMPILER_DIM = ("src/user/user_api.cc", "mjs_sensorDim")
SIZE_FN = "sensorSize"

# enumerators that no per-stage switch handles: one symbol per line, with the reason (checked structurally below)
NO_SWITCH = {
    "mjSENS_PLUGIN": "computed by the plugin's own compute callback in the stage the plugin declares (plugin->needstage); "
                     "the stage loops skip it by name and the plugin pass clips it",
    "mjSENS_USER": "computed by the user callback mjcb_sensor(m, d, stage) in the stage the model declares; the stage loops "
                   "zero it by name and the user pass clips it",
}
# case labels whose written extent is data dependent and cannot be bounded by this analysis (excluded from R-SIZE)
VAR_EXTENT = {
    "mjSENS_RANGEFINDER": "fill_raydata advances the pointer by the fields selected in sensor_intprm, once per pixel",
    "mjSENS_CONTACT": "slots of mju_condataSize(dataspec) elements, addressed through the data[] pointer table",
    "mjSENS_TACTILE": "nchannel blocks of mesh_vertnum elements (sensordata + c*ncon)",
}

FLOOR_ENUM = 45           # 49 enumerators on the pinned tree
FLOOR_SLICE_CALLS = 14    # 16 deliveries of an (index, slice) pair to the slice family: distinct (entry function with its private
#                           helpers in place, callee, pair) -- mj_computeSensor 4, mj_sensorPos/Vel/Acc 3 each (compute, user
#                           cutoff sweep, plugin cutoff sweep), the three integrators that reach the history insert 1 each
FLOOR_SIZE = 40           # 44 case labels with a literal or sensor_dim extent
FLOOR_LAZY = 7            # 9 (case, flag) readers: E_POTENTIAL, E_KINETIC, SUBTREELINVEL, SUBTREEANGMOM,
#                           ACCELEROMETER, FORCE, TORQUE, FRAMELINACC, FRAMEANGACC


def _filtered_function(tu, name, lang):
    """one function of a large TU, through clang's -ast-dump-filter (small cached IR)"""
    ir = cfront.load_tu(tu, lang=lang, filt=name)
    fns = [d for d in ir["decls"] if d.get("k") in ("FunctionDecl", "CXXMethodDecl") and d.get("n") == name
           and cir.body(d) is not None]
    if len(fns) != 1:
        raise AnalysisError(f"{name}: {len(fns)} definitions found in {tu}")
    return fns[0]


def _cutoff_datatypes(res):
    """The cutoff clamps only REAL (two-sided) and POSITIVE (upper side) outputs; AXIS and QUATERNION outputs (unit vectors,
    for which the compiler lets cutoff mean something else, e.g. the search radius of geomnormal) are never clipped.  Decided
    on the canonical view of the cutoff routine (found by role: reads m->sensor_cutoff, stores through its output pointer)."""
    from .. import norm
    u = engine.unit("src/engine/engine_sensor.c")
    cands = []
    for name, fn in u.funcs.items():
        if (fn.get("file") or u.tu) != u.tu:
            continue
        outs = [p.get("n") for p in cir.params(fn) if (p.get("t") or "").replace(" ", "") == "mjtNum*"]
        if outs and any(x.get("k") == "MemberExpr" and x.get("n") == "sensor_cutoff" for x in cir.walk(fn)) and \
                not any(x.get("k") == "MemberExpr" and x.get("n") == "sensor_type" and False for x in cir.walk(fn)):
            stores = [x for x in cir.walk(fn) if x.get("k") in ("BinaryOperator", "CompoundAssignOperator") and x.get("op") in ("=", "+=", "*=")
                      and cir.base_var(cir.kids(x)[0]) in outs and cir.strip(cir.kids(x)[0]).get("k") in ("ArraySubscriptExpr", "UnaryOperator")]
            # a clamp rewrites an element from its own value: every store's right-hand side reads the stored element
            if stores and all(cir.text(cir.kids(x)[0]) in cir.text(cir.kids(x)[1]) or x.get("k") == "CompoundAssignOperator" for x in stores):
                cands.append(name)
    if len(cands) != 1:
        raise AnalysisError(f"cutoff routine (reads m->sensor_cutoff, stores through its mjtNum* parameter) not identified: {cands}")
    fn = norm.canon(u, cands[0], propagate=True)
    body = cir.body(fn)
    outs = [p.get("n") for p in cir.params(fn) if (p.get("t") or "").replace(" ", "") == "mjtNum*"]
    dts = [n for n, _v in ctypeinfo.enum_values("mjtDataType")]
    allowed = {"mjDATATYPE_REAL", "mjDATATYPE_POSITIVE"}
    seen = set()
    bad = None
    for x in cir.walk(body):
        if x.get("k") in ("BinaryOperator", "CompoundAssignOperator") and x.get("op") in ("=", "+=", "*=") and \
                cir.base_var(cir.kids(x)[0]) in outs and cir.strip(cir.kids(x)[0]).get("k") in ("ArraySubscriptExpr", "UnaryOperator"):
            live, constrained = norm.enum_cases(norm.guards(body, x), dts, lambda t: "datatype" in t)
            if not constrained or not (live <= allowed):
                bad = bad or (x, sorted(live - allowed) if constrained else ["<every data type>"])
            seen |= live & allowed
    key = f"{cands[0]}:datatypes"
    if bad is not None:
        res.bad("R-CUTOFF", key, "src/engine/engine_sensor.c", bad[0].get("line"),
                f"{cands[0]} clamps sensor outputs of data type {bad[1]}: only REAL and POSITIVE outputs are subject to the cutoff; an axis or "
                f"quaternion output clipped component-wise is no longer a unit vector (geomnormal uses cutoff as its search radius)")
    elif seen != allowed:
        res.bad("R-CUTOFF", key, "src/engine/engine_sensor.c", fn.get("line"),
                f"{cands[0]} never clamps outputs of data type {sorted(allowed - seen)}")
    else:
        res.ok("R-CUTOFF", key, {"clamped": sorted(seen)})


def run(res, tier):
    u = engine.unit(SENSOR)
    for a in ANCHORS + (CUTOFF,):
        if a not in u.funcs:
            raise AnalysisError(f"anchor function {a} not found in {SENSOR}")
    enumerators = [n for n, v in ctypeinfo.enum_values("mjtSensor")]
    res.count("enumerators", len(enumerators))
    sig = {}
    for a in ANCHORS + (CUTOFF,):
        s = r_sensor.index_and_slice(u.funcs[a])
        if s is None:
            raise AnalysisError(f"{a}: expected exactly one `int` index and one `mjtNum*` slice parameter")
        sig[a] = s

    # ------------------------------------------------------------------------------------------- R-TABLE
    res.rule("R-TABLE", "each mjtSensor enumerator: compiler stage == stage of the engine switch with its case label (exactly "
             "one); sensorSize has a case; unhandled enumerators are in the reasoned exception table", floor=FLOOR_ENUM)
    ctab, cdefault = r_sensor.compiler_stage_table(_filtered_function(*COMPILER, "cxx"))
    disp = [n for n, fn in u.funcs.items() if {cir.callee(c) for c in cir.calls(fn)} >= set(ANCHORS)]
    if len(disp) != 1:
        raise AnalysisError(f"expected one dispatcher calling all of {ANCHORS}, found {disp}")
    dtab, dsw = r_sensor.dispatcher_table(u.funcs[disp[0]], set(ANCHORS))
    stage_fn = {}
    for st, called in dtab.items():
        if len(called) != 1:
            raise AnalysisError(f"{disp[0]}: case {st} calls {called}")
        stage_fn[st] = called[0]
    if set(stage_fn.values()) != set(ANCHORS):
        raise AnalysisError(f"{disp[0]}: dispatcher does not reach every compute function: {stage_fn}")
    labels = {}          # enumerator -> [stage]
    case_line = {}
    for st, fname in stage_fn.items():
        sw, tvar = r_sensor.type_switch(u.funcs[fname], sig[fname][0])
        groups, order = r_sensor.switch_groups(sw)
        for name in order:
            if name != "<default>":
                labels.setdefault(name, []).append(st)
                case_line[(name, st)] = groups[name]["label"].get("line")
    size_fn = _filtered_function(IO, SIZE_FN, "c")
    size_tab = r_sensor.return_table(size_fn)
    dim_tab = r_sensor.return_table(_filtered_function(*COMPILER_DIM, "cxx"))
    # stage loops: the functions that hand `d->sensordata + m->sensor_adr[i]` to the slice family
    family = {a: (sig[a][2], sig[a][3]) for a in ANCHORS + (CUTOFF,)}
    for _round in range(5):
        grew = False
        for sc in r_sensor.slice_calls(u, family):
            if sc["kind"] == "forward" and sc["function"] not in family:
                family[sc["function"]] = sc["own"]
                grew = True
        if not grew:
            break
    per_tu = engine.map_tus("sa.r_sensor", "tu_summary", engine.engine_tus(), extra=(sorted(family.items()),))
    g = callgraph.Graph(per_tu)
    sites = []
    for tu in sorted(per_tu):
        for sc in per_tu[tu]["slice_calls"]:
            if sc["kind"] == "forward" and sc["function"] not in family:
                # a forwarder outside engine_sensor.c: its own callers are not followed, so it does not pass
                sc = dict(sc, kind="other", why="forwarding function outside engine_sensor.c: its callers are not analysed")
            sites.append(sc)
    stage_loops = sorted({s["function"] for s in sites if s["kind"] == "sensordata" and s["callee"] != CUTOFF})
    if not stage_loops and not any(s["kind"] == "other" for s in sites):
        raise AnalysisError("no stage loop found: nothing hands d->sensordata + m->sensor_adr[i] to a compute function")
    for e in NO_SWITCH:
        if e not in enumerators:
            raise AnalysisError(f"exception table names {e}, which is not an mjtSensor enumerator any more")
    for e in enumerators:
        where = labels.get(e, [])
        file, line = SENSOR, (case_line.get((e, where[0])) if where else u.funcs[disp[0]].get("line"))
        if e in NO_SWITCH:
            # every compute delivery of a stage loop is guarded by `m->sensor_type[i] != e` for its own i (early continue or
            # the other arm of e's branch, in the loop itself or in a private helper analysed in place)
            missing = sorted({s2["function"] for s2 in sites if s2["function"] in stage_loops and s2["kind"] == "sensordata"
                              and s2["callee"] != CUTOFF and e not in s2["excluded_types"]})
            if where:
                res.bad("R-TABLE", e, file, line, f"{e} is in the exception table (no built-in computation) but has a case "
                        f"label in the {where} switch")
            elif missing:
                res.bad("R-TABLE", e, SENSOR, (u.funcs.get(missing[0]) or {}).get("line"),
                        f"{e} is handled by no per-stage switch and {missing} does not test for it by name before computing: "
                        f"the sensor would reach the `invalid sensor type` error")
            elif e not in size_tab:
                res.bad("R-TABLE", e, IO, size_fn.get("line"), f"{SIZE_FN} has no case for {e}")
            else:
                res.ok("R-TABLE", e, {"exception": NO_SWITCH[e][:60], "tested_by_name_in": stage_loops})
            continue
        cst = ctab.get(e)
        if cst is None:
            res.bad("R-TABLE", e, COMPILER[0], 0, f"the compiler's {COMPILER[1]} has no case for {e} (falls to the default "
                    f"{cdefault})")
            continue
        if len(where) != 1:
            res.bad("R-TABLE", e, file, line,
                    f"{e} must have a case label in exactly one per-stage compute function, found {where or 'none'}: "
                    + ("the sensor ends in the `invalid sensor type` error" if not where else "ambiguous stage"))
            continue
        if where[0] != cst:
            res.bad("R-TABLE", e, file, line,
                    f"the compiler assigns {e} to {cst} (sensor_needstage), so the dispatcher calls {stage_fn.get(cst)}, but "
                    f"the case label is in {stage_fn[where[0]]} ({where[0]}): the sensor ends in the `invalid sensor type` "
                    f"error of the {cst} function")
            continue
        if e not in size_tab or size_tab[e] is None:
            res.bad("R-TABLE", e, IO, size_fn.get("line"), f"{SIZE_FN} has no case for {e}")
            continue
        res.ok("R-TABLE", e, {"stage": cst, "function": stage_fn[cst], "size": size_tab[e]})
    for e in ctab:
        if e not in enumerators:
            raise AnalysisError(f"{COMPILER[1]} has a case {e} that is not an mjtSensor enumerator")

    # ------------------------------------------------------------------------------------------- R-WHO-WRITES
    res.rule("R-WHO-WRITES", "compute functions and their closure never touch d->sensordata; every delivery to the slice family "
             "(per entry function with its private helpers in place) passes the caller's own (index, slice) pair or "
             "d->sensordata + m->sensor_adr[I] / the history slot of I for the same I",
             floor=FLOOR_SLICE_CALLS + 3)
    for a in ANCHORS:
        key = g.find(a)
        clo = g.closure([key])
        bad = None
        for k2 in sorted(clo):
            for e in g.funcs[k2]["events"]:
                if e["kind"] != "read" and e["struct"] == "mjData" and e["field"] == "sensordata":
                    bad = (k2, e)
                    break
            if bad:
                break
        own = [e for e in g.funcs[key]["events"] if e["kind"] in ("assign", "elem") and e["struct"] == "mjData"
               and not e["field"].startswith("flg_")]
        if bad:
            res.bad("R-WHO-WRITES", f"{a}:no-access-to-d->sensordata", g.funcs[bad[0]]["file"], bad[1]["line"],
                    f"{bad[0][1]} (in the closure of {a}) reaches d->sensordata directly ({bad[1]['kind']}): a sensor can write "
                    f"outside the slice it was given")
        elif own:
            res.bad("R-WHO-WRITES", f"{a}:no-access-to-d->sensordata", SENSOR, own[0]["line"],
                    f"{a} stores into d->{own[0]['field']} itself; results must go through the slice parameter")
        else:
            res.ok("R-WHO-WRITES", f"{a}:no-access-to-d->sensordata", {"closure": len(clo)})
    for s in sites:
        construct = f"{s['function']}:{s['callee']}#{s['ord']}"
        if s["kind"] in ("forward", "sensordata", "history"):
            res.ok("R-WHO-WRITES", construct, {"file": s["file"], "line": s["line"], "kind": s["kind"], "index": s["index"],
                                                "slice": s["slice"], "call_sites": s.get("sites"),
                                                "helpers_in_place": s.get("inlined")})
        else:
            res.bad("R-WHO-WRITES", construct, s["file"], s["line"],
                    f"{s['callee']}() is called for sensor `{s['index']}` with the slice `{s['slice']}`, which is neither the "
                    f"caller's own (index, slice) pair nor d->sensordata + m->sensor_adr[{s['index']}] / the history slot of "
                    f"{s['index']}" + (f" ({s['why']})" if s.get("why") else ""))
    res.extra["slice_family"] = sorted(family)
    res.extra["stage_loops"] = stage_loops

    # ------------------------------------------------------------------------------------------- R-SIZE
    res.rule("R-SIZE", "elements written per case label: literal k == sensorSize == mjs_sensorDim, or exactly m->sensor_dim[i]",
             floor=FLOOR_SIZE)
    for st, fname in sorted(stage_fn.items()):
        ext = r_sensor.case_extents(u, fname, sig[fname][0], sig[fname][1])
        for e, x in ext.items():
            line = case_line.get((e, st))
            if x[0] == "var":
                if e not in VAR_EXTENT:
                    raise AnalysisError(f"{fname} case {e}: written extent not bounded by the analysis ({x[1]}) and the case "
                                        f"is not in the reasoned VAR_EXTENT table")
                res.count("cases_with_data_dependent_extent")
                continue
            if e in VAR_EXTENT:
                res.count("var_extent_entries_now_bounded")
            if x[0] == "dim":
                res.ok("R-SIZE", e, {"written": "m->sensor_dim[i]", "sensorSize": size_tab.get(e)})
                continue
            k = x[1]
            sz, dm = size_tab.get(e), dim_tab.get(e)
            if sz == "sensor_dim":
                res.ok("R-SIZE", e, {"written": k, "sensorSize": sz})
            elif sz != str(k):
                res.bad("R-SIZE", e, SENSOR, line, f"case {e} writes {k} element(s) through its slice but {SIZE_FN} says {sz}: "
                        f"a slice of {sz} element(s) passes model validation and is overrun")
            elif dm is not None and dm != str(k):
                res.bad("R-SIZE", e, SENSOR, line, f"case {e} writes {k} element(s) through its slice but the compiler's "
                        f"{COMPILER_DIM[1]} allocates {dm}: the next sensor's slice is overwritten")
            else:
                res.ok("R-SIZE", e, {"written": k, "sensorSize": sz, "sensorDim": dm})

    # ------------------------------------------------------------------------------------------- R-CUTOFF
    res.rule("R-CUTOFF", "cutoff follows every compute call for the same (index, slice) on all returning paths; user and plugin "
             "callbacks are followed by a cutoff sweep guarded only by implied conditions", floor=5)
    _cutoff_datatypes(res)
    compute = {a: family[a] for a in ANCHORS}
    cut = {CUTOFF: family[CUTOFF]}
    cc = r_sensor.cutoff_after_compute(u, compute, cut)
    if len(cc) < 3:
        raise AnalysisError(f"only {len(cc)} direct compute calls found")
    for c in cc:
        construct = f"{c['function']}:{c['callee']}"
        if c["msg"]:
            res.bad("R-CUTOFF", construct, c["file"], c["rline"] or c["line"], c["msg"])
        else:
            res.ok("R-CUTOFF", construct, {"file": c["file"], "line": c["line"]})
    sweeps = r_sensor.callback_sweeps(u, cut)
    if len(sweeps) < 2:
        raise AnalysisError(f"expected the user and the plugin callback passes, found {[s['function'] for s in sweeps]}")
    for s in sweeps:
        base = f"{s['function']}:{s['callback']}"
        if not s["sweeps"]:
            res.bad("R-CUTOFF", f"{base}:sweep", s["file"], s["line"],
                    f"the callback {s['callback']}() is not followed by a loop applying {CUTOFF} to the sensors it computed")
            continue
        for sw in s["sweeps"]:
            why = None
            hdr = sw["header"]
            if hdr is None or hdr[1] != "0" or not hdr[2].endswith("->nsensor"):
                why = f"the cutoff loop does not run over all sensors (header {hdr})"
            elif sw["index"] != hdr[0] or not re.fullmatch(rf"\w+->sensordata \+ \w+->sensor_adr\[{re.escape(hdr[0])}\]", sw["slice"]):
                why = (f"{CUTOFF} is applied to `{sw['slice']}` for sensor `{sw['index']}`: not the slice of the loop's "
                       f"sensor {hdr[0]}")
            if why:
                res.bad("R-CUTOFF", f"{base}:sweep", s["file"], sw["line"], why)
                continue
            res.ok("R-CUTOFF", f"{base}:sweep", {"line": sw["line"], "guards": [gd[0] for gd in sw["guards"]]})
            v = hdr[0]
            for gtxt, pol in sw["guards"]:
                m = re.fullmatch(rf"\w+->(sensor_\w+)\[{re.escape(v)}\] == (.+)", gtxt)
                gname = m.group(1) if m else re.sub(r"\W+", "_", gtxt)[:30]
                construct = f"{base}:guard:{gname}"
                ok, msg = _guard_implied(gtxt, pol, v, s)
                if ok:
                    res.ok("R-CUTOFF", construct, {"guard": gtxt, "why": msg})
                else:
                    res.bad("R-CUTOFF", construct, s["file"], sw["line"], msg)

    # ------------------------------------------------------------------------------------------- R-LAZY
    res.rule("R-LAZY", "per case label: every read of a lazily produced mjData location (direct or in a callee's closure) is "
             "dominated by the producer's flag being set", floor=FLOOR_LAZY)
    producers = {}      # function -> flag
    prod_idx = {}
    for tu, f in per_tu.items():
        for n, st_ in f["flag_setters"].items():
            if len(st_["flags"]) != 1:
                raise AnalysisError(f"{n} sets several lazy flags: {st_['flags']}")
            if n in producers:
                raise AnalysisError(f"two functions named {n} set lazy flags")
            producers[n] = st_["flags"][0]
            prod_idx[n] = st_["indices"]
    if not producers:
        raise AnalysisError("no function sets a lazy flag of mjData to 1")
    stack_mod = set()
    for p in sorted(r_frame.MARK | r_frame.FREE | r_frame.ALLOC):
        k = g.find(p)
        if k is None:
            continue
        for k2 in g.closure([k]):
            for e in g.funcs[k2]["events"]:
                if e["kind"] != "read" and e["struct"] == "mjData":
                    stack_mod.add(e["field"])
    owners = {}         # field -> {flag: indices|None}
    for p, flag in sorted(producers.items()):
        key = g.find(p)
        fields = set()
        for k2 in g.closure([key], stop=set(producers) - {p}):
            for e in g.funcs[k2]["events"]:
                if e["kind"] != "read" and e["struct"] == "mjData" and not e["field"].startswith("flg_") \
                        and e["field"] not in stack_mod:
                    fields.add(e["field"])
        for fld in fields:
            ix = prod_idx[p].get(fld)
            owners.setdefault(fld, {})[flag] = set(ix) if ix else None
    res.extra["lazy_producers"] = producers
    res.extra["lazy_locations"] = {f: {fl: (sorted(ix) if ix else None) for fl, ix in o.items()} for f, o in owners.items()}
    # a field shared by two flags must be separated by literal indices, otherwise the ownership is ambiguous
    for fld, o in owners.items():
        if len(o) > 1:
            seen = set()
            for fl, ix in o.items():
                if ix is None or (seen & ix):
                    raise AnalysisError(f"d->{fld} is produced under several lazy flags {sorted(o)} without disjoint literal indices")
                seen |= ix
    lazy_fields = set(owners)
    nreaders = 0
    ncases = 0
    for st, fname in sorted(stage_fn.items()):
        fn = u.funcs[fname]
        callee_reads = {}
        for c in cir.calls(fn):
            name = cir.callee(c)
            if name is None or name in callee_reads or name in producers:
                continue
            k = g.resolve(SENSOR, name)
            if k is None:
                continue
            rd = set()
            for k2 in g.closure([k], stop=set(producers)):
                for e in g.funcs[k2]["events"]:
                    if e["struct"] == "mjData" and e["field"] in lazy_fields and e["kind"] in ("read", "pass", "alias", "addr"):
                        rd.add(e["field"])
            callee_reads[name] = rd
        out = r_sensor.lazy_cases(u, fname, sig[fname][0], producers, owners, callee_reads)
        for T, r in sorted(out.items()):
            ncases += 1
            by = {}
            for rp in r["reports"]:
                by.setdefault(rp.get("flag"), rp)
            flags = sorted({fl for fl, fld in r["readers"]})
            for fl in flags:
                nreaders += 1
                construct = f"{T}:{fl}"
                if fl in by:
                    res.bad("R-LAZY", construct, SENSOR, by[fl]["line"], by[fl]["msg"])
                else:
                    res.ok("R-LAZY", construct, {"function": fname, "fields": sorted(f for f2, f in r["readers"] if f2 == fl)})
    res.count("cases_explored", ncases)
    res.count("lazy_reader_cases", nreaders)

    res.explanation = (
        "Static analysis of the sensor pipeline: table agreement between the compiler's stage table, the engine's dispatcher and "
        "per-stage switches and the size table for all mjtSensor enumerators; custody of the (index, slice) pair from "
        "d->sensordata + m->sensor_adr[i] (or the history slot of i) down to the compute and cutoff functions, with no other "
        "access to d->sensordata in their closure; per-case written extent against sensorSize/mjs_sensorDim; cutoff after every "
        "compute on all paths and after the user/plugin callbacks under implied guards; per-case dominance of lazily produced "
        "inputs by their ensure-test.")
    res.not_decided = ("the measured quantities; extents of RANGEFINDER/CONTACT/TACTILE (data dependent); what user callbacks "
                       "and plugin compute functions write; that sensor_adr is the running sum of sensor_dim (compiler).")
    res.assumptions = ["error handlers (mju_error, mjERROR) do not return",
                       "the compiler copies plugin->needstage into sensor_needstage for plugin sensors (user_objects.cc)",
                       "values read back from the history buffer were clipped when they were computed"]


def _guard_implied(gtxt, pol, v, s):
    """Is the sweep guard `gtxt` (about sensor v) implied for every sensor the callback just computed?"""
    if not pol:
        return False, f"negated guard `!({gtxt})` on the cutoff sweep after {s['callback']}() is not understood"
    m = re.fullmatch(rf"\w+->(sensor_\w+)\[{re.escape(v)}\] == (.+)", gtxt)
    if not m:
        return False, (f"the cutoff after {s['callback']}() is guarded by `{gtxt}`, which is not a selection of the sensors the "
                       f"callback computed")
    fld, rhs = m.group(1), m.group(2)
    if fld == "sensor_type":
        if rhs in NO_SWITCH:
            return True, "selects the sensor kind computed by this callback"
        return False, f"the cutoff sweep after {s['callback']}() selects {rhs}, which is computed by the built-in switches"
    if fld == "sensor_plugin":
        if rhs in s["args"]:
            return True, "selects the sensors attached to the plugin instance passed to the callback"
        return False, f"`{gtxt}`: {rhs} is not the instance passed to {s['callback']}()"
    if fld == "sensor_needstage":
        if rhs in s["args"]:
            return True, "the callback is told this stage and computes exactly the sensors that need it"
        # the callback ran under a condition on the plugin's own stage: every disjunct must pin it to rhs
        dj = s.get("cb_guard_disjuncts") or []
        pinned_somewhere = False
        for alts in dj:
            hit = [any(p and re.fullmatch(rf".+->needstage == {re.escape(rhs)}", t) and "sensor_needstage" not in t
                       for t, p in alt) for alt in alts]
            if any(hit):
                pinned_somewhere = True
                if not all(hit):
                    loose = [" && ".join(t for t, p in alt) for alt, h in zip(alts, hit) if not h]
                    short = [re.sub(r"mjp_getPluginAtSlotUnsafe\([^()]*(\([^()]*\))?[^()]*\)", "plugin", x) for x in loose]
                    return False, (f"the plugin is also computed when `{short[0]}`, but the cutoff sweep requires "
                                   f"`{gtxt}`; sensor_needstage of a plugin sensor is the plugin's needstage, so for those "
                                   f"sensors the guard is false and the cutoff is never applied")
        if pinned_somewhere:
            return True, "every condition under which the plugin is computed pins its needstage to this stage"
        return False, f"`{gtxt}` is not implied by the condition under which {s['callback']}() runs"
    return False, f"guard on m->{fld} is not a selection the callback's sensors are known to satisfy"


# ------------------------------------------------------------------------------------------------ self-test (thorough tier)
_CLOCK = "  case mjSENS_CLOCK:                                  // simulation time\n    sensordata[0] = d->time;\n    break;\n\n"
_VELHEAD = "  case mjSENS_VELOCIMETER:                            // velocimeter\n"
_ENS_VEL = ("  if (!d->flg_subtreevel &&\n      (type == mjSENS_SUBTREELINVEL || type == mjSENS_SUBTREEANGMOM)) {\n"
            "    mj_subtreeVel(m, d);\n  }\n")
_JV = "  case mjSENS_JOINTVEL:                               // joint velocity\n    sensordata[0] = d->qvel[m->jnt_dofadr[objid]];\n    break;\n\n"
_TV = "  case mjSENS_TENDONVEL:                              // tendon velocity\n    sensordata[0] = d->ten_velocity[objid];\n    break;\n\n"
# refactored shapes of engine_sensor.c (behaviour preserving): the three stage drivers merged into one static function
# parametrised by the stage, the history decision of compute_or_read_sensor taken once, the cutoff guards merged
_DRIVERS = ("// position-dependent sensors\nvoid mj_sensorPos(", "//-------------------------------- energy")
_MERGED_DRIVER = """// process all sensors of the given stage: builtin, then user, then plugin sensors
static void compute_stage_sensors(const mjModel* m, mjData* d, mjtStage stage) {
  int nsensor = m->nsensor;
  int nusersensor = 0;
  if (mjDISABLED(mjDSBL_SENSOR)) {
    return;
  }
  int sleep_filter = mjENABLED(mjENBL_SLEEP) && d->nbody_awake < m->nbody;
  for (int i=0; i < nsensor; i++) {
    mjtSensor type = (mjtSensor) m->sensor_type[i];
    if (type == mjSENS_PLUGIN) {
      continue;
    }
    if (sleep_filter && mj_sleepState(m, d, mjOBJ_SENSOR, i) == mjS_ASLEEP) {
      continue;
    }
    if (m->sensor_needstage[i] != stage) {
      continue;
    }
    mjtNum* sensordata = d->sensordata + m->sensor_adr[i];
    if (type == mjSENS_USER) {
      if (stage == mjSTAGE_VEL) {
        if (!d->flg_subtreevel) {
          mj_subtreeVel(m, d);
        }
      } else if (stage == mjSTAGE_ACC) {
        if (!d->flg_rnepost) {
          mj_rnePostConstraint(m, d);
        }
      }
      mju_zero(sensordata, m->sensor_dim[i]);
      nusersensor++;
    } else {
      compute_or_read_sensor(m, d, i, sensordata);
    }
  }
  if (nusersensor) {
    compute_user_sensors(m, d, stage);
  }
  compute_plugin_sensors(m, d, stage);
}

void mj_sensorPos(const mjModel* m, mjData* d) {
  compute_stage_sensors(m, d, mjSTAGE_POS);
}

void mj_sensorVel(const mjModel* m, mjData* d) {
  compute_stage_sensors(m, d, mjSTAGE_VEL);
}

void mj_sensorAcc(const mjModel* m, mjData* d) {
  compute_stage_sensors(m, d, mjSTAGE_ACC);
}


"""


def _drivers(text):
    return [("sub", SENSOR, r"(?s)\A.*\Z", lambda _m: text, _DRIVERS[0], _DRIVERS[1])]


_CORS = ("// compute sensor or read from history buffer (handles delay and interval logic)\n",
         "// compute user sensors: call user callback and apply cutoff")
_ONE_DECISION = """static void read_sensor_history(const mjModel* m, mjData* d, int i, mjtNum* sensordata) {
  int interp = m->sensor_history[2*i+1];
  const mjtNum* ptr = mj_readSensor(m, d, i, d->time, sensordata, interp);
  if (ptr) {
    mju_copy(sensordata, ptr, m->sensor_dim[i]);
  }
}

static void compute_or_read_sensor(const mjModel* m, mjData* d, int i, mjtNum* sensordata) {
  int nsample = m->sensor_history[2*i];
  int from_history = 0;
  if (nsample > 0) {
    if (m->sensor_delay[i] > 0) {
      from_history = 1;
    } else {
      mjtNum interval = m->sensor_interval[2*i];
      if (interval > 0) {
        mjtNum time_prev = d->history[m->sensor_historyadr[i]];
        from_history = !(time_prev + interval <= d->time);
      }
    }
  }
  if (from_history) {
    read_sensor_history(m, d, i, sensordata);
  } else {
    mj_computeSensor(m, d, i, sensordata);
  }
}


"""
_CUT_OLD = ("  if (cutoff <= 0) {\n    return;\n  }\n\n  // cutoff ignored for contact and fromto sensors (but used by fromto sensors in a different way)\n"
            "  mjtSensor type = (mjtSensor)m->sensor_type[i];\n  if (type == mjSENS_CONTACT || type == mjSENS_GEOMFROMTO) {\n    return;\n  }\n\n"
            "  int dim = m->sensor_dim[i];\n\n  for (int j=0; j < dim; j++) {\n    // real: apply on both sides\n"
            "    if (m->sensor_datatype[i] == mjDATATYPE_REAL) {\n      data[j] = mju_clip(data[j], -cutoff, cutoff);\n    }\n\n"
            "    // positive: apply on positive side only\n    else if (m->sensor_datatype[i] == mjDATATYPE_POSITIVE) {\n"
            "      data[j] = mju_min(cutoff, data[j]);\n    }\n  }\n}\n")
_CUT_NEW = ("  mjtSensor type = (mjtSensor)m->sensor_type[i];\n"
            "  if (cutoff <= 0 || type == mjSENS_CONTACT || type == mjSENS_GEOMFROMTO) {\n    return;\n  }\n\n"
            "  int dim = m->sensor_dim[i];\n  int datatype = m->sensor_datatype[i];\n\n"
            "  if (datatype == mjDATATYPE_REAL) {\n    for (int j=0; j < dim; j++) {\n      data[j] = mju_clip(data[j], -cutoff, cutoff);\n    }\n  }\n"
            "  else if (datatype == mjDATATYPE_POSITIVE) {\n    for (int j=0; j < dim; j++) {\n      data[j] = mju_min(cutoff, data[j]);\n    }\n  }\n}\n")
MUTANTS = [
    ("move-case-to-other-stage", [(SENSOR, _CLOCK, ""), (SENSOR, _VELHEAD, _CLOCK + _VELHEAD)], "rule=R-TABLE construct=mjSENS_CLOCK"),
    ("compiler-stage-changed", [(COMPILER[0], "  case mjSENS_E_KINETIC:\n  case mjSENS_CLOCK:\n  case mjSENS_PLUGIN:\n  case mjSENS_USER:\n    return mjSTAGE_POS;",
                                 "  case mjSENS_E_KINETIC:\n  case mjSENS_PLUGIN:\n  case mjSENS_USER:\n    return mjSTAGE_POS;"),
                                (COMPILER[0], "  case mjSENS_SUBTREEANGMOM:\n    return mjSTAGE_VEL;", "  case mjSENS_SUBTREEANGMOM:\n  case mjSENS_CLOCK:\n    return mjSTAGE_VEL;")],
     "rule=R-TABLE construct=mjSENS_CLOCK"),
    ("drop-ensure-call", [(SENSOR, _ENS_VEL, "")], "rule=R-LAZY construct=mjSENS_SUBTREELINVEL:flg_subtreevel"),
    ("reader-outside-ensure-list", [(SENSOR, "       type == mjSENS_TORQUE        ||\n", "")], "rule=R-LAZY construct=mjSENS_TORQUE:flg_rnepost"),
    ("new-lazy-reader", [(SENSOR, "    sensordata[0] = d->qfrc_actuator[m->jnt_dofadr[objid]];",
                          "    sensordata[0] = d->qfrc_actuator[m->jnt_dofadr[objid]] + d->cfrc_ext[0];")],
     "rule=R-LAZY construct=mjSENS_JOINTACTFRC:flg_rnepost"),
    ("direct-sensordata-write", [(SENSOR, "    sensordata[0] = d->time;", "    d->sensordata[0] = d->time;")],
     "rule=R-WHO-WRITES construct=mj_computeSensorPos:no-access-to-d->sensordata"),
    ("slice-of-other-sensor", [(SENSOR, "      mjtSensor type = m->sensor_type[i];\n      int adr = m->sensor_adr[i];\n      mjtNum* sensordata = d->sensordata + adr;\n\n      if (type == mjSENS_USER) {\n        // call mj_subtreeVel",
                                "      mjtSensor type = m->sensor_type[i];\n      int adr = m->sensor_adr[i+1];\n      mjtNum* sensordata = d->sensordata + adr;\n\n      if (type == mjSENS_USER) {\n        // call mj_subtreeVel")],
     "rule=R-WHO-WRITES construct=mj_sensorVel:mj_computeSensor#1"),
    ("cutoff-skipped-on-one-path", [(SENSOR, "    mj_computeSensorVel(m, d, i, sensordata);\n    break;", "    mj_computeSensorVel(m, d, i, sensordata);\n    return;")],
     "rule=R-CUTOFF construct=mj_computeSensor:mj_computeSensorVel"),
    ("plugin-cutoff-sweep-removed", [(SENSOR, "        apply_cutoff(m, j, d->sensordata + m->sensor_adr[j]);\n", "        (void)j;\n")],
     "rule=R-CUTOFF construct=compute_plugin_sensors:plugin->compute:sweep"),
    ("extra-element-written", [(SENSOR, "    sensordata[0] = d->qpos[m->jnt_qposadr[objid]];", "    sensordata[0] = d->qpos[m->jnt_qposadr[objid]];\n    sensordata[1] = 0;")],
     "rule=R-SIZE construct=mjSENS_JOINTPOS"),
    # controls
    ("ctl-rename-type-variable", [("sub", SENSOR, r"\btype\b", "stype", "static void mj_computeSensorVel(", "static void mj_computeSensorAcc(")], None),
    ("ctl-ensure-inside-cases", [(SENSOR, _ENS_VEL, ""),
                                 (SENSOR, "    mju_copy3(sensordata, d->subtree_linvel+3*objid);", "    if (!d->flg_subtreevel) mj_subtreeVel(m, d);\n    mju_copy3(sensordata, d->subtree_linvel+3*objid);"),
                                 (SENSOR, "    mju_copy3(sensordata, d->subtree_angmom+3*objid);", "    if (!d->flg_subtreevel) { mj_subtreeVel(m, d); }\n    mju_copy3(sensordata, d->subtree_angmom+3*objid);")], None),
    ("ctl-reorder-cases", [(SENSOR, _JV + _TV, _TV + _JV)], None),
    ("ctl-extract-helper", [(SENSOR, "// compute position-stage sensor value, write to data buffer\n",
                             "static void ballquat(const mjData* d, int adr, mjtNum out[4]) {\n  mju_copy4(out, d->qpos+adr);\n  mju_normalize4(out);\n}\n"
                             "// compute position-stage sensor value, write to data buffer\n"),
                            (SENSOR, "    mju_copy4(sensordata, d->qpos+m->jnt_qposadr[objid]);\n    mju_normalize4(sensordata);", "    ballquat(d, m->jnt_qposadr[objid], sensordata);")], None),
    ("ctl-cutoff-guard-as-continue", [(SENSOR, "    if (m->sensor_type[i] == mjSENS_USER && m->sensor_needstage[i] == stage) {\n      apply_cutoff(m, i, d->sensordata + m->sensor_adr[i]);\n    }",
                                       "    if (m->sensor_type[i] != mjSENS_USER) continue;\n    if (m->sensor_needstage[i] != stage) continue;\n    apply_cutoff(m, i, d->sensordata + m->sensor_adr[i]);")], None),
    ("ctl-stage-drivers-merged", _drivers(_MERGED_DRIVER), None),
    ("ctl-single-history-decision", [("sub", SENSOR, r"(?s)\A.*\Z", lambda _m: _CORS[0] + _ONE_DECISION, _CORS[0], _CORS[1])], None),
    ("ctl-cutoff-merged-guards", [(SENSOR, _CUT_OLD, _CUT_NEW)], None),
    ("ctl-all-three-refactors", _drivers(_MERGED_DRIVER) + [(SENSOR, _CUT_OLD, _CUT_NEW),
                                 ("sub", SENSOR, r"(?s)\A.*\Z", lambda _m: _CORS[0] + _ONE_DECISION, _CORS[0], _CORS[1])], None),
    # the same demands on the merged shapes
    ("merged-driver-slice-of-other-sensor",
     _drivers(_MERGED_DRIVER.replace("d->sensordata + m->sensor_adr[i];", "d->sensordata + m->sensor_adr[i+1];")),
     "rule=R-WHO-WRITES construct=mj_sensorVel:mj_computeSensor#1"),
    ("merged-driver-plugin-not-skipped",
     _drivers(_MERGED_DRIVER.replace("    if (type == mjSENS_PLUGIN) {\n      continue;\n    }\n", "")),
     "rule=R-TABLE construct=mjSENS_PLUGIN"),
    ("merged-driver-user-computed",
     _drivers(_MERGED_DRIVER.replace("    } else {\n      compute_or_read_sensor(m, d, i, sensordata);\n    }\n",
                                     "    }\n    compute_or_read_sensor(m, d, i, sensordata);\n")),
     "rule=R-TABLE construct=mjSENS_USER"),
    ("history-decision-wrong-sensor",
     [("sub", SENSOR, r"(?s)\A.*\Z", lambda _m: _CORS[0] + _ONE_DECISION.replace("    mj_computeSensor(m, d, i, sensordata);", "    mj_computeSensor(m, d, i+1, sensordata);"),
       _CORS[0], _CORS[1])],
     "rule=R-WHO-WRITES construct=mj_sensor"),
]


def selftest(res):
    r_acquire.run_mutants("C28", MUTANTS, res)
