"""C09 Forward and inverse dynamics agree.

Decided (R-SIBLING-GUARD on three pairs): the discrete-time matrix that the forward integrator inverts and the one
mj_discreteAcc (invdiscrete) multiplies by are built under the same conditions and from the same ingredients:
  * pair EULER:        mj_EulerSkip            vs  case mjINT_EULER        of mj_discreteAcc
  * pair IMPLICIT:     mj_implicitSkip|IMPLICIT vs case mjINT_IMPLICIT
  * pair IMPLICITFAST: mj_implicitSkip|FAST     vs case mjINT_IMPLICITFAST
compared on: the set of option disable flags tested (mjDSBL_*), the derivative-building calls with their literal
arguments (mjd_* and mj_actuatorDamping), the sign with which m->opt.timestep scales the derivative, and the model
arrays read by the conditions that decide whether damping is treated implicitly.
R-SAVE-RESTORE: in mj_compareFwdInv and mj_inverseSkip every forward result saved before the inverse pass is restored
from the same buffer with the same length on every path after it.
Not decided: numerical equality of qfrc_inverse and the applied forces.
"""
from __future__ import annotations

import re

from .. import cir, ctypeinfo, engine, specialise
from ..cfront import AnalysisError

FWD = "src/engine/engine_forward.c"
INV = "src/engine/engine_inverse.c"


def _with_helpers(live, unit):
    """(kind, node) stream of a live-code list, extended by the bodies of same-TU static helpers it calls that could not be
    analysed in place (value-returning helpers with a search loop); a helper called from a condition contributes as condition"""
    seen = set()

    def emit(kind, n, depth):
        yield kind, n
        if unit is not None and cir.is_call(n) and depth < 3:
            h = unit.funcs.get(cir.callee(n))
            if h is not None and h.get("storageClass") == "static" and h.get("file") in (None, unit.tu) and h.get("n") not in seen \
                    and not (h.get("t") or "").startswith("void"):
                seen.add(h.get("n"))
                for x in cir.walk(cir.body(h)):
                    # inside a predicate helper everything decides the caller's condition
                    yield from emit("cond", x, depth + 1)
    for kind, n in specialise.nodes(live):
        yield from emit(kind, n, 0)


def signature(live, unit=None):
    flags, calls, signs, cond_arrays = set(), set(), set(), set()
    stream = list(_with_helpers(live, unit))
    for kind, n in stream:
        k = n.get("k")
        if k == "DeclRefExpr" and (n.get("ref") or {}).get("k") == "EnumConstantDecl":
            nm = n["ref"]["n"]
            if nm.startswith("mjDSBL_"):
                flags.add(nm)
        if cir.is_call(n):
            nm = cir.callee(n)
            if nm and (nm.startswith("mjd_") or nm == "mj_actuatorDamping"):
                lits = tuple(cir.text(a) for a in cir.args(n) if cir.strip(a) is not None and cir.strip(a).get("k") == "IntegerLiteral")
                calls.add((nm, lits))
        if k == "MemberExpr" and n.get("n") == "timestep":
            pass
        if kind == "cond" and k == "ArraySubscriptExpr":
            b = cir.strip(cir.kids(n)[0])
            # m->field[...] or m->field + k
            while b is not None and b.get("k") == "BinaryOperator":
                b = cir.strip(cir.kids(b)[0])
            if b is not None and b.get("k") == "MemberExpr" and b.get("arrow") and "mjModel" in (cir.strip(cir.kids(b)[0]).get("t") or ""):
                cond_arrays.add(b.get("n"))
        if kind == "cond" and cir.is_call(n):
            for a in cir.args(n):
                b = cir.strip(a)
                while b is not None and b.get("k") == "BinaryOperator":
                    b = cir.strip(cir.kids(b)[0])
                if b is not None and b.get("k") == "MemberExpr" and b.get("arrow") and \
                        "mjModel" in ((cir.strip(cir.kids(b)[0]) or {}).get("t") or "") and "*" in (b.get("t") or ""):
                    cond_arrays.add(b.get("n"))
    # timestep scaling sign: find `- m->opt.timestep` vs `m->opt.timestep` as factor / argument
    for kind, n in stream:
        if n.get("k") == "UnaryOperator" and n.get("op") == "-" and cir.text(cir.kids(n)[0]) == "m->opt.timestep":
            signs.add("-h")
    for kind, n in stream:
        if n.get("k") in ("BinaryOperator", "CompoundAssignOperator") and n.get("op") in ("*", "+=", "*="):
            t = cir.text(n)
            if "m->opt.timestep *" in t or "* m->opt.timestep" in t:
                if "-m->opt.timestep" not in t:
                    signs.add("+h")
    return {"flags": flags, "calls": calls, "signs": signs, "cond_arrays": cond_arrays}



# ------------------------------------------------------------------------------------------------------------ island copies

SYNC_CALLS = ("mju_gather", "mju_scatter", "mju_gatherInt", "mju_scatterInt")
# guards under which an island copy is not consumed at all (one line of reason each)
EXEMPT_FIELDS = {"nisland": "no islands were discovered: the island solver does not run and the i* copies are not read"}


def _data_field(e):
    e = cir.strip(e)
    if e is not None and e.get("k") == "MemberExpr" and e.get("arrow"):
        b = cir.strip(cir.kids(e)[0])
        if b is not None and "mjData" in (b.get("t") or ""):
            return e.get("n")
    return None


def _island_side(call):
    """(island-side field, array-side field) of a gather / scatter between two mjData arrays through an island map, and whether the
    call REFRESHES the island side (writes it from the array).  The island index domain is the one the map is indexed by (gather)
    or maps from (scatter): map_i<X>2<X> is indexed by island position."""
    a = cir.args(call)
    x, y, mp = _data_field(a[0]), _data_field(a[1]), _data_field(a[2])
    m = re.fullmatch(r"map_(\w+?)2(\w+)", mp or "")
    if x is None or y is None or m is None:
        return None
    from_island = m.group(1).startswith("i") and not m.group(2).startswith("i")
    to_island = m.group(2).startswith("i") and not m.group(1).startswith("i")
    if not (from_island or to_island):
        return None
    gather = cir.callee(call).startswith("mju_gather")
    # gather: dst[i] = src[map[i]]   -> dst lives in the map's index domain (first name), src in its value domain
    # scatter: dst[map[i]] = src[i]  -> src lives in the index domain, dst in the value domain
    dst_is_index_domain = gather
    index_is_island = from_island
    dst_island = (dst_is_index_domain == index_is_island)
    return (x, y, True) if dst_island else (y, x, False)


def island_copies(res):
    """R-ISLAND-COPY: an island-ordered copy of an mjData array that a function refreshes for later code stays coherent.

    A *refresh* is a gather / scatter through an island map of mjData whose destination is the island-ordered side.  If a function
    refreshes a pair and nothing in that function consumes the island side (no call whose call-graph closure, including functions
    passed as arguments, reads it), the refresh is done for the code that runs after the function, so the pair must be coherent
    at every exit: each content write to either side (direct, or by a callee whose closure writes it) is followed on ALL paths
    by the refresh, except on paths where `d->nisland` is known to be zero."""
    from .. import callgraph, paths
    res.rule("R-ISLAND-COPY", "a function that refreshes an island-ordered copy of an mjData array for later code (no consumer of the "
             "copy inside the function) refreshes it on every path after each write to the array or the copy (nisland == 0 excepted)",
             floor=2)
    g = callgraph.build(reads=True)
    _cw, _cr = {}, {}

    def closure_sets(key):
        if key not in _cw:
            W, R = set(), set()
            for k2 in g.closure([key]):
                evs = g.funcs[k2]["events"]
                ptr_assign = {(e["field"], e.get("line")) for e in evs if e["struct"] == "mjData" and e["kind"] == "assign"
                              and e.get("depth", 0) == 0}
                for e in evs:
                    if e["struct"] != "mjData":
                        continue
                    if e["kind"] in ("elem", "pass", "addr", "alias") or (e["kind"] == "assign" and e.get("depth", 0) > 0):
                        W.add(e["field"])          # (alias: a non-const local pointer to the array, written through later)
                    if e["kind"] in ("pass", "addr", "alias") or (e["kind"] == "read" and not (
                            e.get("depth", 0) == 0 and (e["field"], e.get("line")) in ptr_assign)):
                        R.add(e["field"])          # (the `read` that accompanies `d->x = NULL` is not a consumer)
            _cw[key], _cr[key] = W, R
        return _cw[key], _cr[key]

    def callee_keys(node, name):
        keys = []
        k_ = g.find(name) if name else None
        if k_ is not None:
            keys.append(k_)
        for a in cir.args(node):
            a2 = cir.strip(a)
            if a2 is not None and a2.get("k") == "DeclRefExpr" and (a2.get("ref") or {}).get("k") == "FunctionDecl":
                k2 = g.find(a2["ref"].get("n"))
                if k2 is not None:
                    keys.append(k2)
        return keys

    hosts = {}
    npairs = set()
    for tu in engine.engine_tus():
        u = engine.unit(tu)
        for fname, fn in u.funcs.items():
            if (fn.get("file") or u.tu) != u.tu:
                continue
            for c in cir.calls(fn):
                if cir.callee(c) not in SYNC_CALLS or len(cir.args(c)) < 3:
                    continue
                sd = _island_side(c)
                if sd is None:
                    continue
                npairs.add(frozenset(sd[:2]))
                if sd[2]:
                    hosts.setdefault((tu, fname), {})[(sd[0], sd[1])] = c
    if not npairs:
        raise AnalysisError("no gather / scatter between mjData arrays through an island map found: the island copies have moved")
    res.count("island_copy_pairs", len(npairs))
    res.count("functions_refreshing_island_copies", len(hosts))

    class Coherent(paths.Rule):
        def __init__(self, prs):
            self.prs = prs                      # {(island field, array field)}
            self.fields = {f for p in prs for f in p}

        def initial(self, fn):
            return frozenset()                  # {((island, array), line of the write)}

        def _dirty(self, st, fields, node):
            out = set(st)
            for pr in self.prs:
                if set(pr) & fields and not any(d[0] == pr for d in out):
                    out.add((pr, node.get("line")))
            return frozenset(out)

        def call(self, st, node, name, ctx):
            if name in SYNC_CALLS and len(cir.args(node)) >= 3:
                sd = _island_side(node)
                if sd is not None and (sd[0], sd[1]) in self.prs:
                    return frozenset(d for d in st if d[0] != (sd[0], sd[1]))      # either direction makes the pair coherent
            W = set()
            for k_ in callee_keys(node, name):
                W |= closure_sets(k_)[0]
            if not callee_keys(node, name):
                for a in cir.args(node):
                    f = _data_field(a)
                    if f in self.fields:
                        W.add(f)
            hit = W & self.fields
            return self._dirty(st, hit, node) if hit else st

        def assign(self, st, node, ctx):
            if node.get("k") == "VarDecl":
                return st
            from .. import modref
            rf = modref.root_field(cir.kids(node)[0])
            if rf is not None and rf[0] == "mjData" and rf[1] in self.fields and rf[2] > 0:
                return self._dirty(st, {rf[1]}, node)
            return st

        def branch(self, st, cond, taken, ctx):
            nc = paths.norm_cond(cond)
            if nc is not None:
                m = re.fullmatch(r"\w+->(\w+)", nc[0])
                if m and m.group(1) in EXEMPT_FIELDS and (taken != nc[1]):
                    return frozenset()          # the copy is not consumed on this path
            return st

        def ret(self, st, node, ctx):
            for d in sorted(st):
                ctx.report(node, d)

        def fallthrough(self, st, ctx):
            for d in sorted(st):
                ctx.report(ctx.fn, d)

    for (tu, fname), prs in sorted(hosts.items()):
        u = engine.unit(tu)
        fn = u.funcs[fname]
        consumed = set()
        for c in cir.calls(fn):
            if cir.callee(c) in SYNC_CALLS:
                continue
            for k_ in callee_keys(c, cir.callee(c)):
                consumed |= closure_sets(k_)[1]
        for n in cir.walk(fn):
            # direct reads of the island side inside the function
            if n.get("k") == "ArraySubscriptExpr":
                f = _data_field(cir.kids(n)[0])
                if f is not None:
                    consumed.add(f)
        required = {pr for pr in prs if pr[0] not in consumed}
        for pr in sorted(set(prs) - required):
            res.ok("R-ISLAND-COPY", f"{fname}:{pr[0]}~{pr[1]}", {"file": tu, "exit_coherence": "not required: the island side is consumed "
                                                                                                     "inside the function"})
        if not required:
            continue
        ctx = paths.explore(Coherent(required), u, fn)
        bad = {}
        for r in ctx.reports:
            key, line = r["msg"]
            bad.setdefault(key, (line, r["line"]))
        for pr in sorted(required):
            construct = f"{fname}:{pr[0]}~{pr[1]}"
            if pr in bad:
                wl, xl = bad[pr]
                res.bad("R-ISLAND-COPY", construct, tu, wl,
                        f"in {fname}, d->{pr[1]} (or its island-ordered copy d->{pr[0]}) is rewritten at line {wl} and a path reaches the "
                        f"exit (line {xl}) without the refresh `gather({pr[0]} <- {pr[1]})` that the function performs on other paths, "
                        f"although d->nisland may be non-zero there: the island solver then works with values the monolithic and "
                        f"inverse computations do not see")
            else:
                res.ok("R-ISLAND-COPY", construct, {"file": tu, "exit_coherence": "required and held on all paths"})


def run(res, tier):
    uf = engine.unit(FWD)
    ui = engine.unit(INV)
    for f in ("mj_EulerSkip", "mj_implicitSkip"):
        if f not in uf.funcs:
            raise AnalysisError(f"anchor {f} missing")
    if "mj_discreteAcc" not in ui.funcs:
        raise AnalysisError("anchor mj_discreteAcc missing")
    enum = ctypeinfo.load()["enumerators"]
    SF = specialise.Specialiser(uf)
    SI = specialise.Specialiser(ui)
    res.rule("R-SIBLING-GUARD", "forward integrator and discrete inverse build the same matrix under the same option guards", floor=10)
    pairs = [("EULER", "mj_EulerSkip", "mjINT_EULER"), ("IMPLICIT", "mj_implicitSkip", "mjINT_IMPLICIT"),
             ("IMPLICITFAST", "mj_implicitSkip", "mjINT_IMPLICITFAST")]
    from .. import norm
    # canonical views: static helpers analysed in place; the inverse's per-integrator code is what stays live in
    # mj_discreteAcc when m->opt.integrator is bound (switch, if-chain or hoisted local alike)
    inv_fn = norm.canon(ui, "mj_discreteAcc", nested=False, propagate=True)
    pseudo = inv_fn
    if not any("integrator" in cir.text(x) for x in cir.walk(inv_fn) if x.get("k") == "MemberExpr"):
        raise AnalysisError("mj_discreteAcc: no dispatch on m->opt.integrator found")
    # statements live for every integrator (prologue / epilogue) are not part of any integrator's own code
    ints_all = [n_ for n_ in enum if n_.startswith("mjINT_")]
    lives = {n_: SI.live(pseudo, {"m->opt.integrator": enum[n_], "skipfactor": 0}) for n_ in ints_all}
    common = None
    for n_, lv in lives.items():
        ids = {id(x) for _k, x in lv}
        common = ids if common is None else (common & ids)
    for name, ffn, en in pairs:
        env = {"m->opt.integrator": enum[en], "skipfactor": 0}
        a = signature(SF.live(norm.canon(uf, ffn, nested=False, propagate=True, exclude=("mj_advance",)), env), uf)
        b = signature([(k_, x) for k_, x in lives[en] if id(x) not in common], ui)
        res.count("pairs")
        for key, what in (("flags", "option disable flags tested"), ("calls", "derivative-building calls"),
                          ("signs", "sign of the timestep scaling"), ("cond_arrays", "model arrays deciding implicit damping")):
            fa, ib = a[key], b[key]
            if key == "cond_arrays" and name != "EULER":
                # only the Euler pair decides between explicit and implicit damping from model arrays
                continue
            if fa == ib:
                res.ok("R-SIBLING-GUARD", f"{name}:{key}", {"value": sorted(map(str, fa))})
            else:
                res.bad("R-SIBLING-GUARD", f"{name}:{key}", INV, inv_fn.get("line"),
                        f"[{name}] {what} differ: forward {ffn} has {sorted(map(str, fa))}, mj_discreteAcc case {en} has "
                        f"{sorted(map(str, ib))}")
    # ---------------------------------------------------------------- save / restore
    res.rule("R-SAVE-RESTORE", "forward results saved before the inverse pass are restored on all paths after it", floor=3)
    for fname, u in (("mj_compareFwdInv", ui), ("mj_inverseSkip", ui)):
        fn = u.funcs.get(fname)
        if fn is None:
            raise AnalysisError(f"anchor {fname} missing")
        saves = []
        restores = []
        order = []
        for c in cir.calls(fn, "mju_copy"):
            a = [cir.text(x) for x in cir.args(c)]
            dst, src, n = a
            if src.startswith("d->") and not dst.startswith("d->"):
                saves.append((dst, src, n, c))
            elif dst.startswith("d->") and not src.startswith("d->"):
                restores.append((src, dst, n, c))
        for buf, fld, n, c in saves:
            m = [r for r in restores if r[0] == buf]
            construct = f"{fname}:{fld}"
            if not m:
                res.bad("R-SAVE-RESTORE", construct, INV, c.get("line"), f"{fld} is saved to {buf} but never restored")
                continue
            r = m[0]
            problems = []
            if r[1] != fld:
                problems.append(f"restored into {r[1]} instead of {fld}")
            if r[2] != n:
                problems.append(f"saved {n} items but restores {r[2]}")
            if r[3].get("line") <= c.get("line"):
                problems.append("restore precedes the save")
            # the restore must not be nested deeper than the save unless under the same guard text
            if problems:
                res.bad("R-SAVE-RESTORE", construct, INV, r[3].get("line"), "; ".join(problems))
            else:
                res.ok("R-SAVE-RESTORE", construct, {"buffer": buf, "n": n})
    # guards of save and restore in mj_inverseSkip must be the same predicate (path rule via correlation)
    from .. import paths

    class SR(paths.Rule):
        def initial(self, fn):
            return frozenset()

        def call(self, st, node, name, ctx):
            if name == "mju_copy":
                a = [cir.text(x) for x in cir.args(node)]
                if a[1].startswith("d->") and not a[0].startswith("d->"):
                    return st | {a[0]}
                if a[0].startswith("d->") and not a[1].startswith("d->"):
                    if a[1] not in st:
                        ctx.report(node, f"restore from {a[1]} on a path where it was not saved")
                    return st - {a[1]}
            return st

        def ret(self, st, node, ctx):
            for b in st:
                ctx.report(node, f"return with {b} saved but not restored")

        def fallthrough(self, st, ctx):
            for b in st:
                ctx.report(ctx.fn, f"function end with {b} saved but not restored")
    for fname in ("mj_compareFwdInv", "mj_inverseSkip"):
        ctx = paths.explore(SR(), ui, ui.funcs[fname])
        if ctx.reports:
            for r in ctx.reports:
                res.bad("R-SAVE-RESTORE", f"{fname}:paths", INV, r["line"], r["msg"])
        else:
            res.ok("R-SAVE-RESTORE", f"{fname}:paths", None)
    # ---------------------------------------------------------------- R-FRESH on the inverse pipeline
    from .. import pipeline, r_fresh
    res.rule("R-FRESH", "no stage of the inverse pipeline reads a derived field whose producer is more conditional than the reader", floor=10)
    FI = pipeline.Flattener(ui, stop=pipeline.STAGES[ui.tu])
    for sk in ("mjSTAGE_NONE",):
        evs = FI.flatten(ui.funcs["mj_inverseSkip"], {"skipstage": enum[sk], "skipsensor": 0})
        r_fresh.check(res, "R-FRESH", f"mj_inverseSkip({sk})", evs, INV)


    # ---------------------------------------------------------------- R-ISLAND-COPY
    island_copies(res)

    res.explanation = (
        "Sibling agreement between each forward integrator (specialised by constant-folding the integrator tests) and the "
        "matching case of mj_discreteAcc on: disable flags tested, derivative-building calls and their literal arguments, "
        "timestep scaling sign, model arrays that decide implicit damping; save/restore pairing of forward results around "
        "the inverse pass on all paths.")
    res.not_decided = "numerical equality of inverse and applied forces; convergence of the forward solver."
    res.assumptions = ["error handlers do not return"]
