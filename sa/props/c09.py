"""C09 Forward and inverse dynamics agree.

Decided (R-SIBLING-GUARD on three pairs): the discrete-time matrix that the forward integrator inverts and the one
mj_discreteAcc (invdiscrete) multiplies by are built under the same conditions and from the same ingredients:
  * pair EULER:        mj_EulerSkip            vs  case mjINT_EULER        of mj_discreteAcc
  * pair IMPLICIT:     mj_implicitSkip|IMPLICIT vs case mjINT_IMPLICIT
  * pair IMPLICITFAST: mj_implicitSkip|FAST     vs case mjINT_IMPLICITFAST
compared on: the set of option disable flags tested (mjDSBL_*), the derivative-building calls with their literal
arguments (mjd_* and mj_actuatorDamping), the sign with which m->opt.timestep scales the derivative, and the model
arrays read by the conditions that decide whether damping is treated implicitly.
R-SAVE-RESTORE: in mj_compareFwdInv and mj_inverseSkip every forward result saved before the inverse pass is restored
from the same buffer with the same length on every path after it.
Not decided: numerical equality of qfrc_inverse and the applied forces.
"""
from __future__ import annotations

import re

from .. import cir, ctypeinfo, engine, specialise
from ..cfront import AnalysisError

FWD = "src/engine/engine_forward.c"
INV = "src/engine/engine_inverse.c"


def _with_helpers(live, unit):
    """(kind, node) stream of a live-code list, extended by the bodies of same-TU static helpers it calls that could not be
    analysed in place (value-returning helpers with a search loop); a helper called from a condition contributes as condition"""
    seen = set()

    def emit(kind, n, depth):
        yield kind, n
        if unit is not None and cir.is_call(n) and depth < 3:
            h = unit.funcs.get(cir.callee(n))
            if h is not None and h.get("storageClass") == "static" and h.get("file") in (None, unit.tu) and h.get("n") not in seen \
                    and not (h.get("t") or "").startswith("void"):
                seen.add(h.get("n"))
                for x in cir.walk(cir.body(h)):
                    # inside a predicate helper everything decides the caller's condition
                    yield from emit("cond", x, depth + 1)
    for kind, n in specialise.nodes(live):
        yield from emit(kind, n, 0)


def signature(live, unit=None):
    flags, calls, signs, cond_arrays = set(), set(), set(), set()
    stream = list(_with_helpers(live, unit))
    for kind, n in stream:
        k = n.get("k")
        if k == "DeclRefExpr" and (n.get("ref") or {}).get("k") == "EnumConstantDecl":
            nm = n["ref"]["n"]
            if nm.startswith("mjDSBL_"):
                flags.add(nm)
        if cir.is_call(n):
            nm = cir.callee(n)
            if nm and (nm.startswith("mjd_") or nm == "mj_actuatorDamping"):
                lits = tuple(cir.text(a) for a in cir.args(n) if cir.strip(a) is not None and cir.strip(a).get("k") == "IntegerLiteral")
                calls.add((nm, lits))
        if k == "MemberExpr" and n.get("n") == "timestep":
            pass
        if kind == "cond" and k == "ArraySubscriptExpr":
            b = cir.strip(cir.kids(n)[0])
            # m->field[...] or m->field + k
            while b is not None and b.get("k") == "BinaryOperator":
                b = cir.strip(cir.kids(b)[0])
            if b is not None and b.get("k") == "MemberExpr" and b.get("arrow") and "mjModel" in (cir.strip(cir.kids(b)[0]).get("t") or ""):
                cond_arrays.add(b.get("n"))
        if kind == "cond" and cir.is_call(n):
            for a in cir.args(n):
                b = cir.strip(a)
                while b is not None and b.get("k") == "BinaryOperator":
                    b = cir.strip(cir.kids(b)[0])
                if b is not None and b.get("k") == "MemberExpr" and b.get("arrow") and \
                        "mjModel" in ((cir.strip(cir.kids(b)[0]) or {}).get("t") or "") and "*" in (b.get("t") or ""):
                    cond_arrays.add(b.get("n"))
    # timestep scaling sign: find `- m->opt.timestep` vs `m->opt.timestep` as factor / argument
    for kind, n in stream:
        if n.get("k") == "UnaryOperator" and n.get("op") == "-" and cir.text(cir.kids(n)[0]) == "m->opt.timestep":
            signs.add("-h")
    for kind, n in stream:
        if n.get("k") in ("BinaryOperator", "CompoundAssignOperator") and n.get("op") in ("*", "+=", "*="):
            t = cir.text(n)
            if "m->opt.timestep *" in t or "* m->opt.timestep" in t:
                if "-m->opt.timestep" not in t:
                    signs.add("+h")
    return {"flags": flags, "calls": calls, "signs": signs, "cond_arrays": cond_arrays}


def run(res, tier):
    uf = engine.unit(FWD)
    ui = engine.unit(INV)
    for f in ("mj_EulerSkip", "mj_implicitSkip"):
        if f not in uf.funcs:
            raise AnalysisError(f"anchor {f} missing")
    if "mj_discreteAcc" not in ui.funcs:
        raise AnalysisError("anchor mj_discreteAcc missing")
    enum = ctypeinfo.load()["enumerators"]
    SF = specialise.Specialiser(uf)
    SI = specialise.Specialiser(ui)
    res.rule("R-SIBLING-GUARD", "forward integrator and discrete inverse build the same matrix under the same option guards", floor=10)
    pairs = [("EULER", "mj_EulerSkip", "mjINT_EULER"), ("IMPLICIT", "mj_implicitSkip", "mjINT_IMPLICIT"),
             ("IMPLICITFAST", "mj_implicitSkip", "mjINT_IMPLICITFAST")]
    from .. import norm
    # canonical views: static helpers analysed in place; the inverse's per-integrator code is what stays live in
    # mj_discreteAcc when m->opt.integrator is bound (switch, if-chain or hoisted local alike)
    inv_fn = norm.canon(ui, "mj_discreteAcc", nested=False, propagate=True)
    pseudo = inv_fn
    if not any("integrator" in cir.text(x) for x in cir.walk(inv_fn) if x.get("k") == "MemberExpr"):
        raise AnalysisError("mj_discreteAcc: no dispatch on m->opt.integrator found")
    # statements live for every integrator (prologue / epilogue) are not part of any integrator's own code
    ints_all = [n_ for n_ in enum if n_.startswith("mjINT_")]
    lives = {n_: SI.live(pseudo, {"m->opt.integrator": enum[n_], "skipfactor": 0}) for n_ in ints_all}
    common = None
    for n_, lv in lives.items():
        ids = {id(x) for _k, x in lv}
        common = ids if common is None else (common & ids)
    for name, ffn, en in pairs:
        env = {"m->opt.integrator": enum[en], "skipfactor": 0}
        a = signature(SF.live(norm.canon(uf, ffn, nested=False, propagate=True, exclude=("mj_advance",)), env), uf)
        b = signature([(k_, x) for k_, x in lives[en] if id(x) not in common], ui)
        res.count("pairs")
        for key, what in (("flags", "option disable flags tested"), ("calls", "derivative-building calls"),
                          ("signs", "sign of the timestep scaling"), ("cond_arrays", "model arrays deciding implicit damping")):
            fa, ib = a[key], b[key]
            if key == "cond_arrays" and name != "EULER":
                # only the Euler pair decides between explicit and implicit damping from model arrays
                continue
            if fa == ib:
                res.ok("R-SIBLING-GUARD", f"{name}:{key}", {"value": sorted(map(str, fa))})
            else:
                res.bad("R-SIBLING-GUARD", f"{name}:{key}", INV, inv_fn.get("line"),
                        f"[{name}] {what} differ: forward {ffn} has {sorted(map(str, fa))}, mj_discreteAcc case {en} has "
                        f"{sorted(map(str, ib))}")
    # ---------------------------------------------------------------- save / restore
    res.rule("R-SAVE-RESTORE", "forward results saved before the inverse pass are restored on all paths after it", floor=3)
    for fname, u in (("mj_compareFwdInv", ui), ("mj_inverseSkip", ui)):
        fn = u.funcs.get(fname)
        if fn is None:
            raise AnalysisError(f"anchor {fname} missing")
        saves = []
        restores = []
        order = []
        for c in cir.calls(fn, "mju_copy"):
            a = [cir.text(x) for x in cir.args(c)]
            dst, src, n = a
            if src.startswith("d->") and not dst.startswith("d->"):
                saves.append((dst, src, n, c))
            elif dst.startswith("d->") and not src.startswith("d->"):
                restores.append((src, dst, n, c))
        for buf, fld, n, c in saves:
            m = [r for r in restores if r[0] == buf]
            construct = f"{fname}:{fld}"
            if not m:
                res.bad("R-SAVE-RESTORE", construct, INV, c.get("line"), f"{fld} is saved to {buf} but never restored")
                continue
            r = m[0]
            problems = []
            if r[1] != fld:
                problems.append(f"restored into {r[1]} instead of {fld}")
            if r[2] != n:
                problems.append(f"saved {n} items but restores {r[2]}")
            if r[3].get("line") <= c.get("line"):
                problems.append("restore precedes the save")
            # the restore must not be nested deeper than the save unless under the same guard text
            if problems:
                res.bad("R-SAVE-RESTORE", construct, INV, r[3].get("line"), "; ".join(problems))
            else:
                res.ok("R-SAVE-RESTORE", construct, {"buffer": buf, "n": n})
    # guards of save and restore in mj_inverseSkip must be the same predicate (path rule via correlation)
    from .. import paths

    class SR(paths.Rule):
        def initial(self, fn):
            return frozenset()

        def call(self, st, node, name, ctx):
            if name == "mju_copy":
                a = [cir.text(x) for x in cir.args(node)]
                if a[1].startswith("d->") and not a[0].startswith("d->"):
                    return st | {a[0]}
                if a[0].startswith("d->") and not a[1].startswith("d->"):
                    if a[1] not in st:
                        ctx.report(node, f"restore from {a[1]} on a path where it was not saved")
                    return st - {a[1]}
            return st

        def ret(self, st, node, ctx):
            for b in st:
                ctx.report(node, f"return with {b} saved but not restored")

        def fallthrough(self, st, ctx):
            for b in st:
                ctx.report(ctx.fn, f"function end with {b} saved but not restored")
    for fname in ("mj_compareFwdInv", "mj_inverseSkip"):
        ctx = paths.explore(SR(), ui, ui.funcs[fname])
        if ctx.reports:
            for r in ctx.reports:
                res.bad("R-SAVE-RESTORE", f"{fname}:paths", INV, r["line"], r["msg"])
        else:
            res.ok("R-SAVE-RESTORE", f"{fname}:paths", None)
    # ---------------------------------------------------------------- R-FRESH on the inverse pipeline
    from .. import pipeline, r_fresh
    res.rule("R-FRESH", "no stage of the inverse pipeline reads a derived field whose producer is more conditional than the reader", floor=10)
    FI = pipeline.Flattener(ui, stop=pipeline.STAGES[ui.tu])
    for sk in ("mjSTAGE_NONE",):
        evs = FI.flatten(ui.funcs["mj_inverseSkip"], {"skipstage": enum[sk], "skipsensor": 0})
        r_fresh.check(res, "R-FRESH", f"mj_inverseSkip({sk})", evs, INV)

    res.explanation = (
        "Sibling agreement between each forward integrator (specialised by constant-folding the integrator tests) and the "
        "matching case of mj_discreteAcc on: disable flags tested, derivative-building calls and their literal arguments, "
        "timestep scaling sign, model arrays that decide implicit damping; save/restore pairing of forward results around "
        "the inverse pass on all paths.")
    res.not_decided = "numerical equality of inverse and applied forces; convergence of the forward solver."
    res.assumptions = ["error handlers do not return"]
